//! C11 on the wire: the reassembly table of a QUIC connection is cleaned by the task that receives the connection's
//! datagrams (`quic_frames_thread`), whatever else that task is doing. A real quinn client against the REAL binary:
//! one fragment of a two-fragment frame is sent and its sibling withheld, the connection is then kept busy with small
//! frames for longer than the reassembly timeout (no silent second), and a later frame that reuses the id must come
//! out exactly as it was sent - the stale fragment is gone by then.
use super::c05q::{free_tcp, free_udp, read_head, Px, CERTS};
use super::common::*;
use crate::common::fragment::Fragments;
use crate::common::frames::Frame;
use crate::common::quic::create_quic_client;
use crate::common::tls::TlsClientConfig;
use crate::context::TargetAddress;
use bytes::Bytes;
use serde_json::json;
use std::net::{SocketAddr, UdpSocket};
use std::sync::{Arc, Mutex};
use std::time::Duration;

pub fn busy_connection_expiry(chk: &Check) -> serde_json::Value {
    let got: Arc<Mutex<Vec<Vec<u8>>>> = Default::default();
    let origin = UdpSocket::bind("127.0.0.1:0").unwrap();
    let oport = origin.local_addr().unwrap().port();
    {
        let got = got.clone();
        std::thread::spawn(move || {
            let mut b = vec![0u8; 70000];
            while let Ok((n, _)) = origin.recv_from(&mut b) {
                got.lock().unwrap().push(b[..n].to_vec());
            }
        });
    }
    let (qp, hp) = (free_udp(), free_tcp());
    let mut px = Px::start(
        "c11",
        &format!("  - name: quic\n    type: quic\n    bind: 127.0.0.1:{qp}\n    tls:\n      cert: {CERTS}/server.crt\n      key: {CERTS}/server.key\n  - name: http\n    bind: 127.0.0.1:{hp}\n"),
        "  - name: c\n    type: direct\n",
        hp,
    );
    let tlsc: TlsClientConfig = serde_yaml::from_str("insecure: true").unwrap();
    let ccfg = create_quic_client(&tlsc, false).unwrap_or_else(|e| machinery(format!("quic client config: {e}")));
    let rt = tokio::runtime::Builder::new_multi_thread().worker_threads(2).enable_all().build().unwrap();
    let target = TargetAddress::SocketAddr(SocketAddr::from(([127, 0, 0, 1], oport)));
    let busy_s = 7.5f64;
    let res: Result<(usize, usize), String> = rt.block_on(async {
        let mut ep = quinn::Endpoint::client("127.0.0.1:0".parse().unwrap()).map_err(|e| format!("endpoint: {e}"))?;
        ep.set_default_client_config(ccfg);
        let conn = tokio::time::timeout(Duration::from_secs(5), ep.connect(SocketAddr::from(([127, 0, 0, 1], qp)), "localhost").map_err(|e| format!("connect: {e}"))?)
            .await
            .map_err(|_| "handshake timed out".to_string())?
            .map_err(|e| format!("handshake: {e}"))?;
        let (mut w, mut r) = conn.open_bi().await.map_err(|e| format!("open_bi: {e}"))?;
        w.write_all(format!("CONNECT 127.0.0.1:{oport} HTTP/1.1\r\nHost: x\r\nProxy-Protocol: udp\r\nProxy-Channel: quic-datagrams\r\n\r\n").as_bytes()).await.map_err(|e| format!("write: {e}"))?;
        let head = read_head(&mut r).await.ok_or("no reply to the UDP CONNECT")?;
        if !head.starts_with("HTTP/1.1 200") {
            return Err(format!("refused: {}", head.lines().next().unwrap_or("")));
        }
        let sid: u32 = head.lines().find_map(|l| l.to_ascii_lowercase().strip_prefix("session-id:").map(|v| v.trim().parse().unwrap_or(0))).unwrap_or(0);
        let mtu = conn.max_datagram_size().ok_or("the proxy takes no datagrams")?;
        let mk = |body: Vec<u8>| {
            let mut f = Frame::new();
            f.addr = Some(target.clone());
            f.session_id = sid;
            f.body = Bytes::from(body);
            f
        };
        // frame A: two fragments, id 7; only the first one is sent
        let mut id = 7u16;
        let fa: Vec<Bytes> = Fragments::<Frame>::make_fragments(mtu, &mut id, mk(vec![b'A'; 1500])).collect();
        if fa.len() != 2 {
            return Err(format!("frame A has {} fragments at mtu {mtu}", fa.len()));
        }
        conn.send_datagram(fa[0].clone()).map_err(|e| format!("send_datagram: {e}"))?;
        // keep the connection busy: a small frame every 250 ms, ids far away from 7
        let mut small = 0usize;
        let t0 = std::time::Instant::now();
        let mut sid_ = 1000u16;
        while t0.elapsed().as_secs_f64() < busy_s {
            for f in Fragments::<Frame>::make_fragments(mtu, &mut sid_, mk(format!("small-{small}").into_bytes())) {
                conn.send_datagram(f).map_err(|e| format!("send_datagram: {e}"))?;
            }
            small += 1;
            tokio::time::sleep(Duration::from_millis(250)).await;
        }
        // frame B reuses id 7
        let mut id = 7u16;
        let fb: Vec<Bytes> = Fragments::<Frame>::make_fragments(mtu, &mut id, mk(vec![b'B'; 1500])).collect();
        for f in &fb {
            conn.send_datagram(f.clone()).map_err(|e| format!("send_datagram: {e}"))?;
        }
        tokio::time::sleep(Duration::from_millis(800)).await;
        conn.close(0u32.into(), b"done");
        ep.wait_idle().await;
        Ok((small, fb.len()))
    });
    rt.shutdown_timeout(Duration::from_secs(1));
    let (small, _) = match res {
        Ok(x) => x,
        Err(e) => machinery(format!("busy connection scenario: {e}: {}", px.log())),
    };
    if let Some(d) = px.exited() {
        chk.violation("fragment.on-the-wire", "process-dies", format!("the proxy ended during the busy-connection scenario ({d}): {}", px.log()), json!({}));
    }
    let got = got.lock().unwrap().clone();
    let smalls = got.iter().filter(|p| p.starts_with(b"small-")).count();
    let b_ok = got.iter().filter(|p| p.len() == 1500 && p.iter().all(|c| *c == b'B')).count();
    let a_whole = got.iter().filter(|p| p.len() == 1500 && p.iter().all(|c| *c == b'A')).count();
    let strange: Vec<String> = got
        .iter()
        .filter(|p| !p.starts_with(b"small-") && !(p.len() == 1500 && p.iter().all(|c| *c == b'B')))
        .map(|p| format!("{} bytes, {} of them 'A', {} of them 'B'", p.len(), p.iter().filter(|c| **c == b'A').count(), p.iter().filter(|c| **c == b'B').count()))
        .collect();
    if smalls * 10 < small * 8 {
        machinery(format!("busy connection scenario: only {smalls} of {small} small frames reached the origin"));
    }
    if b_ok != 1 || !strange.is_empty() || a_whole != 0 {
        chk.violation(
            "fragment.on-the-wire",
            "stale-fragment-survives-a-busy-connection",
            format!("one fragment of a 2-fragment frame (id 7) was sent, its sibling never; the connection then carried a small frame every 250 ms for {busy_s} s (reassembly timeout 5 s); a later frame reusing id 7 came out {b_ok} times intact; other payloads at the origin: {:?}", strange),
            json!({"small_frames": small, "frames_b_intact": b_ok, "other_payloads": strange}),
        );
    }
    json!({"busy_connection": {"seconds": busy_s, "small_frames_sent": small, "small_frames_delivered": smalls, "frame_reusing_the_id_delivered_intact": b_ok, "other_payloads": strange}})
}

/// The proxy as SENDER of fragments: a real quinn client sends datagrams of every body size around the connection's
/// datagram limit (and a few large ones) to an echo origin behind the real binary; every reply (one byte longer) is
/// fragmented by the proxy's writer for this client, reassembled here with the real `Fragments`, and must come back
/// exactly once and intact - at every size, on both sides of the boundary between one fragment and two.
pub fn writer_size_sweep(chk: &Check) -> serde_json::Value {
    let origin = UdpSocket::bind("127.0.0.1:0").unwrap();
    let oport = origin.local_addr().unwrap().port();
    std::thread::spawn(move || {
        let mut b = vec![0u8; 70000];
        while let Ok((n, from)) = origin.recv_from(&mut b) {
            let mut r = b"R".to_vec();
            r.extend(&b[..n]);
            let _ = origin.send_to(&r, from);
        }
    });
    let (qp, hp) = (free_udp(), free_tcp());
    let mut px = Px::start(
        "c11w",
        &format!("  - name: quic\n    type: quic\n    bind: 127.0.0.1:{qp}\n    tls:\n      cert: {CERTS}/server.crt\n      key: {CERTS}/server.key\n  - name: http\n    bind: 127.0.0.1:{hp}\n"),
        "  - name: c\n    type: direct\n",
        hp,
    );
    let tlsc: TlsClientConfig = serde_yaml::from_str("insecure: true").unwrap();
    let ccfg = create_quic_client(&tlsc, false).unwrap_or_else(|e| machinery(format!("quic client config: {e}")));
    let rt = tokio::runtime::Builder::new_multi_thread().worker_threads(2).enable_all().build().unwrap();
    let target = TargetAddress::SocketAddr(SocketAddr::from(([127, 0, 0, 1], oport)));
    let thorough = chk.thorough();
    let res: Result<(usize, Vec<(usize, String)>, usize), String> = rt.block_on(async {
        let mut ep = quinn::Endpoint::client("127.0.0.1:0".parse().unwrap()).map_err(|e| format!("endpoint: {e}"))?;
        ep.set_default_client_config(ccfg);
        let conn = tokio::time::timeout(Duration::from_secs(5), ep.connect(SocketAddr::from(([127, 0, 0, 1], qp)), "localhost").map_err(|e| format!("connect: {e}"))?)
            .await
            .map_err(|_| "handshake timed out".to_string())?
            .map_err(|e| format!("handshake: {e}"))?;
        let mut bad: Vec<(usize, String)> = vec![];
        let mtu = conn.max_datagram_size().ok_or("the proxy takes no datagrams")?;
        let mut sizes: Vec<usize> = ((mtu.saturating_sub(if thorough { 200 } else { 70 }))..(mtu + if thorough { 200 } else { 70 })).collect();
        sizes.extend([1, 2 * mtu - 30, 2 * mtu - 20, 2 * mtu - 10, 2 * mtu, 3 * mtu - 25, 9000, 30000, 65000]);
        let mut done = 0usize;
        // a session (stream) may die on a write error: each size gets a working session, re-opened when needed
        let mut session: Option<(quinn::SendStream, quinn::RecvStream, u32)> = None;
        let mut reasm: Fragments<Frame> = Fragments::new(Duration::from_secs(5));
        let mut id = 100u16;
        for size in sizes.iter().copied() {
            if session.is_none() {
                let (mut w, mut r) = conn.open_bi().await.map_err(|e| format!("open_bi: {e}"))?;
                w.write_all(format!("CONNECT 127.0.0.1:{oport} HTTP/1.1\r\nHost: x\r\nProxy-Protocol: udp\r\nProxy-Channel: quic-datagrams\r\n\r\n").as_bytes()).await.map_err(|e| format!("write: {e}"))?;
                let head = read_head(&mut r).await.ok_or("no reply to the UDP CONNECT")?;
                if !head.starts_with("HTTP/1.1 200") {
                    return Err(format!("refused: {}", head.lines().next().unwrap_or("")));
                }
                let sid: u32 = head.lines().find_map(|l| l.to_ascii_lowercase().strip_prefix("session-id:").map(|v| v.trim().parse().unwrap_or(0))).unwrap_or(0);
                session = Some((w, r, sid));
            }
            let sid = session.as_ref().unwrap().2;
            let body: Vec<u8> = (0..size).map(|k| ((k * 7 + size) % 251) as u8).collect();
            let mut f = Frame::new();
            f.addr = Some(target.clone());
            f.session_id = sid;
            f.body = Bytes::from(body.clone());
            for d in Fragments::<Frame>::make_fragments(mtu, &mut id, f) {
                conn.send_datagram(d).map_err(|e| format!("send_datagram: {e}"))?;
            }
            let mut want = b"R".to_vec();
            want.extend(&body);
            let mut got: Vec<Vec<u8>> = vec![];
            let deadline = tokio::time::Instant::now() + Duration::from_millis(1200);
            loop {
                match tokio::time::timeout_at(deadline, conn.read_datagram()).await {
                    Ok(Ok(d)) => {
                        if let Some(fr) = reasm.reassemble(d) {
                            got.push(fr.body.to_vec());
                            if got.last() == Some(&want) {
                                // a little longer: a second copy would be a violation too
                                if let Ok(Ok(d2)) = tokio::time::timeout(Duration::from_millis(30), conn.read_datagram()).await {
                                    if let Some(fr2) = reasm.reassemble(d2) {
                                        got.push(fr2.body.to_vec());
                                    }
                                }
                                break;
                            }
                        }
                    }
                    Ok(Err(e)) => return Err(format!("connection ended at size {size}: {e}")),
                    Err(_) => break,
                }
            }
            done += 1;
            if got != vec![want.clone()] {
                bad.push((size, format!("{} frames came back ({:?} bytes)", got.len(), got.iter().map(|g| g.len()).collect::<Vec<_>>())));
                // the session may be dead now: use a new one for the next size
                session = None;
            }
        }
        conn.close(0u32.into(), b"done");
        ep.wait_idle().await;
        Ok((mtu, bad, done))
    });
    rt.shutdown_timeout(Duration::from_secs(1));
    let (mtu, bad, done) = match res {
        Ok(x) => x,
        Err(e) => machinery(format!("writer size sweep: {e}: {}", px.log())),
    };
    if let Some(d) = px.exited() {
        chk.violation("fragment.on-the-wire", "process-dies:writer-sweep", format!("the proxy ended during the size sweep ({d}): {}", px.log()), json!({}));
    }
    if !bad.is_empty() {
        chk.violation(
            "fragment.on-the-wire",
            "reply-of-some-size-not-delivered-exactly-once",
            format!("datagram limit of the connection {mtu}: the replies to {} of {done} body sizes did not come back exactly once and intact through the proxy's fragment writer: sizes {:?}{}: {}", bad.len(), bad.iter().map(|b| b.0).take(12).collect::<Vec<_>>(), if bad.len() > 12 { " ..." } else { "" }, bad[0].1),
            json!({"datagram_limit": mtu, "sizes": bad.iter().map(|b| b.0).collect::<Vec<_>>()}),
        );
    }
    json!({"writer_size_sweep": {"datagram_limit": mtu, "sizes": done, "bad": bad.len()}})
}
