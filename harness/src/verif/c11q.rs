//! C11 on the wire: the reassembly table of a QUIC connection is cleaned by the task that receives the connection's
//! datagrams (`quic_frames_thread`), whatever else that task is doing. A real quinn client against the REAL binary:
//! one fragment of a two-fragment frame is sent and its sibling withheld, the connection is then kept busy with small
//! frames for longer than the reassembly timeout (no silent second), and a later frame that reuses the id must come
//! out exactly as it was sent - the stale fragment is gone by then.
use super::c05q::{free_tcp, free_udp, read_head, Px, CERTS};
use super::common::*;
use crate::common::fragment::Fragments;
use crate::common::frames::Frame;
use crate::common::quic::create_quic_client;
use crate::common::tls::TlsClientConfig;
use crate::context::TargetAddress;
use bytes::Bytes;
use serde_json::json;
use std::net::{SocketAddr, UdpSocket};
use std::sync::{Arc, Mutex};
use std::time::Duration;

pub fn busy_connection_expiry(chk: &Check) -> serde_json::Value {
    let got: Arc<Mutex<Vec<Vec<u8>>>> = Default::default();
    let origin = UdpSocket::bind("127.0.0.1:0").unwrap();
    let oport = origin.local_addr().unwrap().port();
    {
        let got = got.clone();
        std::thread::spawn(move || {
            let mut b = vec![0u8; 70000];
            while let Ok((n, _)) = origin.recv_from(&mut b) {
                got.lock().unwrap().push(b[..n].to_vec());
            }
        });
    }
    let (qp, hp) = (free_udp(), free_tcp());
    let mut px = Px::start(
        "c11",
        &format!("  - name: quic\n    type: quic\n    bind: 127.0.0.1:{qp}\n    tls:\n      cert: {CERTS}/server.crt\n      key: {CERTS}/server.key\n  - name: http\n    bind: 127.0.0.1:{hp}\n"),
        "  - name: c\n    type: direct\n",
        hp,
    );
    let tlsc: TlsClientConfig = serde_yaml::from_str("insecure: true").unwrap();
    let ccfg = create_quic_client(&tlsc, false).unwrap_or_else(|e| machinery(format!("quic client config: {e}")));
    let rt = tokio::runtime::Builder::new_multi_thread().worker_threads(2).enable_all().build().unwrap();
    let target = TargetAddress::SocketAddr(SocketAddr::from(([127, 0, 0, 1], oport)));
    let busy_s = 7.5f64;
    let res: Result<(usize, usize), String> = rt.block_on(async {
        let mut ep = quinn::Endpoint::client("127.0.0.1:0".parse().unwrap()).map_err(|e| format!("endpoint: {e}"))?;
        ep.set_default_client_config(ccfg);
        let conn = tokio::time::timeout(Duration::from_secs(5), ep.connect(SocketAddr::from(([127, 0, 0, 1], qp)), "localhost").map_err(|e| format!("connect: {e}"))?)
            .await
            .map_err(|_| "handshake timed out".to_string())?
            .map_err(|e| format!("handshake: {e}"))?;
        let (mut w, mut r) = conn.open_bi().await.map_err(|e| format!("open_bi: {e}"))?;
        w.write_all(format!("CONNECT 127.0.0.1:{oport} HTTP/1.1\r\nHost: x\r\nProxy-Protocol: udp\r\nProxy-Channel: quic-datagrams\r\n\r\n").as_bytes()).await.map_err(|e| format!("write: {e}"))?;
        let head = read_head(&mut r).await.ok_or("no reply to the UDP CONNECT")?;
        if !head.starts_with("HTTP/1.1 200") {
            return Err(format!("refused: {}", head.lines().next().unwrap_or("")));
        }
        let sid: u32 = head.lines().find_map(|l| l.to_ascii_lowercase().strip_prefix("session-id:").map(|v| v.trim().parse().unwrap_or(0))).unwrap_or(0);
        let mtu = conn.max_datagram_size().ok_or("the proxy takes no datagrams")?;
        let mk = |body: Vec<u8>| {
            let mut f = Frame::new();
            f.addr = Some(target.clone());
            f.session_id = sid;
            f.body = Bytes::from(body);
            f
        };
        // frame A: two fragments, id 7; only the first one is sent
        let mut id = 7u16;
        let fa: Vec<Bytes> = Fragments::<Frame>::make_fragments(mtu, &mut id, mk(vec![b'A'; 1500])).collect();
        if fa.len() != 2 {
            return Err(format!("frame A has {} fragments at mtu {mtu}", fa.len()));
        }
        conn.send_datagram(fa[0].clone()).map_err(|e| format!("send_datagram: {e}"))?;
        // keep the connection busy: a small frame every 250 ms, ids far away from 7
        let mut small = 0usize;
        let t0 = std::time::Instant::now();
        let mut sid_ = 1000u16;
        while t0.elapsed().as_secs_f64() < busy_s {
            for f in Fragments::<Frame>::make_fragments(mtu, &mut sid_, mk(format!("small-{small}").into_bytes())) {
                conn.send_datagram(f).map_err(|e| format!("send_datagram: {e}"))?;
            }
            small += 1;
            tokio::time::sleep(Duration::from_millis(250)).await;
        }
        // frame B reuses id 7
        let mut id = 7u16;
        let fb: Vec<Bytes> = Fragments::<Frame>::make_fragments(mtu, &mut id, mk(vec![b'B'; 1500])).collect();
        for f in &fb {
            conn.send_datagram(f.clone()).map_err(|e| format!("send_datagram: {e}"))?;
        }
        tokio::time::sleep(Duration::from_millis(800)).await;
        conn.close(0u32.into(), b"done");
        ep.wait_idle().await;
        Ok((small, fb.len()))
    });
    rt.shutdown_timeout(Duration::from_secs(1));
    let (small, _) = match res {
        Ok(x) => x,
        Err(e) => machinery(format!("busy connection scenario: {e}: {}", px.log())),
    };
    if let Some(d) = px.exited() {
        chk.violation("fragment.on-the-wire", "process-dies", format!("the proxy ended during the busy-connection scenario ({d}): {}", px.log()), json!({}));
    }
    let got = got.lock().unwrap().clone();
    let smalls = got.iter().filter(|p| p.starts_with(b"small-")).count();
    let b_ok = got.iter().filter(|p| p.len() == 1500 && p.iter().all(|c| *c == b'B')).count();
    let a_whole = got.iter().filter(|p| p.len() == 1500 && p.iter().all(|c| *c == b'A')).count();
    let strange: Vec<String> = got
        .iter()
        .filter(|p| !p.starts_with(b"small-") && !(p.len() == 1500 && p.iter().all(|c| *c == b'B')))
        .map(|p| format!("{} bytes, {} of them 'A', {} of them 'B'", p.len(), p.iter().filter(|c| **c == b'A').count(), p.iter().filter(|c| **c == b'B').count()))
        .collect();
    if smalls * 10 < small * 8 {
        machinery(format!("busy connection scenario: only {smalls} of {small} small frames reached the origin"));
    }
    if b_ok != 1 || !strange.is_empty() || a_whole != 0 {
        chk.violation(
            "fragment.on-the-wire",
            "stale-fragment-survives-a-busy-connection",
            format!("one fragment of a 2-fragment frame (id 7) was sent, its sibling never; the connection then carried a small frame every 250 ms for {busy_s} s (reassembly timeout 5 s); a later frame reusing id 7 came out {b_ok} times intact; other payloads at the origin: {:?}", strange),
            json!({"small_frames": small, "frames_b_intact": b_ok, "other_payloads": strange}),
        );
    }
    json!({"busy_connection": {"seconds": busy_s, "small_frames_sent": small, "small_frames_delivered": smalls, "frame_reusing_the_id_delivered_intact": b_ok, "other_payloads": strange}})
}
