//! C08 — rule-language type soundness: what the checker accepts never fails at request time.
//! Engine E2: bounded-exhaustive enumeration of expression trees (built with the real constructors, so the
//! parser is not involved), each type-checked and evaluated by the real checker/evaluator under several request
//! environments, and compared with a small reference typing + checked-i64 reference interpreter.
use super::common::*;
use crate::context::{ContextProps, Feature, TargetAddress};
use crate::rules::script_ext::create_context;
use milu::script::stdlib::*;
use milu::script::{Call, Evaluatable, ScriptContextRef, Type, Value};
use serde_json::json;
use std::sync::atomic::{AtomicU64, Ordering};
use std::sync::Arc;

#[derive(Clone, Debug, PartialEq, Eq, Hash)]
pub enum X {
    Int(i64),
    Bool(bool),
    Str(String),
    Arr(Vec<X>),
    Tup(Vec<X>),
    Var(String),
    Req(&'static str),
    Un(&'static str, Box<X>),
    Bin(&'static str, Box<X>, Box<X>),
    If(Box<X>, Box<X>, Box<X>),
    Let(Vec<(String, X)>, Box<X>),
    Index(Box<X>, Box<X>),
    TupAt(Box<X>, i64),
    /// `.name` on any expression (native objects)
    Member(Box<X>, &'static str),
    Call(&'static str, Vec<X>),
    Tmpl(Vec<X>),
}

pub const BIN_OPS: [&str; 23] = [
    "*", "/", "%", "+", "-", "<<", ">>", ">>>", ">", ">=", "<", "<=", "==", "!=", "=~", "!~", "_:", "&", "^", "|", "&&", "^^", "||",
];
pub const UN_OPS: [&str; 3] = ["!", "~", "-"];

pub fn show(x: &X) -> String {
    match x {
        X::Int(i) => {
            if *i < 0 {
                format!("({})", i)
            } else {
                i.to_string()
            }
        }
        X::Bool(b) => b.to_string(),
        X::Str(s) => format!("{:?}", s),
        X::Arr(a) => format!("[{}]", a.iter().map(show).collect::<Vec<_>>().join(",")),
        X::Tup(a) => format!("({},)", a.iter().map(show).collect::<Vec<_>>().join(",")),
        X::Var(v) => v.clone(),
        X::Req(p) => p.to_string(),
        X::Un(o, a) => format!("{}({})", o, show(a)),
        X::Bin(o, a, b) => format!("({} {} {})", show(a), o, show(b)),
        X::If(c, y, n) => format!("(if {} then {} else {})", show(c), show(y), show(n)),
        X::Let(bs, b) => format!(
            "(let {} in {})",
            bs.iter().map(|(n, v)| format!("{}={}", n, show(v))).collect::<Vec<_>>().join(";"),
            show(b)
        ),
        X::Index(a, i) => format!("{}[{}]", show(a), show(i)),
        X::TupAt(a, i) => format!("{}.{}", show(a), i),
        X::Member(a, n) => format!("{}.{}", show(a), n),
        X::Call(f, args) => format!("{}({})", f, args.iter().map(show).collect::<Vec<_>>().join(",")),
        X::Tmpl(parts) => format!("`{}`", parts.iter().map(|p| format!("${{{}}}", show(p))).collect::<Vec<_>>().join("")),
    }
}

pub fn to_value(x: &X) -> Value {
    fn id(s: &str) -> Value {
        Value::Identifier(s.to_string())
    }
    match x {
        X::Int(i) => Value::Integer(*i),
        X::Bool(b) => Value::Boolean(*b),
        X::Str(s) => Value::String(s.clone()),
        X::Arr(a) => Value::Array(Arc::new(a.iter().map(to_value).collect())),
        X::Tup(a) => Value::Tuple(Arc::new(a.iter().map(to_value).collect())),
        X::Var(v) => id(v),
        X::Req(path) => {
            let mut parts = path.split('.');
            let mut v = id(parts.next().unwrap());
            for p in parts {
                v = Access::make_call(v, id(p)).into();
            }
            v
        }
        X::Un(o, a) => {
            let a = to_value(a);
            match *o {
                "!" => Not::make_call(a).into(),
                "~" => BitNot::make_call(a).into(),
                "-" => Negative::make_call(a).into(),
                _ => unreachable!(),
            }
        }
        X::Bin(o, a, b) => {
            let (a, b) = (to_value(a), to_value(b));
            match *o {
                "*" => Multiply::make_call(a, b).into(),
                "/" => Divide::make_call(a, b).into(),
                "%" => Mod::make_call(a, b).into(),
                "+" => Plus::make_call(a, b).into(),
                "-" => Minus::make_call(a, b).into(),
                "<<" => ShiftLeft::make_call(a, b).into(),
                ">>" => ShiftRight::make_call(a, b).into(),
                ">>>" => ShiftRightUnsigned::make_call(a, b).into(),
                ">" => Greater::make_call(a, b).into(),
                ">=" => GreaterOrEqual::make_call(a, b).into(),
                "<" => Lesser::make_call(a, b).into(),
                "<=" => LesserOrEqual::make_call(a, b).into(),
                "==" => Equal::make_call(a, b).into(),
                "!=" => NotEqual::make_call(a, b).into(),
                "=~" => Like::make_call(a, b).into(),
                "!~" => NotLike::make_call(a, b).into(),
                "_:" => IsMemberOf::make_call(a, b).into(),
                "&" => BitAnd::make_call(a, b).into(),
                "^" => BitXor::make_call(a, b).into(),
                "|" => BitOr::make_call(a, b).into(),
                "&&" => And::make_call(a, b).into(),
                "^^" => Xor::make_call(a, b).into(),
                "||" => Or::make_call(a, b).into(),
                _ => unreachable!(),
            }
        }
        X::If(c, y, n) => If::make_call(to_value(c), to_value(y), to_value(n)).into(),
        X::Let(bs, body) => {
            let vars: Vec<Value> = bs
                .iter()
                .map(|(n, v)| Value::Tuple(Arc::new(vec![id(n), to_value(v)])))
                .collect();
            Scope::make_call(vars.into(), to_value(body)).into()
        }
        X::Index(a, i) => Index::make_call(to_value(a), to_value(i)).into(),
        X::TupAt(a, i) => Access::make_call(to_value(a), Value::Integer(*i)).into(),
        X::Member(a, n) => Access::make_call(to_value(a), Value::Identifier(n.to_string())).into(),
        X::Call(f, args) => {
            let mut v = vec![id(f)];
            v.extend(args.iter().map(to_value));
            Call::new(v).into()
        }
        X::Tmpl(parts) => StringConcat::make_call(Value::Array(Arc::new(parts.iter().map(to_value).collect()))).into(),
    }
}

// ---------------------------------------------------------------- reference typing + interpreter

#[derive(Clone, Debug, PartialEq, Eq, Hash)]
pub enum T {
    Int,
    Bool,
    Str,
    Arr(Box<T>),
    Tup(Vec<T>),
    Any,
    /// native object that also evaluates to a string (request.target / request.source)
    NativeStr,
    /// native object without a value (request)
    Native,
    /// a let-bound identifier: a native wrapper around the bound expression (one coercion step unwraps it)
    Bound(Box<T>),
}

impl T {
    /// the type a value of this type has in a position that coerces native objects ("real type")
    fn real(&self) -> T {
        match self {
            T::NativeStr => T::Str,
            T::Bound(t) => (**t).clone(),
            t => t.clone(),
        }
    }
    fn involves_any(&self) -> bool {
        match self {
            T::Any => true,
            T::Arr(t) => t.involves_any(),
            T::Tup(ts) => ts.iter().any(|t| t.involves_any()),
            _ => false,
        }
    }
}

/// reference typing. Err(()) = ill-typed according to the documented rules. The bool says whether the verdict is
/// "certain" (only scalars / arrays / tuples of scalars involved, no Any, no native object) - only certain verdicts
/// are used for the "ill-typed is rejected at load" oracle.
fn ref_type(x: &X, scope: &Vec<(String, Option<T>)>) -> Result<T, ()> {
    use T::*;
    Ok(match x {
        X::Int(_) => Int,
        X::Bool(_) => Bool,
        X::Str(_) => Str,
        X::Arr(a) => {
            if a.is_empty() {
                Arr(Box::new(Any))
            } else {
                let t0 = ref_type(&a[0], scope)?.real();
                for e in a.iter() {
                    if ref_type(e, scope)?.real() != t0 {
                        return Err(());
                    }
                }
                Arr(Box::new(t0))
            }
        }
        X::Tup(a) => Tup(a.iter().map(|e| ref_type(e, scope)).collect::<Result<Vec<_>, _>>()?),
        X::Var(v) => match scope.iter().rev().find(|(n, _)| n == v) {
            // only one coercion step is applied: a binding to a native object stays an opaque native object
            Some((_, Some(t))) => Bound(Box::new(t.clone())),
            _ => return Err(()),
        },
        X::Req(p) => match *p {
            "request" => Native,
            "request.listener" | "request.connector" | "request.feature" => Str,
            "request.target" | "request.source" => NativeStr,
            "request.target.host" | "request.target.type" | "request.source.host" | "request.source.type" => Str,
            "request.target.port" | "request.source.port" => Int,
            _ => return Err(()),
        },
        X::Un(o, a) => {
            let t = ref_type(a, scope)?.real();
            match (*o, &t) {
                ("!", Bool) => Bool,
                ("~", Int) | ("-", Int) => Int,
                _ => return Err(()),
            }
        }
        X::Bin(o, a, b) => {
            let ta = ref_type(a, scope)?;
            let tb = ref_type(b, scope)?;
            let (ra, rb) = (ta.real(), tb.real());
            match *o {
                "*" | "/" | "%" | "+" | "-" | "<<" | ">>" | ">>>" | "&" | "^" | "|" => {
                    if ra == Int && rb == Int {
                        Int
                    } else {
                        return Err(());
                    }
                }
                ">" | ">=" | "<" | "<=" | "==" | "!=" => {
                    if ra == rb && matches!(ra, Int | Str | Bool) {
                        Bool
                    } else {
                        return Err(());
                    }
                }
                "=~" | "!~" => {
                    if ra == Str && rb == Str {
                        Bool
                    } else {
                        return Err(());
                    }
                }
                "&&" | "||" | "^^" => {
                    if ra == Bool && rb == Bool {
                        Bool
                    } else {
                        return Err(());
                    }
                }
                "_:" => match &tb {
                    Arr(e) if **e == ta || **e == Any => Bool,
                    _ => return Err(()),
                },
                _ => return Err(()),
            }
        }
        X::If(c, y, n) => {
            if ref_type(c, scope)? != Bool {
                return Err(());
            }
            let ty = ref_type(y, scope)?;
            let tn = ref_type(n, scope)?;
            if ty != tn {
                return Err(());
            }
            ty
        }
        X::Let(bs, body) => {
            let mut sc = scope.clone();
            // bindings are evaluated in the outer scope (let does not affect its own assignments)
            let ts: Vec<(String, Option<T>)> = bs.iter().map(|(n, v)| (n.clone(), ref_type(v, scope).ok())).collect();
            sc.extend(ts);
            ref_type(body, &sc)?
        }
        X::Index(a, i) => {
            if ref_type(i, scope)? != Int {
                return Err(());
            }
            match ref_type(a, scope)? {
                Arr(e) => *e,
                _ => return Err(()),
            }
        }
        X::Member(..) => return Err(()),
        X::TupAt(a, i) => match ref_type(a, scope)?.real() {
            Tup(ts) => {
                if *i >= 0 && (*i as usize) < ts.len() {
                    ts[*i as usize].clone()
                } else {
                    return Err(());
                }
            }
            _ => return Err(()),
        },
        X::Call(f, args) => {
            let ts = args.iter().map(|a| ref_type(a, scope).map(|t| t.real())).collect::<Result<Vec<_>, _>>()?;
            match (*f, ts.as_slice()) {
                ("to_string", [_]) => Str,
                ("to_integer", [Str]) => Int,
                ("split", [Str, Str]) => Arr(Box::new(Str)),
                ("strcat", [Arr(e)]) if **e == Str || **e == Any => Str,
                ("cidr_match", [Str, Str]) => Bool,
                _ => return Err(()),
            }
        }
        X::Tmpl(parts) => {
            for p in parts {
                if ref_type(p, scope)?.real() != Str {
                    return Err(());
                }
            }
            Str
        }
    })
}

fn certain(x: &X) -> bool {
    // scalar-only trees: no request.*, no identifiers, no empty arrays
    match x {
        X::Int(_) | X::Bool(_) | X::Str(_) => true,
        X::Arr(a) => !a.is_empty() && a.iter().all(certain),
        X::Tup(a) => a.iter().all(certain),
        X::Var(_) | X::Req(_) | X::Let(..) => false,
        X::Un(_, a) => certain(a),
        X::Bin(_, a, b) => certain(a) && certain(b),
        X::If(c, y, n) => certain(c) && certain(y) && certain(n),
        X::Index(a, i) => certain(a) && certain(i),
        X::TupAt(a, _) => certain(a),
        X::Member(..) => false,
        X::Call(_, args) => args.iter().all(certain),
        X::Tmpl(p) => p.iter().all(certain),
    }
}

#[derive(Clone, Debug, PartialEq, Eq, Hash)]
pub enum V {
    Int(i64),
    Bool(bool),
    Str(String),
    /// arrays / tuples hold unevaluated members (the language is lazy); the reference does not compare them
    Lazy,
    Native(&'static str),
}

#[derive(Clone, Debug, PartialEq, Eq, Hash)]
pub enum D {
    DivZero,
    Index,
    Regex,
    ParseInt,
    Overflow,
    /// the reference does not define this construct's value (only soundness is checked)
    Unspecified,
}

pub struct Env {
    pub name: &'static str,
    pub props: Arc<ContextProps>,
}

fn req_value(p: &str, e: &ContextProps) -> V {
    match p {
        "request" => V::Native("request"),
        "request.listener" => V::Str(e.listener.clone()),
        "request.connector" => V::Str(e.connector.clone().unwrap_or_default()),
        "request.feature" => V::Str(format!("{:?}", e.request_feature)),
        "request.target" => V::Str(e.target.to_string()),
        "request.source" => V::Str(e.source.to_string()),
        "request.target.host" => V::Str(e.target.host()),
        "request.target.type" => V::Str(e.target.r#type().to_string()),
        "request.target.port" => V::Int(e.target.port() as i64),
        "request.source.host" => V::Str(e.source.ip().to_string()),
        "request.source.type" => V::Str(if e.source.is_ipv4() { "ipv4" } else { "ipv6" }.to_string()),
        "request.source.port" => V::Int(e.source.port() as i64),
        _ => V::Lazy,
    }
}

thread_local! {
    /// when set, the reference evaluates every member of a tuple / array the moment the aggregate is evaluated.
    /// The statement does not say whether aggregates are lazy: a dynamic error raised by a member that a lazy
    /// evaluation would never have touched is an acceptable outcome, and so is the lazy value.
    static STRICT: std::cell::Cell<bool> = std::cell::Cell::new(false);
}

fn ref_eval_strict(x: &X, env: &ContextProps) -> Result<V, D> {
    STRICT.with(|s| s.set(true));
    let r = ref_eval(x, env, &vec![]);
    STRICT.with(|s| s.set(false));
    r
}

fn strict_members(items: &[X], env: &ContextProps, scope: &Vec<(String, X, usize)>) -> Result<(), D> {
    if STRICT.with(|s| s.get()) {
        for it in items {
            // (a member the reference cannot evaluate makes the strict outcome unknown)
            ref_eval(it, env, scope)?;
        }
    }
    Ok(())
}

type RScope = Vec<(String, X, usize)>;

/// Finds the tuple / array literal an expression denotes, together with the scope that literal was written in
/// (lexical scoping: members see the bindings that were visible where the aggregate appears in the source).
fn resolve_agg(x: &X, env: &ContextProps, scope: &RScope) -> Result<Option<(Vec<X>, RScope)>, D> {
    Ok(match x {
        X::Tup(items) | X::Arr(items) => Some((items.clone(), scope.clone())),
        X::Var(v) => match scope.iter().rposition(|(n, _, _)| n == v) {
            Some(pos) => {
                let (_, bx, depth) = &scope[pos];
                resolve_agg(bx, env, &scope[..*depth].to_vec())?
            }
            None => None,
        },
        X::Let(bs, body) => {
            let mut sc = scope.clone();
            let depth = scope.len();
            for (n, v) in bs {
                sc.push((n.clone(), v.clone(), depth));
            }
            resolve_agg(body, env, &sc)?
        }
        X::If(c, y, n) => match ref_eval(c, env, scope)? {
            V::Bool(true) => resolve_agg(y, env, scope)?,
            V::Bool(false) => resolve_agg(n, env, scope)?,
            _ => None,
        },
        X::TupAt(a, i) => match resolve_agg(a, env, scope)? {
            Some((items, sc)) if *i >= 0 && (*i as usize) < items.len() => resolve_agg(&items[*i as usize], env, &sc)?,
            _ => None,
        },
        _ => None,
    })
}

/// Reference interpreter (lazy where the language is lazy). Only called on trees the reference typing accepts.
fn ref_eval(x: &X, env: &ContextProps, scope: &Vec<(String, X, usize)>) -> Result<V, D> {
    use V::*;
    Ok(match x {
        X::Int(i) => Int(*i),
        X::Bool(b) => Bool(*b),
        X::Str(s) => Str(s.clone()),
        X::Arr(items) | X::Tup(items) => {
            strict_members(items, env, scope)?;
            Lazy
        }
        X::Var(v) => {
            // lazily evaluate the binding in the scope that was current where the let appeared
            let pos = scope.iter().rposition(|(n, _, _)| n == v).ok_or(D::Unspecified)?;
            let (_, bx, depth) = &scope[pos];
            let outer: Vec<(String, X, usize)> = scope[..*depth].to_vec();
            let mut types: Vec<(String, Option<T>)> = vec![];
            for (n, b, d) in scope.iter() {
                let t = ref_type(b, &types[..*d].to_vec()).ok();
                types.push((n.clone(), t));
            }
            if matches!(types[pos].1, Some(T::NativeStr) | Some(T::Native) | Some(T::Bound(_)) | None) {
                return Ok(Native("bound"));
            }
            ref_eval(bx, env, &outer)?
        }
        X::Req(p) => req_value(p, env),
        X::Un(o, a) => match (*o, ref_eval(a, env, scope)?) {
            ("!", Bool(b)) => Bool(!b),
            ("~", Int(i)) => Int(!i),
            ("-", Int(i)) => Int(i.checked_neg().ok_or(D::Overflow)?),
            _ => return Err(D::Unspecified),
        },
        X::Bin(o, a, b) => {
            match *o {
                "&&" => {
                    let a = ref_eval(a, env, scope)?;
                    if a == Bool(false) {
                        return Ok(Bool(false));
                    }
                    return ref_eval(b, env, scope);
                }
                "||" => {
                    let a = ref_eval(a, env, scope)?;
                    if a == Bool(true) {
                        return Ok(Bool(true));
                    }
                    return ref_eval(b, env, scope);
                }
                "_:" => {
                    let a_v = ref_eval(a, env, scope)?;
                    if matches!(a_v, Lazy | Native(_)) {
                        return Err(D::Unspecified);
                    }
                    if let Some((items, isc)) = resolve_agg(b, env, scope)? {
                        strict_members(&items, env, &isc)?;
                        // members are evaluated one by one until a match is found
                        for it in &items {
                            if ref_eval(it, env, &isc)? == a_v {
                                return Ok(Bool(true));
                            }
                        }
                        return Ok(Bool(false));
                    }
                    return Err(D::Unspecified);
                }
                _ => {}
            }
            let va = ref_eval(a, env, scope)?;
            let vb = ref_eval(b, env, scope)?;
            match (*o, va, vb) {
                ("+", Int(a), Int(b)) => Int(a.checked_add(b).ok_or(D::Overflow)?),
                ("-", Int(a), Int(b)) => Int(a.checked_sub(b).ok_or(D::Overflow)?),
                ("*", Int(a), Int(b)) => Int(a.checked_mul(b).ok_or(D::Overflow)?),
                ("/", Int(_), Int(0)) | ("%", Int(_), Int(0)) => return Err(D::DivZero),
                ("/", Int(a), Int(b)) => Int(a.checked_div(b).ok_or(D::Overflow)?),
                ("%", Int(a), Int(b)) => Int(a.checked_rem(b).ok_or(D::Overflow)?),
                ("&", Int(a), Int(b)) => Int(a & b),
                ("|", Int(a), Int(b)) => Int(a | b),
                ("^", Int(a), Int(b)) => Int(a ^ b),
                ("<<", Int(a), Int(b)) => {
                    if (0..64).contains(&b) {
                        Int(a << b)
                    } else {
                        return Err(D::Overflow);
                    }
                }
                (">>", Int(a), Int(b)) => {
                    if (0..64).contains(&b) {
                        Int(a >> b)
                    } else {
                        return Err(D::Overflow);
                    }
                }
                (">>>", Int(a), Int(b)) => {
                    if (0..64).contains(&b) {
                        Int(((a as u64) >> b) as i64)
                    } else {
                        return Err(D::Overflow);
                    }
                }
                ("^^", Bool(a), Bool(b)) => Bool(a ^ b),
                (op @ (">" | ">=" | "<" | "<=" | "==" | "!="), a, b) => {
                    let ord = match (&a, &b) {
                        (Int(a), Int(b)) => a.cmp(b),
                        (Str(a), Str(b)) => a.cmp(b),
                        (Bool(a), Bool(b)) => a.cmp(b),
                        _ => return Err(D::Unspecified),
                    };
                    use std::cmp::Ordering::*;
                    Bool(match op {
                        ">" => ord == Greater,
                        ">=" => ord != Less,
                        "<" => ord == Less,
                        "<=" => ord != Greater,
                        "==" => ord == Equal,
                        _ => ord != Equal,
                    })
                }
                ("=~", Str(_), Str(re)) | ("!~", Str(_), Str(re)) => {
                    // validity of the pattern is decided (an invalid one is a dynamic error); the match itself is not modelled
                    return Err(if regex::Regex::new(&re).is_err() { D::Regex } else { D::Unspecified });
                }
                _ => return Err(D::Unspecified),
            }
        }
        X::If(c, y, n) => match ref_eval(c, env, scope)? {
            Bool(true) => ref_eval(y, env, scope)?,
            Bool(false) => ref_eval(n, env, scope)?,
            _ => return Err(D::Unspecified),
        },
        X::Let(bs, body) => {
            let mut sc = scope.clone();
            let depth = scope.len();
            for (n, v) in bs {
                sc.push((n.clone(), v.clone(), depth));
            }
            ref_eval(body, env, &sc)?
        }
        X::Index(a, i) => {
            let iv = match ref_eval(i, env, scope)? {
                Int(i) => i,
                _ => return Err(D::Unspecified),
            };
            match resolve_agg(a, env, scope)? {
                Some((items, isc)) => {
                    strict_members(&items, env, &isc)?;
                    let n = items.len() as i64;
                    let idx = if iv >= 0 { iv } else { n.checked_add(iv).ok_or(D::Index)? };
                    if idx < 0 || idx >= n {
                        return Err(D::Index);
                    }
                    ref_eval(&items[idx as usize], env, &isc)?
                }
                None => return Err(D::Unspecified),
            }
        }
        X::Member(..) => return Err(D::Unspecified),
        X::TupAt(a, i) => match resolve_agg(a, env, scope)? {
            Some((items, isc)) if *i >= 0 && (*i as usize) < items.len() => {
                strict_members(&items, env, &isc)?;
                ref_eval(&items[*i as usize], env, &isc)?
            }
            _ => return Err(D::Unspecified),
        },
        X::Call(f, args) => match (*f, args.as_slice()) {
            ("to_string", [a]) => match ref_eval(a, env, scope)? {
                Int(i) => Str(i.to_string()),
                Bool(b) => Str(b.to_string()),
                _ => return Err(D::Unspecified),
            },
            ("to_integer", [a]) => match ref_eval(a, env, scope)? {
                Str(s) => Int(s.parse::<i64>().map_err(|_| D::ParseInt)?),
                _ => return Err(D::Unspecified),
            },
            ("strcat", [X::Arr(items)]) => {
                let mut out = String::new();
                for it in items {
                    match ref_eval(it, env, scope)? {
                        Str(s) => out += &s,
                        _ => return Err(D::Unspecified),
                    }
                }
                Str(out)
            }
            ("split", [_, _]) => {
                // evaluate arguments for their errors, the array value itself is lazy
                ref_eval(&args[0], env, scope)?;
                ref_eval(&args[1], env, scope)?;
                Lazy
            }
            ("cidr_match", [a, b]) => {
                let (a, b) = (ref_eval(a, env, scope)?, ref_eval(b, env, scope)?);
                match (a, b) {
                    (Str(ip), Str(c)) => Bool(super::c02::ref_cidr_match(&ip, &c)),
                    _ => return Err(D::Unspecified),
                }
            }
            _ => return Err(D::Unspecified),
        },
        X::Tmpl(parts) => {
            let mut out = String::new();
            for it in parts {
                match ref_eval(it, env, scope)? {
                    Str(s) => out += &s,
                    _ => return Err(D::Unspecified),
                }
            }
            Str(out)
        }
    })
}

// ---------------------------------------------------------------- running the real checker/evaluator

fn type_name(t: &Type) -> String {
    match t {
        Type::NativeObject(_) => "native".into(),
        Type::Array(e) => format!("[{}]", type_name(e)),
        Type::Tuple(ts) => format!("({})", ts.iter().map(type_name).collect::<Vec<_>>().join(",")),
        t => t.to_string(),
    }
}

fn value_kind(v: &Value) -> &'static str {
    match v {
        Value::Integer(_) => "integer",
        Value::Boolean(_) => "boolean",
        Value::String(_) => "string",
        Value::Array(_) => "array",
        Value::Tuple(_) => "tuple",
        Value::NativeObject(_) => "native",
        Value::Identifier(_) => "identifier",
        Value::OpCall(_) => "opcall",
    }
}

/// does the value have the shape the static type promises? Aggregates are checked member by member (members
/// that are still unevaluated expressions, or native wrappers standing for let-bound names, are not judged).
fn kind_matches(t: &Type, v: &Value) -> bool {
    match (t, v) {
        (Type::Any, _) => true,
        (Type::Integer, Value::Integer(_)) => true,
        (Type::Boolean, Value::Boolean(_)) => true,
        (Type::String, Value::String(_)) => true,
        (Type::Array(et), Value::Array(ms)) => ms.iter().all(|m| member_matches(et, m)),
        (Type::Tuple(ts), Value::Tuple(ms)) => ts.len() == ms.len() && ts.iter().zip(ms.iter()).all(|(t, m)| member_matches(t, m)),
        (Type::NativeObject(_), Value::NativeObject(_)) => true,
        _ => false,
    }
}

fn member_matches(t: &Type, m: &Value) -> bool {
    match m {
        Value::Identifier(_) | Value::OpCall(_) | Value::NativeObject(_) => true,
        _ => matches!(t, Type::NativeObject(_)) || kind_matches(t, m),
    }
}

/// the error texts of the inherently dynamic failures (division by zero, overflow, shift range, index range,
/// invalid regular expression, non-numeric string); anything else at evaluation time is a type error
const DYNAMIC_ERRORS: [&str; 9] = [
    "division by zero",
    "integer overflow",
    "shift amount out of range",
    "failed to compile regex",
    "failed to parse integer",
    "index out of bounds",
    "index out of range",
    "failed to cast index from i64",
    "tuple index out of bounds",
];

fn norm_panic(msg: &str) -> String {
    // strip numbers so that the class is the kind of panic, not the operands
    let mut out = String::new();
    let mut last_digit = false;
    for c in msg.chars() {
        if c.is_ascii_digit() {
            if !last_digit {
                out.push('N');
            }
            last_digit = true;
        } else {
            last_digit = false;
            out.push(c);
        }
    }
    truncate(&out, 80)
}

#[derive(Clone, Debug, PartialEq, Eq, Hash)]
pub enum Outcome {
    Rejected,
    TypePanic(String),
    Accepted { ty: String, results: Vec<String> },
}

pub struct Runner<'a> {
    pub chk: &'a Check,
    pub envs: &'a [Env],
    pub default_ctx: ScriptContextRef,
    pub env_ctx: Vec<ScriptContextRef>,
    pub trees: AtomicU64,
    pub accepted: AtomicU64,
    pub rejected: AtomicU64,
    pub evals: AtomicU64,
    pub ref_compared: AtomicU64,
    pub outcomes: Distinct,
}

fn uses_request(x: &X) -> bool {
    match x {
        X::Req(_) => true,
        X::Int(_) | X::Bool(_) | X::Str(_) | X::Var(_) => false,
        X::Arr(a) | X::Tup(a) | X::Tmpl(a) => a.iter().any(uses_request),
        X::Un(_, a) | X::TupAt(a, _) | X::Member(a, _) => uses_request(a),
        X::Bin(_, a, b) | X::Index(a, b) => uses_request(a) || uses_request(b),
        X::If(c, y, n) => uses_request(c) || uses_request(y) || uses_request(n),
        X::Let(bs, b) => bs.iter().any(|(_, v)| uses_request(v)) || uses_request(b),
        X::Call(_, args) => args.iter().any(uses_request),
    }
}

impl<'a> Runner<'a> {
    pub fn new(chk: &'a Check, envs: &'a [Env]) -> Self {
        Runner {
            chk,
            envs,
            default_ctx: Arc::new(create_context(Default::default())),
            env_ctx: envs.iter().map(|e| Arc::new(create_context(e.props.clone()))).collect(),
            trees: Default::default(),
            accepted: Default::default(),
            rejected: Default::default(),
            evals: Default::default(),
            ref_compared: Default::default(),
            outcomes: Default::default(),
        }
    }

    /// Runs one tree through the real checker and evaluator and applies all oracles. Returns the outcome class.
    pub fn run(&self, x: &X) -> Outcome {
        self.trees.fetch_add(1, Ordering::Relaxed);
        let value = to_value(x);
        let rt = ref_type(x, &vec![]);
        let text = show(x);
        let ty = match catch(|| value.type_of(self.default_ctx.clone()).and_then(|t| value.real_type_of(self.default_ctx.clone()).map(|rt| (t, rt)))) {
            Err(p) => {
                self.chk.violation(
                    "milu.type_of",
                    &format!("panic:{}", norm_panic(&p)),
                    format!("checker panics (process abort at load / rule POST) on {text}: {p}"),
                    json!({"expr": text, "phase": "type_of", "panic": p}),
                );
                let o = Outcome::TypePanic(norm_panic(&p));
                self.outcomes.add(&o);
                return o;
            }
            Ok(Err(_)) => {
                self.rejected.fetch_add(1, Ordering::Relaxed);
                self.outcomes.add(&"rejected");
                return Outcome::Rejected;
            }
            Ok(Ok(t)) => t,
        };
        let (raw_ty, ty) = ty;
        self.accepted.fetch_add(1, Ordering::Relaxed);
        // oracle 2: ill-typed (certain verdict) must be rejected at load
        if rt.is_err() && certain(x) {
            let inner = innermost_illtyped(x);
            self.chk.violation(
                "milu.checker",
                &format!("ill-typed-accepted:{}", top_op(inner)),
                format!("ill-typed expression accepted at load with type {}: {text}", type_name(&ty)),
                json!({"expr": text, "static_type": type_name(&ty)}),
            );
        }
        let n_env = if uses_request(x) { self.envs.len() } else { 1 };
        let mut results = vec![];
        for ei in 0..n_env {
            self.evals.fetch_add(1, Ordering::Relaxed);
            let ctx = self.env_ctx[ei].clone();
            let mut raw_mismatch: Option<Value> = None;
            let res = catch(|| {
                // the un-coerced pair (type_of, value_of) is what rule filters and log formats consume,
                // the coerced pair (real_type_of, real_value_of) is what operators and the load balancer consume
                let raw = value.value_of(ctx.clone())?;
                let real = value.real_value_of(ctx)?;
                Ok::<_, easy_error::Error>((raw, real))
            });
            let res = match res {
                Ok(Ok((raw, real))) => {
                    if !kind_matches(&raw_ty, &raw) {
                        raw_mismatch = Some(raw);
                    }
                    Ok(Ok(real))
                }
                Ok(Err(e)) => Ok(Err(e)),
                Err(p) => Err(p),
            };
            if let Some(raw) = raw_mismatch {
                self.chk.violation(
                    "milu.soundness",
                    &format!("accepted-as-{}-yields-{}", type_name(&raw_ty), value_kind(&raw)),
                    format!("checker says {} but evaluation yields a {} [env {}]: {text} = {}", type_name(&raw_ty), value_kind(&raw), self.envs[ei].name, truncate(&raw.to_string(), 80)),
                    json!({"expr": text, "env": self.envs[ei].name, "static_type": type_name(&raw_ty), "value": raw.to_string()}),
                );
            }
            let rref = if rt.is_ok() { Some(ref_eval(x, &self.envs[ei].props, &vec![])) } else { None };
            let rs = match res {
                Err(p) => {
                    // a panic is only excusable as integer overflow if the reference also overflows; still a crash in the dev profile
                    let class = norm_panic(&p);
                    self.chk.violation(
                        "milu.eval",
                        &format!("panic:{}", class),
                        format!("accepted (type {}) then panics at request time [env {}]: {text}: {p}", type_name(&ty), self.envs[ei].name),
                        json!({"expr": text, "env": self.envs[ei].name, "static_type": type_name(&ty), "panic": p}),
                    );
                    format!("panic:{}", class)
                }
                Ok(Err(e)) => {
                    // whatever the reference thinks: a failure that is not one of the inherently dynamic errors is a
                    // type error raised at request time by an expression the checker accepted
                    let msg = e.to_string();
                    if !DYNAMIC_ERRORS.iter().any(|p| msg.contains(p)) {
                        self.chk.violation(
                            "milu.soundness",
                            &format!("type-error-at-request-time:{}", top_op(x)),
                            format!("accepted (type {}) but evaluation fails with a non-dynamic error [env {}]: {text}: {}", type_name(&ty), self.envs[ei].name, truncate(&msg, 140)),
                            json!({"expr": text, "env": self.envs[ei].name, "static_type": type_name(&ty), "error": msg}),
                        );
                    }
                    let strict_fails = ref_eval_strict(x, &self.envs[ei].props).is_err();
                    if let (Some(Ok(v)), false) = (&rref, strict_fails) {
                        self.chk.violation(
                            "milu.eval",
                            &format!("error-where-value-expected:{}", top_op(x)),
                            format!("accepted (type {}), reference value {:?}, but evaluation fails [env {}]: {text}: {}", type_name(&ty), v, self.envs[ei].name, truncate(&e.to_string(), 120)),
                            json!({"expr": text, "env": self.envs[ei].name, "error": e.to_string(), "reference": format!("{:?}", v)}),
                        );
                    }
                    "err".to_string()
                }
                Ok(Ok(v)) => {
                    if !kind_matches(&ty, &v) {
                        self.chk.violation(
                            "milu.soundness",
                            &format!("accepted-as-{}-yields-{}", type_name(&ty), value_kind(&v)),
                            format!("checker says {} but evaluation yields a {} [env {}]: {text} = {}", type_name(&ty), value_kind(&v), self.envs[ei].name, truncate(&v.to_string(), 80)),
                            json!({"expr": text, "env": self.envs[ei].name, "static_type": type_name(&ty), "value": v.to_string()}),
                        );
                    } else if matches!(ty, Type::Any) && !matches!(v, Value::Boolean(_)) {
                        // a filter is accepted when its type == boolean, and `any` compares equal to every type
                        self.chk.violation(
                            "milu.soundness",
                            &format!("any-typed-accepted-as-filter-yields-{}", value_kind(&v)),
                            format!("static type `any` passes the rule loader's boolean check but yields a {}: {text}", value_kind(&v)),
                            json!({"expr": text, "env": self.envs[ei].name, "value": v.to_string()}),
                        );
                    }
                    match &rref {
                        Some(Ok(rv)) => {
                            self.ref_compared.fetch_add(1, Ordering::Relaxed);
                            let same = match (rv, &v) {
                                (V::Int(a), Value::Integer(b)) => a == b,
                                (V::Bool(a), Value::Boolean(b)) => a == b,
                                (V::Str(a), Value::String(b)) => a == b,
                                (V::Lazy, _) | (V::Native(_), _) => true,
                                _ => false,
                            };
                            if !same {
                                self.chk.violation(
                                    "milu.semantics",
                                    &format!("wrong-value:{}", top_op(x)),
                                    format!("[env {}] {text} = {} but documented semantics give {:?}", self.envs[ei].name, truncate(&v.to_string(), 80), rv),
                                    json!({"expr": text, "env": self.envs[ei].name, "value": v.to_string(), "reference": format!("{:?}", rv)}),
                                );
                            }
                        }
                        Some(Err(D::Overflow)) | Some(Err(D::Unspecified)) | None => {}
                        Some(Err(d)) => {
                            self.chk.violation(
                                "milu.semantics",
                                &format!("value-where-error-expected:{:?}:{}", d, top_op(x)),
                                format!("[env {}] {text} = {} but the reference raises {:?}", self.envs[ei].name, truncate(&v.to_string(), 80), d),
                                json!({"expr": text, "env": self.envs[ei].name, "value": v.to_string(), "reference": format!("{:?}", d)}),
                            );
                        }
                    }
                    format!("ok:{}", value_kind(&v))
                }
            };
            results.push(rs);
        }
        let o = Outcome::Accepted { ty: type_name(&ty), results };
        self.outcomes.add(&o);
        o
    }
}

/// smallest sub-tree that the reference typing rejects while all of its children are well typed
fn innermost_illtyped(x: &X) -> &X {
    let kids: Vec<&X> = match x {
        X::Arr(a) | X::Tup(a) | X::Tmpl(a) => a.iter().collect(),
        X::Un(_, a) | X::TupAt(a, _) | X::Member(a, _) => vec![&**a],
        X::Bin(_, a, b) | X::Index(a, b) => vec![&**a, &**b],
        X::If(c, y, n) => vec![&**c, &**y, &**n],
        X::Call(_, args) => args.iter().collect(),
        _ => vec![],
    };
    for k in kids {
        if ref_type(k, &vec![]).is_err() {
            return innermost_illtyped(k);
        }
    }
    x
}

fn top_op(x: &X) -> String {
    match x {
        X::Un(o, _) => format!("unary{}", o),
        X::Bin(o, _, _) => o.to_string(),
        X::If(..) => "if".into(),
        X::Let(..) => "let".into(),
        X::Index(..) => "index".into(),
        X::TupAt(..) => "tuple-access".into(),
        X::Member(..) => "member".into(),
        X::Call(f, _) => f.to_string(),
        X::Tmpl(_) => "template".into(),
        X::Arr(_) => "array".into(),
        X::Tup(_) => "tuple".into(),
        X::Req(p) => p.to_string(),
        _ => "leaf".into(),
    }
}

pub fn envs() -> Vec<Env> {
    let mk = |name: &'static str, listener: &str, source: &str, target: TargetAddress, feature: Feature| Env {
        name,
        props: Arc::new(ContextProps {
            id: 7,
            listener: listener.to_string(),
            source: source.parse().unwrap(),
            target,
            request_feature: feature,
            ..Default::default()
        }),
    };
    vec![
        mk("dom80", "l1", "127.0.0.1:1234", TargetAddress::DomainPort("a".into(), 80), Feature::TcpForward),
        mk("v4port0", "l2", "10.0.0.1:0", TargetAddress::SocketAddr("1.2.3.4:0".parse().unwrap()), Feature::UdpForward),
        mk("v6port65535", "", "[::1]:65535", TargetAddress::SocketAddr("[2001:db8::1]:65535".parse().unwrap()), Feature::TcpForward),
        mk("emptyhost", "l1", "127.0.0.1:1", TargetAddress::DomainPort("".into(), 1), Feature::TcpForward),
        mk("hugehost", "l1", "255.255.255.255:2", TargetAddress::DomainPort("x".repeat(4000), 443), Feature::UdpBind),
        mk("numeric-host", "1", "127.0.0.1:3", TargetAddress::DomainPort("9223372036854775808".into(), 2), Feature::TcpForward),
    ]
}

pub fn leaves(thorough: bool) -> Vec<X> {
    let s = |v: &str| X::Str(v.to_string());
    let mut l = vec![
        X::Int(0),
        X::Int(1),
        X::Int(-1),
        X::Int(2),
        X::Int(64),
        X::Int(i64::MAX),
        X::Int(i64::MIN),
        X::Bool(true),
        X::Bool(false),
        s(""),
        s("a"),
        s("1"),
        s("("),
        s("9223372036854775808"),
        X::Arr(vec![]),
        X::Arr(vec![X::Int(1), X::Int(2)]),
        X::Arr(vec![s("a"), s("1")]),
        X::Arr(vec![X::Bool(true)]),
        X::Tup(vec![]),
        X::Tup(vec![X::Int(1), s("a")]),
        X::Req("request.listener"),
        X::Req("request.target"),
        X::Req("request.target.host"),
        X::Req("request.target.port"),
        X::Req("request.source"),
        X::Req("request.feature"),
        X::Req("request"),
    ];
    if thorough {
        l.extend(vec![
            X::Int(63),
            X::Int(-64),
            X::Int(3),
            s("-1"),
            s("a,b"),
            s("1.2.3.0/24"),
            X::Arr(vec![X::Arr(vec![])]),
            X::Arr(vec![X::Int(1), s("a")]),
            X::Tup(vec![X::Bool(true)]),
            X::Req("request.source.port"),
            X::Req("request.source.host"),
            X::Req("request.target.type"),
            X::Req("request.connector"),
        ]);
    }
    l
}

const FUNCS1: [&str; 3] = ["to_string", "to_integer", "strcat"];
const FUNCS2: [&str; 2] = ["split", "cidr_match"];

/// all trees with exactly one operator node over the given atoms
pub fn one_level(atoms: &[X], cond_atoms: &[X], mut emit: impl FnMut(X)) {
    let bx = |x: &X| Box::new(x.clone());
    for a in atoms {
        for o in UN_OPS {
            emit(X::Un(o, bx(a)));
        }
        for f in FUNCS1 {
            emit(X::Call(f, vec![a.clone()]));
        }
        for i in [0i64, 1, 2, 5, -1] {
            emit(X::TupAt(bx(a), i));
        }
        emit(X::Tmpl(vec![X::Str("p".into()), a.clone()]));
        emit(X::Arr(vec![a.clone()]));
        emit(X::Let(vec![("x".into(), a.clone())], Box::new(X::Var("x".into()))));
        emit(X::Let(
            vec![("x".into(), a.clone()), ("y".into(), X::Var("x".into()))],
            Box::new(X::Bin("==", Box::new(X::Var("x".into())), Box::new(X::Var("x".into())))),
        ));
        // an unused binding must never be evaluated (lazy let)
        emit(X::Let(vec![("x".into(), a.clone())], Box::new(X::Int(1))));
        for b in atoms {
            for o in BIN_OPS {
                emit(X::Bin(o, bx(a), bx(b)));
            }
            emit(X::Index(bx(a), bx(b)));
            for f in FUNCS2 {
                emit(X::Call(f, vec![a.clone(), b.clone()]));
            }
            emit(X::Arr(vec![a.clone(), b.clone()]));
            for c in cond_atoms {
                emit(X::If(bx(c), bx(a), bx(b)));
            }
        }
    }
}

/// Wide arrays: every array literal of three members over a small atom set (the checker has to compare every member
/// with every other one, whatever the first member is), then indexed once and twice and compared.
pub fn wide_array_family(mut emit: impl FnMut(X)) {
    let s = |t: &str| X::Str(t.to_string());
    let bx = |x: X| Box::new(x);
    let atoms = vec![
        X::Int(0),
        s("a"),
        X::Bool(true),
        X::Arr(vec![]),
        X::Arr(vec![X::Int(1), X::Int(2)]),
        X::Arr(vec![s("a"), s("1")]),
        X::Arr(vec![X::Bool(true)]),
        X::Arr(vec![X::Arr(vec![])]),
        X::Tup(vec![X::Int(1), s("a")]),
        X::Tup(vec![X::Arr(vec![]), X::Int(1)]),
        X::Req("request.target.port"),
        X::Req("request.target.host"),
    ];
    for a in &atoms {
        for b in &atoms {
            for c in &atoms {
                let arr = X::Arr(vec![a.clone(), b.clone(), c.clone()]);
                emit(arr.clone());
                for k in 0..3i64 {
                    let at = X::Index(bx(arr.clone()), bx(X::Int(k)));
                    emit(at.clone());
                    let at0 = X::Index(bx(at.clone()), bx(X::Int(0)));
                    emit(at0.clone());
                    emit(X::Bin(">", bx(at0.clone()), bx(X::Int(100))));
                    emit(X::Bin("=~", bx(at0), bx(s("a"))));
                    emit(X::Bin("+", bx(at.clone()), bx(X::Int(1))));
                    emit(X::TupAt(bx(at), 1));
                }
                emit(X::Index(bx(arr.clone()), bx(X::Bin("%", bx(X::Req("request.target.port")), bx(X::Int(3))))));
                emit(X::Bin("_:", bx(X::Int(1)), bx(arr.clone())));
                emit(X::Call("strcat", vec![arr]));
            }
        }
    }
}

/// Arity family: every library function called with 0..3 arguments of every leaf kind (the checker must reject a
/// wrong argument count, not trip over it).
pub fn arity_family(mut emit: impl FnMut(X)) {
    let s = |t: &str| X::Str(t.to_string());
    let atoms = vec![X::Int(1), s("a"), X::Bool(true), X::Arr(vec![s("a")]), X::Arr(vec![]), X::Tup(vec![]), X::Req("request.target.host")];
    for f in ["to_string", "to_integer", "strcat", "split", "cidr_match"] {
        emit(X::Call(f, vec![]));
        for a in &atoms {
            emit(X::Call(f, vec![a.clone()]));
            for b in &atoms {
                emit(X::Call(f, vec![a.clone(), b.clone()]));
                for c in [X::Int(1), s("a")] {
                    emit(X::Call(f, vec![a.clone(), b.clone(), c.clone()]));
                }
            }
        }
    }
}

/// Scoping family: aggregates (tuples, arrays) whose members mention let-bound names, used after the name has
/// been re-bound, after the aggregate has left the scope it was written in, or through another binding.
pub fn scoping_family(mut emit: impl FnMut(X)) {
    let v = |n: &str| X::Var(n.to_string());
    let bx = |x: X| Box::new(x);
    let s = |t: &str| X::Str(t.to_string());
    let let1 = |n: &str, val: X, body: X| X::Let(vec![(n.to_string(), val)], Box::new(body));
    let lits = [X::Int(1), s("s"), X::Bool(true), X::Int(i64::MAX)];
    let values = |x: &str| -> Vec<X> {
        vec![
            v(x),
            X::Tup(vec![v(x), X::Int(1)]),
            X::Tup(vec![X::Bin("+", bx(v(x)), bx(X::Int(1))), X::Int(2)]),
            X::Arr(vec![v(x)]),
            X::If(bx(X::Bool(true)), bx(X::Tup(vec![v(x), X::Int(1)])), bx(X::Tup(vec![v(x), X::Int(1)]))),
            let1("y", v(x), X::Tup(vec![v("y"), X::Int(1)])),
            let1(x, X::Int(7), X::Tup(vec![v(x), v(x)])),
            X::Tup(vec![X::Tup(vec![v(x), X::Int(1)]), X::Int(2)]),
            X::Tup(vec![X::Tmpl(vec![s("p"), v(x)]), X::Int(1)]),
            X::Tup(vec![X::Bin("/", bx(X::Int(1)), bx(X::Int(0))), v(x)]),
        ]
    };
    let uses = |a: &str, x: &str| -> Vec<X> {
        let at = |i: i64| X::TupAt(bx(v(a)), i);
        vec![
            v(a),
            v(x),
            at(0),
            at(1),
            X::Bin("+", bx(at(0)), bx(X::Int(1))),
            X::Bin("=~", bx(at(0)), bx(s("s"))),
            X::Bin("==", bx(at(0)), bx(v(x))),
            X::Index(bx(v(a)), bx(X::Int(0))),
            X::Bin("_:", bx(v(x)), bx(v(a))),
            X::TupAt(bx(at(0)), 0),
            X::Tmpl(vec![at(0)]),
            X::Call("to_string", vec![at(0)]),
            X::If(bx(X::Bin("==", bx(at(1)), bx(X::Int(1)))), bx(at(0)), bx(at(0))),
            X::TupAt(bx(X::Tup(vec![at(0), v(x)])), 0),
            let1("b", at(0), X::Bin("+", bx(v("b")), bx(X::Int(1)))),
            let1("b", v(a), X::TupAt(bx(v("b")), 0)),
        ]
    };
    for l1 in &lits {
        for val in values("x") {
            for u in uses("a", "x") {
                // aggregate bound, used without re-binding
                emit(let1("x", l1.clone(), let1("a", val.clone(), u.clone())));
                // the aggregate leaves the scope of the name it mentions
                emit(let1("a", let1("x", l1.clone(), val.clone()), u.clone()));
                // sibling bindings do not see each other
                emit(X::Let(vec![("x".into(), l1.clone()), ("a".into(), val.clone())], Box::new(u.clone())));
                for l2 in &lits {
                    // the name is re-bound (to a value of another type, too) before the aggregate is used
                    emit(let1("x", l1.clone(), let1("a", val.clone(), let1("x", l2.clone(), u.clone()))));
                    emit(let1("x", l1.clone(), X::Let(vec![("a".into(), val.clone()), ("x".into(), l2.clone())], Box::new(u.clone()))));
                }
            }
        }
    }
}

/// Conditionals whose two branches have the same shape - the same `let` structure, textually identical bound
/// expressions - over literals of every pair of types, under each consumer of the result: the static type of a
/// conditional must be the type of whichever branch runs.
pub fn branch_family(mut emit: impl FnMut(X)) {
    let v = |n: &str| X::Var(n.to_string());
    let bx = |x: X| Box::new(x);
    let s = |t: &str| X::Str(t.to_string());
    let let1 = |n: &str, val: X, body: X| X::Let(vec![(n.to_string(), val)], Box::new(body));
    let lits = [X::Int(1), s("s"), X::Bool(true), X::Tup(vec![X::Int(1)]), X::Arr(vec![X::Int(1)]), X::Req("request.target"), X::Req("request.source"), X::Req("request.target.host")];
    let shapes = |l: &X| -> Vec<X> {
        vec![
            l.clone(),
            let1("x", l.clone(), v("x")),
            let1("t", X::Tup(vec![l.clone(), X::Int(2)]), let1("x", X::TupAt(bx(v("t")), 0), v("x"))),
            let1("t", l.clone(), let1("a", v("t"), v("a"))),
            let1("t", l.clone(), let1("a", v("t"), let1("b", v("a"), v("b")))),
            let1("t", X::Tup(vec![l.clone()]), X::TupAt(bx(v("t")), 0)),
            let1("x", l.clone(), X::Tup(vec![v("x"), X::Int(1)])),
            let1("x", l.clone(), X::Arr(vec![v("x")])),
            let1("t", X::Arr(vec![l.clone()]), X::Index(bx(v("t")), bx(X::Int(0)))),
            X::If(bx(X::Bool(true)), bx(let1("x", l.clone(), v("x"))), bx(let1("x", l.clone(), v("x")))),
        ]
    };
    let conds = [X::Bool(true), X::Bool(false), X::Bin(">", bx(X::Int(1)), bx(X::Int(2))), X::Bin("==", bx(X::Req("request.target.port")), bx(X::Int(80)))];
    let consumers: Vec<Box<dyn Fn(X) -> X>> = vec![
        Box::new(|e| e),
        Box::new(|e| X::Bin("+", Box::new(e), Box::new(X::Int(1)))),
        Box::new(|e| X::Bin("||", Box::new(e), Box::new(X::Bool(false)))),
        Box::new(|e| X::Bin("=~", Box::new(e), Box::new(X::Str("s".into())))),
        Box::new(|e| X::Bin("==", Box::new(e), Box::new(X::Int(1)))),
        Box::new(|e| X::Bin("_:", Box::new(X::Int(1)), Box::new(e))),
        Box::new(|e| X::Call("to_string", vec![e])),
        Box::new(|e| X::Tmpl(vec![e])),
        Box::new(|e| X::TupAt(Box::new(e), 0)),
        Box::new(|e| X::Index(Box::new(e), Box::new(X::Int(0)))),
        Box::new(|e| X::Un("!", Box::new(e))),
        Box::new(|e| X::Let(vec![("r".to_string(), e)], Box::new(X::Bin("+", Box::new(X::Var("r".into())), Box::new(X::Int(1)))))),
        Box::new(|e| X::Bin("==", Box::new(X::Member(Box::new(e), "host")), Box::new(X::Str("a".into())))),
        Box::new(|e| X::Bin("==", Box::new(X::Member(Box::new(e), "port")), Box::new(X::Int(80)))),
    ];
    for l1 in &lits {
        for l2 in &lits {
            let (s1, s2) = (shapes(l1), shapes(l2));
            // every shape against every shape: a plain value in one branch, a binding in the other, ...
            for a in s1.iter() {
                for b in s2.iter() {
                    for c in &conds {
                        for k in &consumers {
                            emit(k(X::If(bx(c.clone()), bx(a.clone()), bx(b.clone()))));
                        }
                    }
                }
            }
        }
    }
}


// ---------------------------------------------------------------------------------------------------------------
// Deep family: expressions as TEXT, taken the way a rule filter is (parser, checker with the default request, then the
// evaluator), over nesting depths around and far beyond the limits. What is accepted must evaluate to a boolean; what
// is refused must be refused with a message. A stack overflow of the recursive checker or evaluator ends the process:
// every expression is therefore handled in a CHILD process (this test binary again, `deep_child`), on threads with
// the stack sizes of the real binary (8 MiB for loading, 2 MiB for a runtime worker).
pub fn deep_family(thorough: bool) -> Vec<(String, String)> {
    fn nest(k: usize, n: usize) -> String {
        let mut e = "1".to_string();
        for _ in 0..k {
            e = format!("({}){}", e, "+0".repeat(n));
        }
        e
    }
    let mut out: Vec<(String, String)> = vec![];
    // (parentheses, operators per level): the tree is about k*(n+1) levels deep
    let shapes: Vec<(usize, usize)> = if thorough {
        vec![(1, 60), (1, 100), (1, 120), (1, 126), (1, 127), (1, 128), (1, 200), (1, 255), (2, 50), (2, 62), (2, 63), (2, 64), (2, 100), (4, 30), (4, 31), (4, 32), (4, 100), (4, 250), (6, 250), (8, 250), (10, 250), (12, 250), (16, 250), (24, 250), (31, 250)]
    } else {
        vec![(1, 100), (1, 126), (1, 128), (2, 62), (2, 64), (4, 31), (4, 250), (8, 250), (16, 250), (24, 250)]
    };
    for (k, n) in &shapes {
        let e = nest(*k, *n);
        let levels = k * (n + 1);
        out.push((format!("plain chain {k}x{n} (~{levels} levels)"), format!("{e} == 1")));
        out.push((format!("chain {k}x{n} inside an array"), format!("[{e}][0] == 1")));
        out.push((format!("chain {k}x{n} inside a tuple"), format!("({e},).0 == 1")));
        out.push((format!("chain {k}x{n} inside a let binding"), format!("let a = {e} in a == 1")));
        out.push((format!("chain {k}x{n} inside a template"), format!("`${{to_string({e})}}` == \"1\"")));
        out.push((format!("chain {k}x{n} inside a call"), format!("to_string({e}) == \"1\"")));
        out.push((format!("chain {k}x{n} inside an array inside a let"), format!("let a = [{e}, 2] in 1 _: a")));
    }
    // chains of lets: K bindings, each N operators over the previous one - the tree is about N + K levels deep, the
    // evaluation of the last name walks through all of them
    let towers: Vec<(usize, usize)> = if thorough {
        vec![(2, 60), (2, 88), (2, 92), (3, 58), (3, 61), (2, 100), (2, 120), (3, 80), (4, 60), (5, 100), (8, 100), (12, 100), (16, 100), (20, 100), (30, 100), (28, 95), (29, 120), (2, 126), (10, 20), (20, 10), (60, 3), (100, 1), (120, 1)]
    } else {
        vec![(2, 60), (2, 88), (3, 58), (2, 120), (5, 100), (12, 100), (20, 100), (28, 95), (29, 120), (60, 3), (100, 1)]
    };
    for (k, n) in &towers {
        let mut e = "let x0 = 1 in ".to_string();
        for i in 1..=*k {
            e += &format!("let x{} = x{}{} in ", i, i - 1, "+0".repeat(*n));
        }
        out.push((format!("let tower {k} bindings x {n} operators"), format!("{e}x{k} == 1")));
        // the same with all bindings in ONE let is not expressible (a binding does not see its siblings); the
        // names used under a conditional whose other branch is shallow: the checker may see a name first where it
        // is shallow, the evaluator where it is deep
        let mut e = "let x0 = 1 in ".to_string();
        for i in 1..=*k {
            e += &format!("let x{} = if request.target.port == 0 then x{}+0 else (x{}{}) in ", i, i - 1, i - 1, "+0".repeat(*n));
        }
        out.push((format!("let tower {k} x {n}, deep use behind a conditional"), format!("{e}(if request.target.port == 0 then x{k}+0 else x{k}{}) == 1", "+0".repeat(*n))));
        let mut e = "let x0 = 1 in ".to_string();
        for i in 1..=*k {
            e += &format!("let x{} = [x{}{}, 0][0] in ", i, i - 1, "+0".repeat(*n));
        }
        out.push((format!("let tower {k} x {n} through arrays"), format!("{e}x{k} == 1")));
    }
    out
}

#[derive(Debug, Clone, PartialEq)]
enum DeepVerdict {
    RefusedByParser(String),
    RefusedByChecker(String),
    Accepted(Vec<String>),
    Died(String, String),
}

/// the child: handles expressions `from..` of the list file, one line of output per step
#[test]
#[ignore]
fn deep_child() {
    let Ok(file) = std::env::var("VERIF_C08_DEEP") else { return };
    let from: usize = std::env::var("VERIF_C08_DEEP_FROM").ok().and_then(|x| x.parse().ok()).unwrap_or(0);
    let list: Vec<(String, String)> = serde_json::from_str(&std::fs::read_to_string(file).unwrap()).unwrap();
    let envs = envs();
    use std::io::Write;
    let say = |s: String| {
        let mut o = std::io::stdout().lock();
        writeln!(o, "{}", s).unwrap();
        o.flush().unwrap();
    };
    for (i, (_, text)) in list.iter().enumerate().skip(from) {
        say(format!("DEEP {i} load"));
        let t = text.clone();
        // loading happens on the main thread of the real binary: 8 MiB
        let loaded = std::thread::Builder::new()
            .stack_size(8 << 20)
            .spawn(move || -> Result<Value, (u8, String)> {
                let root = milu::parser::parse(&t).map_err(|e| (0u8, format!("{e}")))?;
                let ctx = create_context(Default::default());
                let ty = root.type_of(ctx.into()).map_err(|e| (1u8, format!("{e}")))?;
                if ty != Type::Boolean {
                    return Err((1u8, format!("filter return type mismatch: {ty}")));
                }
                Ok(root)
            })
            .unwrap()
            .join()
            .unwrap();
        let root = match loaded {
            Err((0, m)) => {
                say(format!("DEEP {i} refused-parser {}", m.replace('\n', " ").chars().take(120).collect::<String>()));
                continue;
            }
            Err((_, m)) => {
                say(format!("DEEP {i} refused-checker {}", m.replace('\n', " ").chars().take(120).collect::<String>()));
                continue;
            }
            Ok(r) => r,
        };
        say(format!("DEEP {i} eval"));
        let envs2: Vec<Arc<ContextProps>> = envs.iter().take(3).map(|e| e.props.clone()).collect();
        // a request is handled by a runtime worker: 2 MiB
        let outs = std::thread::Builder::new()
            .stack_size(2 << 20)
            .spawn(move || {
                let mut outs = vec![];
                for p in envs2 {
                    let ctx = create_context(p);
                    outs.push(match root.value_of(ctx.into()) {
                        Ok(Value::Boolean(b)) => format!("{b}"),
                        Ok(v) => format!("not-a-boolean:{}", value_kind(&v)),
                        Err(e) => format!("error:{}", format!("{e}").replace('\n', " ").chars().take(100).collect::<String>()),
                    });
                }
                // the tree is dropped here, on the small stack, like a replaced rule list is
                drop(root);
                outs
            })
            .unwrap()
            .join()
            .unwrap();
        say(format!("DEEP {i} accepted {}", outs.join("|")));
    }
    say("DEEP done".to_string());
}

fn run_deep_family(chk: &Check, list: &[(String, String)]) -> Vec<DeepVerdict> {
    let file = format!("/verif/target/c08-deep-{}.json", std::process::id());
    std::fs::write(&file, serde_json::to_string(list).unwrap()).unwrap();
    let exe = std::env::current_exe().unwrap();
    let mut verdicts: Vec<Option<DeepVerdict>> = vec![None; list.len()];
    let mut from = 0usize;
    let mut launches = 0;
    while from < list.len() {
        launches += 1;
        if launches > list.len() + 2 {
            machinery("deep family: the child makes no progress");
        }
        let out = std::process::Command::new(&exe)
            .args(["--exact", "verif::c08::deep_child", "--ignored", "--nocapture", "--test-threads", "1"])
            .env("VERIF_C08_DEEP", &file)
            .env("VERIF_C08_DEEP_FROM", from.to_string())
            .output()
            .unwrap_or_else(|e| machinery(format!("deep family: can not start the child: {e}")));
        let stdout = String::from_utf8_lossy(&out.stdout).to_string();
        let stderr = String::from_utf8_lossy(&out.stderr).to_string();
        let mut cur: Option<(usize, String)> = None;
        let mut done = false;
        for line in stdout.lines() {
            let Some(rest) = line.strip_prefix("DEEP ") else { continue };
            if rest == "done" {
                done = true;
                continue;
            }
            let mut it = rest.splitn(3, ' ');
            let i: usize = it.next().unwrap().parse().unwrap();
            let what = it.next().unwrap_or("");
            let tail = it.next().unwrap_or("").to_string();
            match what {
                "load" | "eval" => cur = Some((i, what.to_string())),
                "refused-parser" => {
                    verdicts[i] = Some(DeepVerdict::RefusedByParser(tail));
                    cur = None;
                }
                "refused-checker" => {
                    verdicts[i] = Some(DeepVerdict::RefusedByChecker(tail));
                    cur = None;
                }
                "accepted" => {
                    verdicts[i] = Some(DeepVerdict::Accepted(tail.split('|').map(|x| x.to_string()).collect()));
                    cur = None;
                }
                _ => machinery(format!("deep family: unexpected child line {line:?}")),
            }
        }
        if done {
            break;
        }
        match cur {
            Some((i, phase)) => {
                let why = stderr.lines().filter(|l| l.contains("overflow") || l.contains("panicked") || l.contains("SIG")).last().unwrap_or("").chars().take(160).collect::<String>();
                verdicts[i] = Some(DeepVerdict::Died(phase, format!("{:?} {}", out.status, why)));
                from = i + 1;
            }
            None => machinery(format!("deep family: the child ended without a verdict or a step in progress: {:?} {}", out.status, stderr.chars().rev().take(300).collect::<String>().chars().rev().collect::<String>())),
        }
    }
    let _ = std::fs::remove_file(&file);
    let _ = chk;
    verdicts.into_iter().map(|v| v.unwrap_or_else(|| machinery("deep family: an expression without a verdict"))).collect()
}

#[test]
fn check() {
    let chk = Check::new("C08");
    let envs = envs();
    let runner = Runner::new(&chk, &envs);
    let leaves = leaves(chk.thorough());
    let mut samples: Vec<String> = vec![];

    // depth 0
    for l in &leaves {
        runner.run(l);
    }
    // depth 1: exhaustive over leaves
    let mut d1: Vec<X> = vec![];
    one_level(&leaves, &leaves, |x| d1.push(x));
    let d1_outcomes: Vec<std::sync::Mutex<Option<Outcome>>> = d1.iter().map(|_| std::sync::Mutex::new(None)).collect();
    par_for(d1.len(), |i| {
        let o = runner.run(&d1[i]);
        *d1_outcomes[i].lock().unwrap() = Some(o);
    });
    samples.push(show(&d1[17]));
    samples.push(show(&d1[d1.len() / 2]));
    // representatives of depth-1 trees: per (top operator family, static type, outcome vector) keep up to K
    let k = if chk.thorough() { 3 } else { 1 };
    let mut classes: std::collections::BTreeMap<String, Vec<usize>> = Default::default();
    for (i, o) in d1_outcomes.iter().enumerate() {
        let o = o.lock().unwrap().clone().unwrap();
        let key = match &o {
            Outcome::Rejected => continue, // a rejected child makes every parent rejected: nothing to learn
            Outcome::TypePanic(_) => continue, // already reported
            Outcome::Accepted { ty, results } => {
                let mut r = results.clone();
                r.sort();
                r.dedup();
                let fam = if chk.thorough() { top_op(&d1[i]) } else { String::new() };
                format!("{}|{}|{:?}", fam, ty, r)
            }
        };
        let e = classes.entry(key).or_default();
        if e.len() < k {
            e.push(i);
        }
    }
    let mut atoms2: Vec<X> = leaves.clone();
    for v in classes.values() {
        for &i in v {
            atoms2.push(d1[i].clone());
        }
    }
    let cond2: Vec<X> = atoms2
        .iter()
        .filter(|x| matches!(ref_type(x, &vec![]), Ok(T::Bool) | Ok(T::Any)) || matches!(x, X::Bool(_)))
        .cloned()
        .collect();
    // depth 2: one operator node over (leaves + depth-1 representatives), at least one child of depth 1
    let mut d2: Vec<X> = vec![];
    one_level(&atoms2, &cond2, |x| d2.push(x));
    par_for(d2.len(), |i| {
        runner.run(&d2[i]);
    });
    samples.push(show(&d2[d2.len() / 3]));
    samples.push(show(&d2[d2.len() - 5]));

    // depth 3 slice (thorough): one depth-2 representative child, leaves elsewhere
    let mut d3n = 0usize;
    if chk.thorough() {
        let step = (d2.len() / 400).max(1);
        let reps3: Vec<X> = d2.iter().step_by(step).cloned().collect();
        let mut d3: Vec<X> = vec![];
        let small: Vec<X> = leaves.iter().take(14).cloned().collect();
        for r in &reps3 {
            let atoms = [vec![r.clone()], small.clone()].concat();
            one_level(&atoms, &[X::Bool(true), X::Bool(false)], |x| {
                if show(&x).contains(&show(r)) {
                    d3.push(x)
                }
            });
        }
        d3n = d3.len();
        par_for(d3.len(), |i| {
            runner.run(&d3[i]);
        });
        samples.push(show(&d3[d3.len() / 2]));
    }

    // library functions with every argument count
    let mut af: Vec<X> = vec![];
    arity_family(|x| af.push(x));
    par_for(af.len(), |i| {
        runner.run(&af[i]);
    });
    // wide arrays (exhaustive over its grammar)
    let mut wf: Vec<X> = vec![];
    wide_array_family(|x| wf.push(x));
    let acc_w = runner.accepted.load(Ordering::Relaxed);
    par_for(wf.len(), |i| {
        runner.run(&wf[i]);
    });
    let wf_accepted = runner.accepted.load(Ordering::Relaxed) - acc_w;
    if chk.violation_count() == 0 && (wf_accepted < 200) {
        machinery(format!("vacuous wide-array family: {} of {} accepted", wf_accepted, wf.len()));
    }
    // scoping family (exhaustive over its grammar)
    let mut sf: Vec<X> = vec![];
    scoping_family(|x| sf.push(x));
    let acc_before = runner.accepted.load(Ordering::Relaxed);
    par_for(sf.len(), |i| {
        runner.run(&sf[i]);
    });
    let sf_accepted = runner.accepted.load(Ordering::Relaxed) - acc_before;
    if chk.violation_count() == 0 && (sf_accepted < 300) {
        machinery(format!("vacuous scoping family: {} of {} accepted", sf_accepted, sf.len()));
    }
    samples.push(show(&sf[sf.len() / 2 + 7]));

    // branch family (exhaustive over its grammar)
    let mut bf: Vec<X> = vec![];
    branch_family(|x| bf.push(x));
    let acc_before = runner.accepted.load(Ordering::Relaxed);
    par_for(bf.len(), |i| {
        runner.run(&bf[i]);
    });
    let bf_accepted = runner.accepted.load(Ordering::Relaxed) - acc_before;
    if chk.violation_count() == 0 && (bf_accepted < 300) {
        machinery(format!("vacuous branch family: {} of {} accepted", bf_accepted, bf.len()));
    }
    samples.push(show(&bf[bf.len() / 3 + 5]));


    // deep family (text, child processes)
    let df = deep_family(chk.thorough());
    let dv = run_deep_family(&chk, &df);
    let mut df_accepted = 0usize;
    let mut df_refused = 0usize;
    for ((label, text), v) in df.iter().zip(dv.iter()) {
        let kind = label.split(" (").next().unwrap().split(' ').filter(|w| !w.chars().next().unwrap().is_ascii_digit()).collect::<Vec<_>>().join(" ");
        let short: String = if text.len() > 160 { format!("{} ... {} ({} characters)", &text[..80], &text[text.len() - 60..], text.len()) } else { text.clone() };
        match v {
            DeepVerdict::RefusedByParser(m) | DeepVerdict::RefusedByChecker(m) => {
                df_refused += 1;
                if m.trim().is_empty() {
                    chk.violation("evaluator.deep", &format!("refused-without-message:{kind}"), format!("{label}: refused without a message"), json!({"label": label, "expression": text}));
                }
            }
            DeepVerdict::Accepted(outs) => {
                df_accepted += 1;
                runner.outcomes.add(&format!("deep:{kind}:{}", outs.join("|")));
                if let Some(bad) = outs.iter().find(|o| *o != "true" && *o != "false") {
                    chk.violation("evaluator.deep", &format!("accepted-then-fails:{kind}"), format!("{label}: accepted by parser and checker, evaluation gives {bad}: {short}"), json!({"label": label, "expression": text, "outcomes": outs}));
                }
            }
            DeepVerdict::Died(phase, how) => {
                chk.violation("evaluator.deep", &format!("process-dies:{phase}:{kind}"), format!("{label}: the process ends while the expression is {} ({how}): {short}", if phase == "load" { "parsed and checked (8 MiB stack)" } else { "evaluated after it was accepted (2 MiB stack)" }), json!({"label": label, "expression": text, "phase": phase}));
            }
        }
    }
    if chk.violation_count() == 0 && (df_accepted < 10 || df_refused < 10) {
        machinery(format!("vacuous deep family: {} accepted, {} refused of {}", df_accepted, df_refused, df.len()));
    }
    samples.push(df[df.len() / 2].0.clone());
    let deep_table: Vec<String> = df.iter().zip(dv.iter()).map(|((l, _), v)| format!("{l}: {}", match v {
        DeepVerdict::RefusedByParser(m) => format!("refused by the parser ({})", m.chars().take(60).collect::<String>()),
        DeepVerdict::RefusedByChecker(m) => format!("refused by the checker ({})", m.chars().take(60).collect::<String>()),
        DeepVerdict::Accepted(o) => format!("accepted, evaluates to {}", o.join("|")),
        DeepVerdict::Died(p, h) => format!("PROCESS DIED in {p} ({h})"),
    })).collect();

    let trees = runner.trees.load(Ordering::Relaxed);
    let accepted = runner.accepted.load(Ordering::Relaxed);
    let evals = runner.evals.load(Ordering::Relaxed);
    if chk.violation_count() == 0 && (accepted < 1000 || runner.outcomes.len() < 20) {
        machinery(format!("vacuous: accepted={accepted} outcomes={}", runner.outcomes.len()));
    }
    let coverage = json!({
        "exhaustive": true,
        "states": runner.outcomes.len(), "transitions": evals + trees, "traces_validated_against_impl": trees,
        "evaluations": trees, "distinct_nontrivial": accepted,
        "rule": "all trees with one operator node over the leaf set (depth 1, exhaustive); all trees with one operator node over leaves + one representative depth-1 tree per (static type, outcome vector) class (depth 2); thorough adds a depth-3 slice; every library function with 0-3 arguments over 7 atoms; wide arrays: all 3-member array literals over 12 atoms, indexed once / twice / by a request-dependent index and used in comparisons, membership and strcat; scoping family: 4 literals x 10 aggregate shapes mentioning a let-bound name x 16 uses x {plain, aggregate leaves the name's scope, sibling binding, name re-bound to each of 4 literals (nested / same let)}; branch family: conditionals whose branches have the same let structure over 8 x 8 leaves (5 literal types, request.target, request.source, request.target.host) x 10 x 10 shapes x 4 conditions x 14 consumers (incl. member access); deep family (as text, through the real parser, in child processes with the real stack sizes): operator chains of k parentheses x n operators plain and inside array / tuple / let binding / template / call, towers of K lets x N operators (plain, behind conditionals, through arrays) - accepted ones are evaluated, a dead child is a violation. non-trivial = accepted by the real checker (then evaluated under up to 6 request environments). states = distinct (static type, per-environment outcome) vectors",
        "trees": trees, "accepted_by_checker": accepted, "rejected_by_checker": runner.rejected.load(Ordering::Relaxed),
        "evaluations_run": evals, "compared_with_reference_value": runner.ref_compared.load(Ordering::Relaxed),
        "leaves": leaves.len(), "depth1": d1.len(), "depth2_atoms": atoms2.len(), "depth2": d2.len(), "depth3": d3n, "arity_family": af.len(), "wide_arrays": wf.len(), "wide_arrays_accepted": wf_accepted, "scoping_family": sf.len(), "scoping_family_accepted": sf_accepted, "branch_family": bf.len(), "branch_family_accepted": bf_accepted, "deep_family": df.len(), "deep_family_accepted": df_accepted, "deep_family_refused": df_refused, "deep_family_verdicts": deep_table,
        "environments": envs.iter().map(|e| e.name).collect::<Vec<_>>(),
        "samples": samples,
    });
    chk.finish(
        "model_checking",
        coverage,
        vec![
            "harness profile has overflow-checks on like the repository's dev profile (panic=abort there): an arithmetic overflow panic is a process abort in that build".into(),
            "the reference interpreter leaves regex matching, to_string of composite values and array/tuple values unspecified (only soundness is checked there)".into(),
            "depth >= 3 is only sliced; identifiers other than let-bound x,y and request.* are not generated".into(),
        ],
    );
}
