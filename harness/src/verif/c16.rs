//! C16 — every connection is accounted for exactly once with a truthful record.
//! Engine E1: up to 3 connections with every outcome (relayed, denied, connect failed, aborted, handshake failed)
//! through the real registry, the real GC task, the real access log (JSON, scratch file) and the real API handlers,
//! with observers and lock holders placed by the explorer at every position (deviation bound 2, thorough 3).
//! Reference: a list of what the harness did.
use super::common::*;
use super::world::*;
use super::xsched::*;
use crate::common::h11c::h11c_handshake;
use crate::context::{make_buffered_stream, Feature};
use crate::metrics::verif_hooks as api;
use crate::GlobalState;
use serde_json::{json, Value as J};
use std::sync::atomic::{AtomicU64, AtomicUsize, Ordering};
use std::sync::{Arc, Mutex};
use std::future::Future;
use std::time::Duration;

#[derive(Clone, Copy, Debug, PartialEq, Eq, Hash)]
enum Outcome {
    Relayed,
    RelayedEarlyData,
    Denied,
    ConnectFailed,
    AbortedMidTransfer,
    HandshakeGarbage,
    HandshakeEof,
}
const OUTCOMES: [Outcome; 7] = [Outcome::Relayed, Outcome::RelayedEarlyData, Outcome::Denied, Outcome::ConnectFailed, Outcome::AbortedMidTransfer, Outcome::HandshakeGarbage, Outcome::HandshakeEof];

#[derive(Clone, Debug)]
struct Scenario {
    conns: Vec<Outcome>,
    history_size: usize,
    /// a task that takes the `alive` (or `terminated`) registry lock and keeps it until the explorer lets it go:
    /// stands for a thread preempted inside create_context / an API handler holding that lock
    holder: Option<&'static str>,
    live_observer: bool,
}

struct Probe {
    state: Arc<GlobalState>,
    log_path: String,
    /// harness-side record: (id, source, target, connector used, bytes c->s, bytes s->c, outcome)
    made: Arc<Mutex<Vec<(u64, String, String, Option<String>, usize, usize, Outcome)>>>,
    /// ids in the order their last reference was dropped
    ended: Arc<Mutex<Vec<u64>>>,
    live_obs: Arc<Mutex<Vec<(Vec<u64>, Vec<u64>, Vec<u64>)>>>,
    final_history: Arc<Mutex<Option<Vec<J>>>>,
    final_log: Arc<Mutex<Option<Vec<J>>>>,
    final_live: Arc<Mutex<Option<Vec<u64>>>>,
}

static SCRATCH_N: AtomicU64 = AtomicU64::new(0);

fn build(sc: &Scenario, w: &mut World) -> Probe {
    let log: Log = Default::default();
    let ok = Recorder::new("up", &[Feature::TcpForward], Upstream::Ok { origin_sends: b"wxyz".to_vec() }, log.clone());
    let bad = Recorder::new("down", &[Feature::TcpForward], Upstream::Refuse, log.clone());
    // the real access log, JSON format, in a scratch file
    let dir = format!("{}/target/c16-scratch", VERIF_DIR);
    std::fs::create_dir_all(&dir).ok();
    let log_path = format!("{}/access-{}-{}.log", dir, std::process::id(), SCRATCH_N.fetch_add(1, Ordering::Relaxed));
    let _ = std::fs::remove_file(&log_path);
    let mut al: crate::access_log::AccessLog = serde_json::from_value(json!({"path": log_path, "format": "json"})).expect("access log config");
    // init() opens the file (blocking pool) and spawns the writer task on the current runtime
    spin_ready(al.init()).expect("access log init");
    let state = make_state_with(vec![ok, bad], sc.history_size, Some(al));
    run_ready(
        state.set_rules(
            parse_rules(r#"[{"filter":"request.target.host == \"deny.me\"","target":"deny"},{"filter":"request.target.host == \"down.host\"","target":"down"},{"target":"up"}]"#).unwrap(),
        ),
        100,
    )
    .unwrap()
    .unwrap();
    w.background = true;
    state.contexts.clone().gc_thread();
    w.advances = vec![Duration::from_millis(1100)];
    w.max_advances = 4;

    let made: Arc<Mutex<Vec<(u64, String, String, Option<String>, usize, usize, Outcome)>>> = Default::default();
    let ended: Arc<Mutex<Vec<u64>>> = Default::default();
    let remaining = Arc::new(AtomicUsize::new(sc.conns.len()));
    let all_done = Arc::new(tokio::sync::Notify::new());

    for (i, oc) in sc.conns.iter().enumerate() {
        let host = match oc {
            Outcome::Denied => "deny.me",
            Outcome::ConnectFailed => "down.host",
            _ => "ok.host",
        };
        let head = format!("CONNECT {}:{} HTTP/1.1\r\n\r\n", host, 80 + i).into_bytes();
        let script = match oc {
            Outcome::Relayed => EpScript { inbound: vec![Msg::new(&head), Msg::after(b"abc", Guard::TxContains(b"200".to_vec()))], eof: true, eof_guard: Some(Guard::TxContains(b"wxyz".to_vec())), ..Default::default() },
            Outcome::RelayedEarlyData => EpScript { inbound: vec![Msg::new(&[&head[..], b"abcde"].concat())], eof: true, eof_guard: Some(Guard::TxContains(b"wxyz".to_vec())), ..Default::default() },
            Outcome::Denied | Outcome::ConnectFailed => EpScript { inbound: vec![Msg::new(&head)], eof: true, eof_guard: Some(Guard::TxContains(b"503".to_vec())), ..Default::default() },
            Outcome::AbortedMidTransfer => EpScript { inbound: vec![Msg::new(&head), Msg::after(b"ab", Guard::TxContains(b"200".to_vec()))], allow_reset: false, eof: false, ..Default::default() },
            Outcome::HandshakeGarbage => EpScript { inbound: vec![Msg::new(b"\x16\x03\x01 garbage\r\n\r\n")], eof: true, ..Default::default() },
            Outcome::HandshakeEof => EpScript { inbound: vec![Msg::new(b"CONNECT ok.host:80 HT")], eof: true, ..Default::default() },
        };
        let (stream, ep) = w.endpoint(&format!("client{}", i), script);
        let (st, made, ended, remaining, all_done) = (state.clone(), made.clone(), ended.clone(), remaining.clone(), all_done.clone());
        let oc = *oc;
        let source: std::net::SocketAddr = format!("10.0.0.{}:{}", i + 1, 4000 + i).parse().unwrap();
        w.task(&format!("conn{}", i), async move {
            let ctx = st.contexts.create_context("http".into(), source).await;
            let id = ctx.read().await.props().id;
            ctx.write().await.set_client_stream(make_buffered_stream(stream));
            let (tx, mut rx) = tokio::sync::mpsc::channel(4);
            let hs = h11c_handshake(ctx.clone(), tx, |_, _| async { easy_error::bail!("no") }).await;
            let mut connector = None;
            let mut target = "unknown".to_string();
            if hs.is_ok() {
                let c2 = rx.recv().await.unwrap();
                drop(c2);
                if oc == Outcome::AbortedMidTransfer {
                    // the client aborts while the relay is running: deliver the reset once the tunnel carried its 2 bytes
                    let ep2 = ep.clone();
                    let relay = crate::process_request(ctx.clone(), st.clone());
                    tokio::pin!(relay);
                    let mut reset_done = false;
                    futures::future::poll_fn(|cx| {
                        let r = relay.as_mut().poll(cx);
                        if r.is_pending() && !reset_done && ep2.lock().unwrap().rx_consumed >= 2 + 0 && ep2.lock().unwrap().tx.windows(4).any(|w| w == b"wxyz") {
                            reset_done = true;
                            ep2.lock().unwrap().force_reset();
                            cx.waker().wake_by_ref();
                        }
                        r
                    })
                    .await;
                } else {
                    crate::process_request(ctx.clone(), st.clone()).await;
                }
                let p = ctx.read().await.props().clone();
                connector = p.connector.clone();
                target = p.target.to_string();
            }
            let (c2s, s2c) = match oc {
                Outcome::Relayed => (3, 4),
                Outcome::RelayedEarlyData => (5, 4),
                Outcome::AbortedMidTransfer => (2, 4),
                _ => (0, 0),
            };
            made.lock().unwrap().push((id, source.to_string(), target, connector, c2s, s2c, oc));
            ended.lock().unwrap().push(id);
            drop(ctx);
            if remaining.fetch_sub(1, Ordering::SeqCst) == 1 {
                all_done.notify_waiters();
            }
        });
    }
    // lock holder: keeps a registry lock across a scheduling point
    if let Some(which) = sc.holder {
        let (mut gate, _ep) = w.endpoint("holder-gate", EpScript { inbound: vec![Msg::new(b"g")], ..Default::default() });
        let st = state.clone();
        w.task(&format!("holder:{}", which), async move {
            use tokio::io::AsyncReadExt;
            let mut b = [0u8; 1];
            if which == "alive" {
                let g = st.contexts.alive.lock().await;
                let _ = gate.read(&mut b).await;
                drop(g);
            } else {
                let g = st.contexts.terminated.lock().await;
                let _ = gate.read(&mut b).await;
                drop(g);
            }
        });
    }
    let live_obs: Arc<Mutex<Vec<(Vec<u64>, Vec<u64>, Vec<u64>)>>> = Default::default();
    if sc.live_observer {
        let (st, obs, made, ended) = (state.clone(), live_obs.clone(), made.clone(), ended.clone());
        w.task("observer:live", async move {
            let ended_before: Vec<u64> = ended.lock().unwrap().clone();
            let (_, body) = api::live(st.clone()).await;
            let ids: Vec<u64> = serde_json::from_slice::<Vec<J>>(&body).unwrap_or_default().iter().filter_map(|p| p["id"].as_u64()).collect();
            let ended_after: Vec<u64> = ended.lock().unwrap().clone();
            let _ = made;
            obs.lock().unwrap().push((ids, ended_before, ended_after));
        });
    }
    // finisher: after every connection has ended and one GC period has passed, take the final observations
    let final_history: Arc<Mutex<Option<Vec<J>>>> = Default::default();
    let final_log: Arc<Mutex<Option<Vec<J>>>> = Default::default();
    let final_live: Arc<Mutex<Option<Vec<u64>>>> = Default::default();
    {
        let (st, remaining, all_done, fh, fl, flive, lp) = (state.clone(), remaining.clone(), all_done.clone(), final_history.clone(), final_log.clone(), final_live.clone(), log_path.clone());
        let n = sc.conns.len();
        let freeze = w.freeze.clone();
        w.task("finisher", async move {
            while remaining.load(Ordering::SeqCst) > 0 {
                all_done.notified().await;
            }
            // closing phase: its number of steps depends on the log writer's blocking file I/O (real threads)
            freeze.store(true, Ordering::SeqCst);
            // two GC periods: the first tick after the last end, plus one in case a pass was held up
            tokio::time::sleep(Duration::from_millis(2300)).await;
            let (_, body) = api::live(st.clone()).await;
            *flive.lock().unwrap() = Some(serde_json::from_slice::<Vec<J>>(&body).unwrap_or_default().iter().filter_map(|p| p["id"].as_u64()).collect());
            let (_, body) = api::history(st.clone()).await;
            *fh.lock().unwrap() = Some(serde_json::from_slice::<Vec<J>>(&body).unwrap_or_default());
            // rotate = flush; the writer task and its blocking file I/O run on real threads: wait until the file is stable
            let _ = api::logrotate(st.clone()).await;
            let mut lines: Vec<J> = vec![];
            for _ in 0..400 {
                tokio::task::yield_now().await;
                let text = std::fs::read_to_string(&lp).unwrap_or_default();
                lines = text.lines().filter(|l| !l.trim().is_empty()).filter_map(|l| serde_json::from_str(l).ok()).collect();
                if lines.len() >= n {
                    break;
                }
                std::thread::sleep(Duration::from_millis(1));
            }
            *fl.lock().unwrap() = Some(lines);
        });
    }
    Probe { state, log_path, made, ended, live_obs, final_history, final_log, final_live }
}

fn state_names(p: &J) -> Vec<String> {
    p["state"].as_array().map(|a| a.iter().map(|s| s["state"].as_str().unwrap_or("?").to_string()).collect()).unwrap_or_default()
}

/// lifecycle grammar: ClientConnected (ClientRequested (ServerConnecting (Connected Shutdown{0,2})?)?)? (Terminated|ErrorOccured)
fn lifecycle_ok(states: &[String], has_error_text: bool) -> Result<(), String> {
    let mut i = 0;
    let exp = |i: &mut usize, s: &str| {
        if states.get(*i).map(|x| x == s).unwrap_or(false) {
            *i += 1;
            true
        } else {
            false
        }
    };
    if !exp(&mut i, "ClientConnected") {
        return Err("does not start with ClientConnected".into());
    }
    if exp(&mut i, "ClientRequested") && exp(&mut i, "ServerConnecting") && exp(&mut i, "Connected") {
        let mut seen = vec![];
        while let Some(s) = states.get(i) {
            if (s == "ClientShutdown" || s == "ServerShutdown") && !seen.contains(s) {
                seen.push(s.clone());
                i += 1;
            } else {
                break;
            }
        }
    }
    match states.get(i).map(|s| s.as_str()) {
        Some("Terminated") if i + 1 == states.len() => {
            if has_error_text {
                Err("Terminated but an error text is recorded".into())
            } else {
                Ok(())
            }
        }
        Some("ErrorOccured") if i + 1 == states.len() => {
            if has_error_text {
                Ok(())
            } else {
                Err("ErrorOccured without error text".into())
            }
        }
        Some(x) => Err(format!("unexpected state {x} at position {i} of {:?}", states)),
        None => Err(format!("no terminal state: {:?}", states)),
    }
}

#[test]
fn check() {
    let chk = Check::new("C16");
    let thorough = chk.thorough();
    let stats = Stats::default();
    let mut scenarios: Vec<Scenario> = vec![];
    // every single outcome, every ordered pair (quick: a covering subset), triples in thorough
    for &a in &OUTCOMES {
        for hs in [0usize, 100] {
            scenarios.push(Scenario { conns: vec![a], history_size: hs, holder: None, live_observer: true });
        }
    }
    for (i, &a) in OUTCOMES.iter().enumerate() {
        for (j, &b) in OUTCOMES.iter().enumerate() {
            if !thorough && (i + 2 * j) % 3 != 0 {
                continue;
            }
            for hs in [1usize, 2, 100] {
                if !thorough && hs == 2 && (i + j) % 2 == 1 {
                    continue;
                }
                scenarios.push(Scenario { conns: vec![a, b], history_size: hs, holder: None, live_observer: false });
            }
        }
    }
    for holder in ["alive", "terminated"] {
        scenarios.push(Scenario { conns: vec![Outcome::Denied, Outcome::Relayed], history_size: 100, holder: Some(holder), live_observer: false });
        scenarios.push(Scenario { conns: vec![Outcome::HandshakeGarbage, Outcome::ConnectFailed], history_size: 1, holder: Some(holder), live_observer: true });
    }
    if thorough {
        for &a in &OUTCOMES {
            for &b in &[Outcome::Relayed, Outcome::Denied, Outcome::HandshakeEof] {
                for &c in &[Outcome::RelayedEarlyData, Outcome::ConnectFailed, Outcome::AbortedMidTransfer] {
                    scenarios.push(Scenario { conns: vec![a, b, c], history_size: 2, holder: None, live_observer: true });
                }
            }
        }
    }
    let cfg = Config { bound: if thorough { 2 } else { 1 }, horizon: 600, max_executions: if thorough { 400_000 } else { 60_000 } };
    let mut samples = vec![];
    let interleaved = AtomicU64::new(0);
    for sc in &scenarios {
        let b = |w: &mut World| build(sc, w);
        let check = |x: &Exec<Probe>| {
            let _ = std::fs::remove_file(&x.user.log_path);
            if x.trace.windows(2).any(|w| w[0].starts_with("run:") && w[1].starts_with("run:") && w[0] != w[1]) {
                interleaved.fetch_add(1, Ordering::Relaxed);
            }
            let replay = json!({"scenario": format!("{:?}", sc), "choices": x.points.iter().map(|p| p.chosen).collect::<Vec<_>>(), "schedule": x.trace});
            if x.horizon_hit {
                return;
            }
            if !x.blocked.is_empty() {
                chk.violation("accounting.liveness", "task-never-finishes", format!("{:?}: blocked {:?} (schedule {:?})", sc, x.blocked, x.trace), replay);
                return;
            }
            let made = x.user.made.lock().unwrap().clone();
            let ended = x.user.ended.lock().unwrap().clone();
            let hist = x.user.final_history.lock().unwrap().clone().unwrap_or_default();
            let logl = x.user.final_log.lock().unwrap().clone().unwrap_or_default();
            let live_end = x.user.final_live.lock().unwrap().clone().unwrap_or_default();
            stats.distinct.add(&(hist.iter().map(|h| state_names(h)).collect::<Vec<_>>(), logl.len(), live_end.len()));
            // ids pairwise distinct
            let mut ids: Vec<u64> = made.iter().map(|m| m.0).collect();
            ids.sort();
            ids.dedup();
            if ids.len() != made.len() {
                chk.violation("accounting.ids", "duplicate-id", format!("ids {:?}", made.iter().map(|m| m.0).collect::<Vec<_>>()), replay.clone());
            }
            // nothing is live after everything ended and the GC ran
            if !live_end.is_empty() {
                chk.violation("accounting.live", "ended-connection-still-listed-live", format!("live after the end: {:?}", live_end), replay.clone());
            }
            if x.user.state.contexts.alive.try_lock().map(|a| a.len()).unwrap_or(0) != 0 {
                chk.violation("accounting.registry", "registry-entry-leaked", "alive map not empty after GC".to_string(), replay.clone());
            }
            // live observer: bounds
            for (ids, before, after) in x.user.live_obs.lock().unwrap().iter() {
                for id in ids {
                    if before.contains(id) {
                        chk.violation("accounting.live", "ended-connection-still-listed-live", format!("live lists {id} which had ended before the call began"), replay.clone());
                    }
                }
                let _ = after;
            }
            // history: newest first, bounded, each ended connection at most once
            let want_hist: Vec<u64> = ended.iter().rev().take(sc.history_size).cloned().collect();
            let got_hist: Vec<u64> = hist.iter().filter_map(|h| h["id"].as_u64()).collect();
            if got_hist != want_hist {
                let class = if got_hist.len() > sc.history_size {
                    "history-exceeds-bound"
                } else if {
                    let mut g = got_hist.clone();
                    g.sort();
                    g.dedup();
                    g.len() != got_hist.len()
                } {
                    "history-duplicate"
                } else if got_hist.len() < want_hist.len() {
                    "history-entry-missing"
                } else {
                    "history-order-or-content"
                };
                chk.violation("accounting.history", class, format!("{:?}: history ids {:?}, expected newest-first {:?} (end order {:?})", sc, got_hist, want_hist, ended), replay.clone());
            }
            // access log: exactly once each
            let mut log_ids: Vec<u64> = logl.iter().filter_map(|h| h["id"].as_u64()).collect();
            log_ids.sort();
            let mut want_ids = ended.clone();
            want_ids.sort();
            if log_ids != want_ids {
                let class = if log_ids.len() < want_ids.len() { "log-entry-missing" } else { "log-entry-duplicated-or-foreign" };
                chk.violation("accounting.log", class, format!("{:?}: access log has ids {:?}, connections ended: {:?}", sc, log_ids, want_ids), replay.clone());
            }
            // per record: truthful fields, lifecycle, counters
            for rec in logl.iter() {
                let id = rec["id"].as_u64().unwrap_or(u64::MAX);
                let m = match made.iter().find(|m| m.0 == id) {
                    Some(m) => m,
                    None => continue,
                };
                let oc = m.6;
                if rec["listener"] != "http" || rec["source"].as_str() != Some(m.1.as_str()) {
                    chk.violation("accounting.record", "wrong-listener-or-source", format!("{:?}: record {}", oc, rec), replay.clone());
                }
                let handshake_failed = matches!(oc, Outcome::HandshakeGarbage | Outcome::HandshakeEof);
                if !handshake_failed && rec["target"].as_str() != Some(m.2.as_str()) {
                    chk.violation("accounting.record", "wrong-target", format!("{:?}: recorded {} used {}", oc, rec["target"], m.2), replay.clone());
                }
                let want_conn = match oc {
                    Outcome::Relayed | Outcome::RelayedEarlyData | Outcome::AbortedMidTransfer => Some("up"),
                    Outcome::ConnectFailed => Some("down"),
                    _ => None,
                };
                if rec["connector"].as_str() != want_conn {
                    chk.violation("accounting.record", "wrong-upstream", format!("{:?}: recorded connector {} expected {:?}", oc, rec["connector"], want_conn), replay.clone());
                }
                let states = state_names(rec);
                let has_err = rec["error"].is_string();
                if let Err(e) = lifecycle_ok(&states, has_err) {
                    let class = if states.len() == 1 { "handshake-failure-has-no-terminal-state".to_string() } else { format!("lifecycle:{:?}", oc) };
                    chk.violation("accounting.lifecycle", &class, format!("{:?}: {e}", oc), replay.clone());
                } else {
                    let want_terminal = match oc {
                        Outcome::Relayed | Outcome::RelayedEarlyData => "Terminated",
                        _ => "ErrorOccured",
                    };
                    if states.last().map(|s| s.as_str()) != Some(want_terminal) {
                        chk.violation("accounting.lifecycle", &format!("wrong-terminal-state:{:?}", oc), format!("states {:?}", states), replay.clone());
                    }
                }
                if matches!(oc, Outcome::Relayed | Outcome::RelayedEarlyData) {
                    let c = rec["client_stat"]["read_bytes"].as_u64().unwrap_or(u64::MAX);
                    let s = rec["server_stat"]["read_bytes"].as_u64().unwrap_or(u64::MAX);
                    if c != m.4 as u64 || s != m.5 as u64 {
                        let class = if oc == Outcome::RelayedEarlyData { "byte-counter:early-data-not-counted" } else { "byte-counter" };
                        chk.violation("accounting.counters", class, format!("{:?}: recorded client->server {c} server->client {s}, relayed {} / {}", oc, m.4, m.5), replay.clone());
                    }
                }
            }
        };
        explore(&cfg, &b, &check, &stats);
        if samples.len() < 3 {
            let x = execute(&b, &[], &[], cfg.horizon, &stats);
            let _ = std::fs::remove_file(&x.user.log_path);
            samples.push(json!({"scenario": format!("{:?}", sc), "default_schedule_len": x.trace.len(), "first_steps": x.trace.iter().take(12).collect::<Vec<_>>()}));
        }
    }
    let _ = std::fs::remove_dir_all(format!("{}/target/c16-scratch", VERIF_DIR));
    let ex = stats.executions.load(Ordering::Relaxed);
    if chk.violation_count() == 0 && (ex < 300 || stats.distinct.len() < 5) {
        machinery(format!("vacuous: executions={ex} distinct={}", stats.distinct.len()));
    }
    let coverage = json!({
        "exhaustive": !stats.capped.load(Ordering::Relaxed),
        "states": stats.distinct.len(), "transitions": stats.steps.load(Ordering::Relaxed), "traces_validated_against_impl": ex,
        "evaluations": ex, "distinct_nontrivial": interleaved.load(Ordering::Relaxed).max(stats.distinct.len() as u64),
        "rule": "scenarios = multisets of 1-2 (thorough 3) connections over 7 outcomes x history size {0,1,2,100} x optional registry-lock holder x live observer; per scenario all schedules within the deviation bound; after the last connection ended and two GC periods passed: live, history, access log (after a rotate) compared with the list of what the harness did. states = distinct (history state lists, log length, live length) observations",
        "scenarios": scenarios.len(), "deviation_bound": cfg.bound, "horizon_hits": stats.horizon_hits.load(Ordering::Relaxed), "execution_cap_hit": stats.capped.load(Ordering::Relaxed),
        "interleaved_executions": interleaved.load(Ordering::Relaxed),
        "samples": samples,
    });
    chk.finish(
        "model_checking",
        coverage,
        vec![
            "the access-log writer uses tokio::fs (blocking pool, real threads): the final read waits until the file holds the expected number of lines (bounded), so its timing is not part of the explored space".into(),
            "timestamps are real (SystemTime) and not compared; only order, presence and content are".into(),
            "listener = the HTTP-style handshake (h11c); SOCKS/reverse/QUIC listeners are covered through the real binary".into(),
        ],
    );
}
