//! C12 — stream decoders are insensitive to how the network segments the bytes; truncation never fabricates a message.
//! Engine E1 in its environment-only form: the only nondeterminism is the segmentation chosen by the network,
//! which is enumerated exhaustively (all 2^(n-1) segmentations for short inputs, all 1- and 2-cut sets +
//! byte-at-a-time for longer ones) against the single-segment baseline; every truncation point is tried.
use super::common::*;
use super::io::*;
use crate::common::frames::frames_from_stream;
use crate::common::http::{HttpRequest, HttpResponse};
use crate::common::socks::{NoAuth, PasswordAuth, SocksRequest, SocksResponse};
use serde_json::json;
use std::sync::atomic::{AtomicU64, Ordering};
use tokio::io::{AsyncReadExt, BufReader};

#[derive(Clone, Copy, Debug, PartialEq, Eq, Hash)]
pub enum Codec {
    HttpReq,
    HttpResp,
    SocksReqNoAuth,
    SocksReqPwRequired,
    SocksReqPwOptional,
    SocksResp,
    Frames,
}

/// Run one decoder over one segmented input. Returns (parsed message as text | error, unread remainder).
pub fn decode(codec: Codec, stream: ChunkStream) -> Result<(Result<String, String>, Vec<u8>), String> {
    catch(|| {
        let fut = async move {
            let mut r = BufReader::new(stream);
            let parsed: Result<String, String> = match codec {
                Codec::HttpReq => HttpRequest::read_from(&mut r).await.map(|m| format!("{:?}", m)).map_err(|e| e.to_string()),
                Codec::HttpResp => HttpResponse::read_from(&mut r).await.map(|m| format!("{:?}", m)).map_err(|e| e.to_string()),
                Codec::SocksReqNoAuth => SocksRequest::read_from(&mut r, NoAuth).await.map(|m| format!("{:?}", m)).map_err(|e| e.to_string()),
                Codec::SocksReqPwRequired => SocksRequest::read_from(&mut r, PasswordAuth::required()).await.map(|m| format!("{:?}", m)).map_err(|e| e.to_string()),
                Codec::SocksReqPwOptional => SocksRequest::read_from(&mut r, PasswordAuth::optional()).await.map(|m| format!("{:?}", m)).map_err(|e| e.to_string()),
                Codec::SocksResp => SocksResponse::read_from(&mut r).await.map(|m| format!("{:?}", m)).map_err(|e| e.to_string()),
                Codec::Frames => {
                    // the framed stream is read until end-of-stream; the "message" is the list of frames
                    let (mut fr, _fw) = frames_from_stream(0, r);
                    let mut out = vec![];
                    let res = loop {
                        match fr.read().await {
                            Ok(Some(f)) => out.push(format!("{:?}", f)),
                            Ok(None) => break Ok(()),
                            Err(e) => break Err(e.to_string()),
                        }
                        if out.len() > 64 {
                            break Err("more than 64 frames".to_string());
                        }
                    };
                    return (res.map(|_| out.join(";")).map_err(|e| format!("{} after [{}]", e, out.join(";"))), vec![]);
                }
            };
            let mut rest = vec![];
            let _ = r.read_to_end(&mut rest).await;
            (parsed, rest)
        };
        run_ready(fut, 100_000)
    })
    .and_then(|o| o.ok_or_else(|| "decoder did not terminate (pending forever / poll budget exhausted)".to_string()))
}

pub struct Msg {
    pub codec: Codec,
    pub name: String,
    pub bytes: Vec<u8>,
    pub trailing: Vec<u8>,
}

fn rpfm(session: u32, addr: &[u8], body: &[u8]) -> Vec<u8> {
    let mut v = b"RPFM".to_vec();
    v.extend(session.to_be_bytes());
    v.extend((addr.len() as u16).to_be_bytes());
    v.extend((body.len() as u16).to_be_bytes());
    v.extend(addr);
    v.extend(body);
    v
}

pub fn messages() -> Vec<Msg> {
    let mut m = vec![];
    let mut add = |codec: Codec, name: &str, bytes: Vec<u8>, trailing: &[u8]| {
        m.push(Msg { codec, name: name.to_string(), bytes, trailing: trailing.to_vec() })
    };
    let trail: [&[u8]; 3] = [b"", b"\x05", b"GET\r\n"];
    for t in trail {
        add(Codec::HttpReq, "connect-0hdr", b"CONNECT a.b:80 HTTP/1.1\r\n\r\n".to_vec(), t);
        add(Codec::HttpReq, "connect-lf", b"CONNECT a:1 HTTP/1.0\n\n".to_vec(), t);
        add(Codec::HttpReq, "connect-2hdr", b"CONNECT [::1]:443 HTTP/1.1\r\nHost: x\r\nProxy-Protocol: udp\r\n\r\n".to_vec(), t);
        add(Codec::HttpResp, "200", b"HTTP/1.1 200 OK\r\n\r\n".to_vec(), t);
        add(Codec::HttpResp, "200-hdr", b"HTTP/1.1 200 Connection established\r\nSession-Id: 7\r\n\r\n".to_vec(), t);
        add(Codec::HttpResp, "503-lf", b"HTTP/1.0 503 no\nA: b\n\n".to_vec(), t);
        // characters of more than one byte: a segment boundary may fall inside one
        add(Codec::HttpReq, "connect-utf8", "CONNECT a.b:80 HTTP/1.1\r\nX-Note: caf\u{e9} \u{20ac}5 \u{1f600}\r\n\r\n".as_bytes().to_vec(), t);
        add(Codec::HttpResp, "200-utf8", "HTTP/1.1 200 \u{2713} gr\u{fc}n\r\nServer: pr\u{fc}fstand\r\n\r\n".as_bytes().to_vec(), t);
        add(Codec::SocksReqNoAuth, "v5-domain-utf8", [&[5u8, 1, 0, 5, 1, 0, 3, 11][..], "b\u{fc}cher.\u{4f8b}".as_bytes(), &[1, 187]].concat(), t);
        // SOCKS4 / 4a
        add(Codec::SocksReqNoAuth, "v4", vec![4, 1, 0, 80, 1, 2, 3, 4, b'u', b's', 0], t);
        add(Codec::SocksReqNoAuth, "v4-emptyid", vec![4, 1, 0, 80, 1, 2, 3, 4, 0], t);
        add(Codec::SocksReqPwOptional, "v4a", [&[4u8, 1, 1, 187, 0, 0, 0, 9, b'i', 0][..], b"ex.am\0"].concat(), t);
        add(Codec::SocksReqPwRequired, "v4a-pw", [&[4u8, 1, 1, 187, 0, 0, 0, 1, b'i', b'd', 0][..], b"h\0"].concat(), t);
        // SOCKS5 no auth: greeting + request (the decoder writes its method choice in between; writes are sunk)
        add(Codec::SocksReqNoAuth, "v5-v4addr", vec![5, 1, 0, 5, 1, 0, 1, 10, 0, 0, 1, 0, 80], t);
        add(Codec::SocksReqNoAuth, "v5-2methods-domain", [&[5u8, 2, 2, 0, 5, 1, 0, 3, 5][..], b"a.b.c", &[1, 187]].concat(), t);
        add(Codec::SocksReqPwOptional, "v5-v6addr", [&[5u8, 1, 0, 5, 1, 0, 4][..], &[0x20, 1, 0xd, 0xb8, 0, 0, 0, 0, 0, 0, 0, 0, 0, 0, 0, 1], &[0, 53]].concat(), t);
        add(
            Codec::SocksReqPwRequired,
            "v5-userpass-domain",
            [&[5u8, 2, 0, 2][..], &[1, 2, b'u', b's', 3, b'p', b'w', b'd'], &[5, 1, 0, 3, 3, b'x', b'.', b'y', 0, 80]].concat(),
            t,
        );
        add(Codec::SocksReqPwOptional, "v5-udp-assoc", vec![5, 1, 0, 5, 3, 0, 1, 0, 0, 0, 0, 0, 0], t);
        // replies
        add(Codec::SocksResp, "v4-reply", vec![0, 90, 0, 80, 1, 2, 3, 4], t);
        add(Codec::SocksResp, "v5-reply-v4", vec![5, 0, 0, 1, 127, 0, 0, 1, 4, 56], t);
        add(Codec::SocksResp, "v5-reply-domain", [&[5u8, 0, 0, 3, 4][..], b"host", &[0, 1]].concat(), t);
        add(Codec::SocksResp, "v5-reply-v6", [&[5u8, 1, 0, 4][..], &[0u8; 16], &[0, 0]].concat(), t);
    }
    // framed streams (read to EOF, no trailing payload concept)
    let a4 = [1u8, 6, 1, 2, 3, 4, 0, 53];
    let a6: Vec<u8> = [&[2u8, 18][..], &[0xfe, 0x80, 0, 0, 0, 0, 0, 0, 0, 0, 0, 0, 0, 0, 0, 1], &[0, 53]].concat();
    let ah: Vec<u8> = [&[3u8, 8][..], b"host.x", &[1, 187]].concat();
    add(Codec::Frames, "1frame-noaddr", rpfm(1, &[], b"ab"), b"");
    add(Codec::Frames, "1frame-v4", rpfm(2, &a4, b"xyz"), b"");
    add(Codec::Frames, "1frame-empty-body", rpfm(2, &a4, b""), b"");
    add(Codec::Frames, "2frames", [rpfm(3, &a6, b"q"), rpfm(3, &ah, b"rs")].concat(), b"");
    add(Codec::Frames, "3frames", [rpfm(4, &a4, b"1"), rpfm(4, &[], b""), rpfm(5, &ah, b"22")].concat(), b"");
    m
}

#[test]
fn check() {
    let chk = Check::new("C12");
    let msgs = messages();
    let decodes = AtomicU64::new(0);
    let outcomes = Distinct::default();
    let exhaustive_limit = if chk.thorough() { 18 } else { 14 };
    let mut samples = vec![];
    let mut seg_cases = 0u64;
    let mut trunc_cases = 0u64;
    for msg in &msgs {
        let mut data = msg.bytes.clone();
        data.extend(&msg.trailing);
        let base = match decode(msg.codec, ChunkStream::new(vec![data.clone()])) {
            Ok(b) => b,
            Err(p) => {
                chk.violation("decoder", &format!("{:?}:baseline-panic", msg.codec), format!("{} panicked on a well-formed message: {p}", msg.name), json!({"codec": format!("{:?}", msg.codec), "bytes": hex(&data)}));
                continue;
            }
        };
        if base.0.is_err() || (msg.codec != Codec::Frames && base.1 != msg.trailing) {
            chk.violation(
                "decoder",
                &format!("{:?}:baseline", msg.codec),
                format!("{}: single-segment decode gives {:?}, remainder {:?} (expected remainder {:?})", msg.name, base.0, hex(&base.1), hex(&msg.trailing)),
                json!({"codec": format!("{:?}", msg.codec), "bytes": hex(&data)}),
            );
            continue;
        }
        outcomes.add(&base);
        let cut_sets = if data.len() <= exhaustive_limit { all_cut_sets(data.len()) } else { sparse_cut_sets(data.len()) };
        seg_cases += cut_sets.len() as u64;
        if samples.len() < 4 {
            samples.push(json!({"codec": format!("{:?}", msg.codec), "message": msg.name, "cuts": cut_sets[cut_sets.len() / 2], "segmentations": cut_sets.len()}));
        }
        par_for(cut_sets.len(), |i| {
            decodes.fetch_add(1, Ordering::Relaxed);
            let got = decode(msg.codec, ChunkStream::from_cuts(&data, &cut_sets[i]));
            match got {
                Err(p) => chk.violation("decoder", &format!("{:?}:segmentation-panic", msg.codec), format!("{} cuts {:?}: {p}", msg.name, cut_sets[i]), json!({"codec": format!("{:?}", msg.codec), "bytes": hex(&data), "cuts": cut_sets[i]})),
                Ok(g) => {
                    if g != base {
                        chk.violation(
                            "decoder",
                            &format!("{:?}:segmentation-changes-result", msg.codec),
                            format!("{} cuts {:?}: got {:?} rest {} | single segment: {:?} rest {}", msg.name, cut_sets[i], g.0, hex(&g.1), base.0, hex(&base.1)),
                            json!({"codec": format!("{:?}", msg.codec), "bytes": hex(&data), "cuts": cut_sets[i]}),
                        );
                    }
                }
            }
        });
        // truncation: EOF after every proper prefix of the message itself (no trailing payload)
        if msg.trailing.is_empty() {
            for cut in 0..msg.bytes.len() {
                trunc_cases += 1;
                decodes.fetch_add(1, Ordering::Relaxed);
                let prefix = &msg.bytes[..cut];
                // deliver the prefix both as one segment and byte by byte
                for bytewise in [false, true] {
                    let stream = if bytewise { ChunkStream::from_cuts(prefix, &(1..prefix.len()).collect::<Vec<_>>()) } else { ChunkStream::new(vec![prefix.to_vec()]) };
                    match decode(msg.codec, stream) {
                        Err(p) => chk.violation("decoder", &format!("{:?}:truncation-panic", msg.codec), format!("{} cut at {cut}: {p}", msg.name), json!({"codec": format!("{:?}", msg.codec), "bytes": hex(prefix)})),
                        Ok((res, _)) => {
                            outcomes.add(&(msg.codec, res.is_ok()));
                            let fabricated = match (&res, msg.codec) {
                                (Ok(frames), Codec::Frames) => {
                                    // whole frames that precede the cut are legitimate; anything else is fabricated
                                    let whole = decode(Codec::Frames, ChunkStream::new(vec![whole_frames_prefix(prefix)])).ok().and_then(|x| x.0.ok()).unwrap_or_default();
                                    *frames != whole
                                }
                                (Ok(_), _) => true,
                                (Err(_), _) => false,
                            };
                            if fabricated {
                                chk.violation(
                                    "decoder",
                                    &format!("{:?}:truncated-input-accepted", msg.codec),
                                    format!("{} truncated after {cut} of {} bytes + EOF is accepted as {:?}", msg.name, msg.bytes.len(), res),
                                    json!({"codec": format!("{:?}", msg.codec), "bytes": hex(prefix), "full_message": hex(&msg.bytes)}),
                                );
                            }
                        }
                    }
                }
            }
        }
    }
    // ---- hand-over from the head to the framed tunnel: an HTTP CONNECT head (Proxy-Protocol: udp, inline channel)
    //      followed by UDP-over-stream frames through the real h11c_handshake + on_connect (listener side), and an
    //      upstream's 200 reply followed by frames through the real h11c_connect (connector side); whatever the
    //      segmentation, the tunnel must deliver exactly the frames that follow the head
    let mut handover_cases = 0u64;
    {
        let f1 = rpfm(0, &[1, 6, 1, 2, 3, 4, 0, 53], b"first-frame");
        let f2 = rpfm(0, &[1, 6, 5, 6, 7, 8, 1, 187], b"2nd");
        for side in ["listener", "connector"] {
            let head: &[u8] = if side == "listener" { b"CONNECT 1.2.3.4:53 HTTP/1.1\r\nProxy-Protocol: udp\r\n\r\n" } else { b"HTTP/1.1 200 OK\r\nSession-Id: 7\r\n\r\n" };
            let mut data = head.to_vec();
            data.extend(&f1);
            data.extend(&f2);
            let base = handover(side, ChunkStream::new(vec![data.clone()]));
            let want = Ok(vec![format!("{}:{}", "1.2.3.4:53", hex(b"first-frame")), format!("{}:{}", "5.6.7.8:443", hex(b"2nd"))]);
            if base != want {
                chk.violation("handover", &format!("{side}:baseline"), format!("{side}: head + 2 frames in one segment: tunnel delivered {:?}, expected {:?}", base, want), json!({"side": side, "bytes": hex(&data)}));
                continue;
            }
            let cut_sets = sparse_cut_sets(data.len());
            handover_cases += cut_sets.len() as u64;
            par_for(cut_sets.len(), |i| {
                decodes.fetch_add(1, Ordering::Relaxed);
                let got = handover(side, ChunkStream::from_cuts(&data, &cut_sets[i]));
                outcomes.add(&(side, got.is_ok()));
                if got != base {
                    let class = if got.is_err() { "tunnel-broken" } else { "frames-lost-or-changed" };
                    chk.violation("handover", &format!("{side}:{class}"), format!("{side}: cuts {:?} (head is {} bytes): tunnel delivered {:?}, one segment delivers {:?}", cut_sets[i], head.len(), got, base), json!({"side": side, "bytes": hex(&data), "cuts": cut_sets[i]}));
                }
            });
        }
    }

    // ---- hand-over from a handshake to the byte tunnel: the bytes a peer sends right behind its handshake message
    //      travel in the same segments and end up in the handshake reader's buffer; the relay (real copy_bidi) must
    //      deliver exactly them, whatever the segmentation. Connector side: upstream reply (HTTP 200 head / SOCKS5 /
    //      SOCKS4 reply) + an origin banner; listener side: CONNECT head + early client data.
    {
        let banner: &[u8] = b"SSH-2.0-banner-of-the-origin\r\n";
        let cases: Vec<(&str, Vec<u8>)> = vec![
            ("connector:http", b"HTTP/1.1 200 OK\r\nVia: x\r\n\r\n".to_vec()),
            ("connector:socks5", vec![5, 0, 0, 1, 1, 2, 3, 4, 0, 80]),
            ("connector:socks4", vec![0, 90, 0, 80, 1, 2, 3, 4]),
            ("listener:http", b"CONNECT 1.2.3.4:22 HTTP/1.1\r\nHost: x\r\n\r\n".to_vec()),
        ];
        for (kind, head) in cases {
            let mut data = head.clone();
            data.extend(banner);
            let base = tcp_handover(kind, ChunkStream::new(vec![data.clone()]));
            if base.as_deref() != Ok(banner) {
                chk.violation("handover", &format!("{kind}:baseline"), format!("{kind}: handshake + banner in one segment: the other side received {:?}", base.map(|b| hex(&b))), json!({"kind": kind, "bytes": hex(&data)}));
                continue;
            }
            let cut_sets = sparse_cut_sets(data.len());
            handover_cases += cut_sets.len() as u64;
            par_for(cut_sets.len(), |i| {
                decodes.fetch_add(1, Ordering::Relaxed);
                let got = tcp_handover(kind, ChunkStream::from_cuts(&data, &cut_sets[i]));
                outcomes.add(&(kind, got.is_ok()));
                if got.as_deref() != Ok(banner) {
                    let class = if got.is_err() { "tunnel-broken" } else { "bytes-behind-the-handshake-lost-or-changed" };
                    chk.violation("handover", &format!("{kind}:{class}"), format!("{kind}: cuts {:?} (handshake message is {} bytes): the other side received {:?} instead of the {} bytes that follow it", cut_sets[i], head.len(), got.map(|b| hex(&b)), banner.len()), json!({"kind": kind, "bytes": hex(&data), "cuts": cut_sets[i]}));
                }
            });
        }
    }


    // ---- long framed streams: many frames / large frames in one stream, so that the reader's buffer is refilled,
    //      compacted and renewed many times while a partial frame is pending. Segmentations: one frame per segment
    //      (baseline, what the project's own writer produces), everything at once, fixed segment sizes from 1 byte to
    //      64 KiB + 1, and segments one byte short of / beyond a frame. The frames that come out (and the clean end
    //      after the last one) must not depend on the segmentation.
    let long_grid: Vec<(usize, usize)> = if chk.thorough() {
        vec![(200, 1000), (6, 50020), (40, 8000), (300, 300), (3, 65000), (1000, 100), (30, 20000), (130, 1001), (10, 65507)]
    } else {
        vec![(200, 1000), (6, 50020), (40, 8000), (300, 300), (3, 65000)]
    };
    let mut long_cases = 0u64;
    for (nframes, blen) in &long_grid {
        let addr = [1u8, 6, 127, 0, 0, 1, 0, 53];
        let frames: Vec<Vec<u8>> = (0..*nframes).map(|i| rpfm(i as u32, &addr, &(0..*blen).map(|k| ((k * 31 + i * 7) % 251) as u8).collect::<Vec<u8>>())).collect();
        let data: Vec<u8> = frames.iter().flatten().copied().collect();
        let flen = frames[0].len();
        let base = decode_frames_long(ChunkStream::new(frames.clone()));
        match &base {
            Ok((n, _, true)) if *n == *nframes => {}
            other => {
                chk.violation("decoder", "Frames:long-stream:baseline", format!("{nframes} frames of {blen} bytes, one per segment: {:?}", other.as_ref().map(|x| (x.0, x.2))), json!({"frames": nframes, "body": blen}));
                continue;
            }
        }
        let mut sizes: Vec<usize> = vec![data.len(), 7, 999, 1499, 4096, 8191, 8192, 16384, 65535, 65536, 65537, flen - 1, flen + 1, 2 * flen - 1];
        if data.len() <= 400_000 {
            sizes.push(1);
        }
        sizes.sort();
        sizes.dedup();
        let sizes: Vec<usize> = sizes.into_iter().filter(|s| *s >= 1).collect();
        par_for(sizes.len(), |i| {
            decodes.fetch_add(1, Ordering::Relaxed);
            let seg = sizes[i];
            let chunks: Vec<Vec<u8>> = data.chunks(seg).map(|c| c.to_vec()).collect();
            let got = decode_frames_long(ChunkStream::new(chunks));
            outcomes.add(&(nframes, blen, got.as_ref().map(|g| (g.0, g.2)).ok()));
            if got != base {
                let (n, clean) = got.as_ref().map(|g| (g.0, g.2)).unwrap_or((0, false));
                chk.violation(
                    "decoder",
                    "Frames:long-stream:segmentation-changes-result",
                    format!("{nframes} frames of {blen} body bytes delivered in segments of {seg} bytes: {} ({n} frames came out, {}); one frame per segment gives all {nframes}", got.as_ref().err().cloned().unwrap_or("different frames".into()), if clean { "then a clean end of stream" } else { "then an error" }),
                    json!({"frames": nframes, "body": blen, "segment": seg}),
                );
            }
        });
        long_cases += sizes.len() as u64;
    }
    samples.push(json!({"long_streams": long_grid.iter().map(|(n, b)| format!("{n} frames x {b} bytes")).collect::<Vec<_>>(), "cases": long_cases}));

    let n = decodes.load(Ordering::Relaxed);
    if chk.violation_count() == 0 && (n < 10_000 || outcomes.len() < 20) {
        machinery(format!("vacuous: decodes={n} outcomes={}", outcomes.len()));
    }
    let coverage = json!({
        "exhaustive": true,
        "states": outcomes.len(), "transitions": n, "traces_validated_against_impl": n,
        "evaluations": n, "distinct_nontrivial": outcomes.len(),
        "rule": format!("{} valid messages (HTTP request/response heads, SOCKS4/4a/5 negotiations+requests, replies, 1-3 RPFM frames) x trailing payload in {{none, 1 byte, 5 bytes}}; all 2^(n-1) segmentations when n <= {}, otherwise all 1- and 2-cut sets + byte-at-a-time; EOF after every proper prefix (one segment and byte-wise). hand-over: CONNECT head (udp, inline) + 2 frames through the real h11c_handshake/on_connect and 200 reply + 2 frames through the real h11c_connect under all 1- and 2-cut sets + byte-at-a-time, frames read from the tunnel; hand-over to the byte tunnel: upstream reply (HTTP / SOCKS5 / SOCKS4) + origin banner and CONNECT head + early data through the real readers and the real copy_bidi under the same cut sets; long framed streams (200 x 1000, 6 x 50020, 40 x 8000, 300 x 300, 3 x 65000 bytes; thorough more) in segments of 1 byte ... 64 KiB + 1, one byte short of / beyond a frame and all at once, against one frame per segment. distinct = distinct (parse result, remainder) outcomes", msgs.len(), exhaustive_limit),
        "messages": msgs.len(), "segmentation_cases": seg_cases, "handover_segmentations": handover_cases, "truncation_points": trunc_cases,
        "samples": samples,
    });
    chk.finish(
        "model_checking",
        coverage,
        vec![
            "segments are delivered by an in-memory AsyncRead that returns exactly one segment per poll_read (never Pending): readiness order is irrelevant for a single sequential reader".into(),
            "messages longer than the exhaustive limit get all single cuts, all pairs of cuts and byte-at-a-time, not all subsets".into(),
        ],
    );
}


/// Reads a framed stream to its end with the real reader: (frames, hash of everything that came out, clean end).
fn decode_frames_long(stream: ChunkStream) -> Result<(usize, u64, bool), String> {
    catch(|| {
        let fut = async move {
            use std::hash::{Hash, Hasher};
            let r = BufReader::new(stream);
            let (mut fr, _fw) = frames_from_stream(0, r);
            let mut h = std::collections::hash_map::DefaultHasher::new();
            let mut n = 0usize;
            loop {
                match fr.read().await {
                    Ok(Some(f)) => {
                        n += 1;
                        format!("{:?}", f.addr).hash(&mut h);
                        f.session_id.hash(&mut h);
                        f.body().hash(&mut h);
                    }
                    Ok(None) => return (n, h.finish(), true),
                    Err(_) => return (n, h.finish(), false),
                }
                if n > 100_000 {
                    return (n, 0, false);
                }
            }
        };
        run_ready(fut, 50_000_000)
    })
    .and_then(|o| o.ok_or_else(|| "decoder did not terminate".to_string()))
}

/// Runs the real head parser and hands the connection over to the framed tunnel; returns the frames the tunnel
/// delivers ("addr:body-hex"), or the error that ended it.
fn handover(side: &str, stream: ChunkStream) -> Result<Vec<String>, String> {
    use crate::common::h11c::{h11c_connect, h11c_handshake};
    use crate::context::{make_buffered_stream, ContextRefOps, Feature, GlobalState as Contexts, TargetAddress};
    let listener = side == "listener";
    catch(|| {
        let fut = async move {
            let contexts: std::sync::Arc<Contexts> = Default::default();
            let ctx = contexts.create_context("l".to_string(), "127.0.0.1:1".parse().unwrap()).await;
            let dummy = |id| frames_from_stream(id, ChunkStream::new(vec![]));
            if listener {
                ctx.write().await.set_client_stream(make_buffered_stream(stream));
                let (tx, mut rx) = tokio::sync::mpsc::channel(4);
                h11c_handshake(ctx.clone(), tx, |_, _| async { easy_error::bail!("not supported") }).await.map_err(|e| format!("handshake: {e}"))?;
                rx.try_recv().map_err(|_| "handshake did not queue the request".to_string())?;
                ctx.on_connect().await;
                ctx.write().await.set_server_frames(dummy(0));
            } else {
                ctx.write().await.set_target(TargetAddress::DomainPort("t".into(), 53)).set_feature(Feature::UdpForward);
                let a: std::net::SocketAddr = "127.0.0.1:2".parse().unwrap();
                h11c_connect(make_buffered_stream(stream), ctx.clone(), a, a, "inline", |id| async move { dummy(id) }).await.map_err(|e| format!("connect: {e}"))?;
                ctx.write().await.set_client_frames(dummy(0));
            }
            let (client, server) = ctx.write().await.take_frames().ok_or_else(|| "no frame channel on the connection".to_string())?;
            let (mut reader, _w) = if listener { client } else { server };
            let mut out = vec![];
            loop {
                match reader.read().await {
                    Ok(Some(f)) => out.push(format!("{}:{}", f.addr.as_ref().map(|a| a.to_string()).unwrap_or_default(), hex(&f.body))),
                    Ok(None) => break Ok(out),
                    Err(e) => break Err(format!("{} after {:?}", e, out)),
                }
                if out.len() > 8 {
                    break Err("more than 8 frames".to_string());
                }
            }
        };
        run_ready(fut, 200_000)
    })
    .and_then(|o| o.ok_or_else(|| "did not terminate".to_string()))
    .unwrap_or_else(Err)
}

/// Runs the real handshake reader of one side over `stream`, hands the connection to the real copy_bidi and returns
/// what the opposite endpoint received.
fn tcp_handover(kind: &str, stream: ChunkStream) -> Result<Vec<u8>, String> {
    use crate::common::h11c::{h11c_connect, h11c_handshake};
    use crate::common::socks::SocksResponse;
    use crate::context::{make_buffered_stream, ContextRefOps, Feature, GlobalState as Contexts, TargetAddress};
    let kind = kind.to_string();
    catch(|| {
        let fut = async move {
            let contexts: std::sync::Arc<Contexts> = Default::default();
            let ctx = contexts.create_context("l".to_string(), "127.0.0.1:1".parse().unwrap()).await;
            let other = ChunkStream::new(vec![]);
            let sink = other.written.clone();
            let a: std::net::SocketAddr = "127.0.0.1:2".parse().unwrap();
            ctx.write().await.set_connector("c".to_string());
            match kind.as_str() {
                "connector:http" => {
                    ctx.write().await.set_target(TargetAddress::DomainPort("t".into(), 22)).set_feature(Feature::TcpForward).set_client_stream(make_buffered_stream(other));
                    h11c_connect(make_buffered_stream(stream), ctx.clone(), a, a, "inline", |id| async move { frames_from_stream(id, ChunkStream::new(vec![])) }).await.map_err(|e| format!("connect: {e}"))?;
                }
                "connector:socks5" | "connector:socks4" => {
                    let mut server = make_buffered_stream(stream);
                    let r = SocksResponse::read_from(&mut server).await.map_err(|e| format!("reply: {e}"))?;
                    if r.cmd != 0 {
                        return Err(format!("reply code {}", r.cmd));
                    }
                    ctx.write().await.set_client_stream(make_buffered_stream(other)).set_server_stream(server);
                }
                _ => {
                    ctx.write().await.set_client_stream(make_buffered_stream(stream));
                    let (tx, mut rx) = tokio::sync::mpsc::channel(4);
                    h11c_handshake(ctx.clone(), tx, |_, _| async { easy_error::bail!("not supported") }).await.map_err(|e| format!("handshake: {e}"))?;
                    rx.try_recv().map_err(|_| "handshake did not queue the request".to_string())?;
                    ctx.write().await.set_server_stream(make_buffered_stream(other));
                    ctx.on_connect().await;
                    // what the listener wrote to its client (the 200 head) is not tunnel payload: the sink is the server side here
                }
            }
            let params = crate::config::IoParams { buffer_size: 4096, use_splice: false };
            crate::copy::copy_bidi(ctx.clone(), &params).await.map_err(|e| format!("relay: {e}"))?;
            let got = sink.lock().unwrap().clone();
            Ok(got)
        };
        // the relay uses a timer: a real (single-threaded) runtime; nothing ever waits, so it ends at once
        let rt = tokio::runtime::Builder::new_current_thread().enable_all().build().unwrap();
        rt.block_on(async { tokio::time::timeout(std::time::Duration::from_secs(10), fut).await.unwrap_or_else(|_| Err("did not terminate".to_string())) })
    })
    .unwrap_or_else(Err)
}

/// longest prefix of `data` that consists of whole RPFM frames
fn whole_frames_prefix(data: &[u8]) -> Vec<u8> {
    let mut pos = 0;
    while data.len() >= pos + 12 {
        let al = u16::from_be_bytes([data[pos + 8], data[pos + 9]]) as usize;
        let bl = u16::from_be_bytes([data[pos + 10], data[pos + 11]]) as usize;
        if data.len() < pos + 12 + al + bl {
            break;
        }
        pos += 12 + al + bl;
    }
    data[..pos].to_vec()
}
