//! C18 — bad configuration is an error, never a crash; accepted configuration runs.
//! Engine E2: every single-node mutation of a set of base configuration documents goes through exactly what main()
//! does before listening (Config deserialisation, listeners/connectors/rules from_config, init, set_rules, verify)
//! under catch_unwind; all load-balancer member digraphs on <= 3 balancers + 1 direct; rule lists posted as JSON with
//! every mutation and with nesting depths up to 100 000 (child processes: a stack overflow aborts the process).
use super::common::*;
use super::world::*;
use crate::context::{Feature, TargetAddress};
use crate::metrics::verif_hooks as api;
use serde_json::json;
use serde_yaml::Value as Y;
use std::sync::atomic::{AtomicU64, Ordering};
use std::sync::Arc;

/// what main() does between reading the file and listening. Ok(state) | Err(message); panics are caught by the caller
async fn load(doc: &str, dir: &str) -> Result<Arc<crate::GlobalState>, String> {
    let cfg: crate::config::Config = serde_yaml::from_str(doc).map_err(|e| format!("parse yaml: {e}"))?;
    let mut state: Arc<crate::GlobalState> = Default::default();
    {
        let st_mut = Arc::get_mut(&mut state).unwrap();
        st_mut.timeouts = cfg.timeouts;
        st_mut.listeners = crate::listeners::from_config(&cfg.listeners).map_err(|e| e.to_string())?;
        st_mut.connectors = crate::connectors::from_config(&cfg.connectors).map_err(|e| e.to_string())?;
        let ctx_mut = Arc::get_mut(&mut st_mut.contexts).unwrap();
        if let Some(mut metrics) = cfg.metrics {
            metrics.init().map_err(|e| e.to_string())?;
            ctx_mut.history_size = metrics.history_size;
            st_mut.metrics = Some(Arc::new(metrics));
        }
        if let Some(mut log) = cfg.access_log {
            // keep log files inside the scratch directory
            let _ = dir;
            log.init().await.map_err(|e| e.to_string())?;
            ctx_mut.access_log = Some(log);
        }
        for l in st_mut.listeners.values_mut() {
            Arc::get_mut(l).unwrap().init().await.map_err(|e| e.to_string())?;
        }
        for c in st_mut.connectors.values_mut() {
            Arc::get_mut(c).unwrap().init().await.map_err(|e| e.to_string())?;
        }
        let rules = crate::rules::from_config(&cfg.rules).map_err(|e| e.to_string())?;
        st_mut.set_rules(rules).await.map_err(|e| e.to_string())?;
        st_mut.io_params = cfg.io_params;
    }
    for l in state.listeners.values() {
        l.verify(state.clone()).await.map_err(|e| e.to_string())?;
    }
    for c in state.connectors.values() {
        c.verify(state.clone()).await.map_err(|e| e.to_string())?;
    }
    Ok(state)
}

fn base_docs(dir: &str) -> Vec<(&'static str, String)> {
    let shipped = std::fs::read_to_string("/repo/config.yaml").unwrap_or_else(|e| machinery(format!("config.yaml: {e}")));
    // the shipped example with file references pointed into the scratch dir (they do not exist: a clean error is expected)
    let minimal = format!(
        r#"apiVersion: v1alpha
kind: ProxyDefinition
ioParams:
  bufferSize: 4096
  useSplice: false
timeouts:
  idle: 5
  udp: 7
metrics:
  bind: "127.0.0.1:0"
  ui: null
  historySize: 3
  cors: "*"
  apiPrefix: /api
accessLog:
  path: {dir}/access.log
  format: json
listeners:
  - name: http
    bind: 127.0.0.1:0
  - name: socks
    bind: 127.0.0.1:0
    allowUdp: true
    auth:
      required: true
      users:
        - username: a
          password: b
      cmd: ["true"]
      cache:
        timeout: 10
  - name: rev
    type: reverse
    bind: 127.0.0.1:0
    target: example.com:80
    protocol: tcp
  - name: revudp
    type: reverse
    bind: 127.0.0.1:0
    target: 1.2.3.4:53
    protocol: udp
connectors:
  - name: direct
  - name: web
    type: http
    server: 127.0.0.1
    port: 3128
  - name: s5
    type: socks
    server: 127.0.0.1
    port: 1080
    version: 5
    auth:
      username: u
      password: p
  - name: lb
    type: loadbalance
    connectors: [direct, web]
    algo:
      hashBy: request.source.host
  - name: rr
    type: loadbalance
    connectors: [direct]
rules:
  - filter: request.target.port == 443 && cidr_match(request.source.host, "127.0.0.0/8")
    target: lb
  - filter: request.listener == "socks"
    target: deny
  - target: direct
"#
    );
    let quic = format!(
        r#"apiVersion: v1alpha
kind: ProxyDefinition
listeners:
  - name: q
    type: quic
    bind: 127.0.0.1:0
    tls:
      cert: {dir}/missing.crt
      key: {dir}/missing.key
connectors:
  - name: qc
    type: quic
    server: 127.0.0.1
    port: 4433
    tls:
      insecure: true
  - name: tlsweb
    type: http
    server: localhost
    port: 443
    tls:
      insecure: false
rules:
  - target: qc
accessLog:
  path: {dir}/a.log
  format:
    script: "`${{request.listener}} ${{request.target}}`"
"#
    );
    vec![("shipped-config.yaml", shipped), ("minimal", minimal), ("quic-tls", quic)]
}

/// all paths to nodes of a YAML value
fn paths(v: &Y, cur: &mut Vec<PathSeg>, out: &mut Vec<Vec<PathSeg>>) {
    out.push(cur.clone());
    match v {
        Y::Mapping(m) => {
            for (k, val) in m {
                cur.push(PathSeg::Key(k.clone()));
                paths(val, cur, out);
                cur.pop();
            }
        }
        Y::Sequence(s) => {
            for (i, val) in s.iter().enumerate() {
                cur.push(PathSeg::Idx(i));
                paths(val, cur, out);
                cur.pop();
            }
        }
        _ => {}
    }
}

#[derive(Clone, Debug)]
enum PathSeg {
    Key(Y),
    Idx(usize),
}

fn get_mut<'a>(v: &'a mut Y, p: &[PathSeg]) -> Option<&'a mut Y> {
    let mut cur = v;
    for seg in p {
        cur = match seg {
            PathSeg::Key(k) => cur.as_mapping_mut()?.get_mut(k)?,
            PathSeg::Idx(i) => cur.as_sequence_mut()?.get_mut(*i)?,
        };
    }
    Some(cur)
}

fn path_str(p: &[PathSeg]) -> String {
    p.iter()
        .map(|s| match s {
            PathSeg::Key(k) => k.as_str().map(|x| x.to_string()).unwrap_or_else(|| format!("{:?}", k)),
            PathSeg::Idx(i) => format!("[{}]", i),
        })
        .collect::<Vec<_>>()
        .join(".")
}

fn replacements() -> Vec<(&'static str, Y)> {
    vec![
        ("int", Y::Number(123.into())),
        ("negative", Y::Number((-1).into())),
        // serde_yaml::Value cannot hold it: a placeholder that is replaced in the serialized text
        ("huge", Y::String("HUGEPLACEHOLDER".into())),
        ("string", Y::String("zzz".into())),
        ("empty-string", Y::String("".into())),
        ("bool", Y::Bool(true)),
        ("null", Y::Null),
        ("list", Y::Sequence(vec![Y::Number(1.into())])),
        ("map", serde_yaml::from_str("{a: 1}").unwrap()),
        ("float", serde_yaml::from_str("1.5").unwrap()),
    ]
}

/// every single-node mutant of a document: (description, yaml text)
fn mutants(doc: &str) -> Vec<(String, String)> {
    let base: Y = serde_yaml::from_str(doc).unwrap_or_else(|e| machinery(format!("base document does not parse: {e}")));
    let mut ps = vec![];
    paths(&base, &mut vec![], &mut ps);
    let mut out = vec![("unchanged".to_string(), doc.to_string())];
    for p in &ps {
        if p.is_empty() {
            continue;
        }
        // delete
        {
            let mut m = base.clone();
            let (last, parent) = p.split_last().unwrap();
            if let Some(par) = get_mut(&mut m, parent) {
                match last {
                    PathSeg::Key(k) => {
                        par.as_mapping_mut().map(|mm| mm.remove(k));
                    }
                    PathSeg::Idx(i) => {
                        par.as_sequence_mut().map(|s| {
                            if *i < s.len() {
                                s.remove(*i);
                            }
                        });
                    }
                }
                out.push((format!("delete {}", path_str(p)), serde_yaml::to_string(&m).unwrap()));
            }
        }
        // retype
        for (rname, r) in replacements() {
            let mut m = base.clone();
            if let Some(node) = get_mut(&mut m, p) {
                *node = r.clone();
                out.push((format!("set {} = <{}>", path_str(p), rname), serde_yaml::to_string(&m).unwrap().replace("HUGEPLACEHOLDER", "99999999999999999999")));
            }
        }
        // duplicate a list element (duplicate names) / special names and types
        if let (Some(PathSeg::Idx(i)), Some(parent)) = (p.last(), p.split_last().map(|x| x.1)) {
            let mut m = base.clone();
            if let Some(par) = get_mut(&mut m, parent) {
                if let Some(s) = par.as_sequence_mut() {
                    let e = s[*i].clone();
                    s.push(e);
                    out.push((format!("duplicate {}", path_str(p)), serde_yaml::to_string(&m).unwrap()));
                }
            }
        }
        if let Some(PathSeg::Key(k)) = p.last() {
            if k.as_str() == Some("name") || k.as_str() == Some("type") || k.as_str() == Some("target") {
                for special in ["deny", "nosuchtype", "direct", "http", "socks", "loadbalance", "quic", "reverse", "tproxy", ""] {
                    let mut m = base.clone();
                    if let Some(node) = get_mut(&mut m, p) {
                        *node = Y::String(special.into());
                        out.push((format!("set {} = {:?}", path_str(p), special), serde_yaml::to_string(&m).unwrap()));
                    }
                }
            }
        }
    }
    out
}

fn site_of(desc: &str) -> String {
    // the mutated key without list indices, e.g. "connectors.name" (input class of the finding)
    let p = desc.split_whitespace().nth(1).unwrap_or("");
    p.split('.').filter(|s| !s.starts_with('[')).collect::<Vec<_>>().join(".")
}

fn norm(msg: &str) -> String {
    let mut out = String::new();
    let mut last_digit = false;
    for c in msg.chars() {
        if c.is_ascii_digit() {
            if !last_digit {
                out.push('N');
            }
            last_digit = true;
        } else {
            last_digit = false;
            out.push(c);
        }
    }
    truncate(&out, 60)
}

// ------------------------------------------------------------------ child-process jobs (stack overflow / abort hazards)

fn run_child(job: &serde_json::Value, timeout_s: u64) -> (Option<i32>, String) {
    let exe = std::env::current_exe().unwrap();
    // the job goes through a file: deep-nesting bodies exceed the size limit of one environment string
    static N: AtomicU64 = AtomicU64::new(0);
    let jobfile = format!("{}/target/c18-scratch/job-{}-{}.json", VERIF_DIR, std::process::id(), N.fetch_add(1, Ordering::Relaxed));
    std::fs::write(&jobfile, job.to_string()).unwrap_or_else(|e| machinery(format!("write job: {e}")));
    let mut child = std::process::Command::new(exe)
        .args(["--exact", "verif::c18::child", "--nocapture", "--test-threads", "1"])
        .env("C18_CHILD_JOB", &jobfile)
        .env("RUST_BACKTRACE", "0")
        .stdout(std::process::Stdio::piped())
        .stderr(std::process::Stdio::piped())
        .spawn()
        .unwrap_or_else(|e| machinery(format!("spawn child: {e}")));
    let start = std::time::Instant::now();
    loop {
        match child.try_wait().unwrap() {
            Some(_) => break,
            None => {
                if start.elapsed().as_secs() > timeout_s {
                    let _ = child.kill();
                    let _ = child.wait();
                    let _ = std::fs::remove_file(&jobfile);
                    return (None, "timeout".into());
                }
                std::thread::sleep(std::time::Duration::from_millis(5));
            }
        }
    }
    let out = child.wait_with_output().unwrap();
    let _ = std::fs::remove_file(&jobfile);
    let text = format!("{}{}", String::from_utf8_lossy(&out.stdout), String::from_utf8_lossy(&out.stderr));
    // libtest prints "test <name> ... " without a newline before the test's own output
    let res = text.lines().find_map(|l| l.find("CHILD-RESULT ").map(|i| l[i + "CHILD-RESULT ".len()..].to_string()));
    use std::os::unix::process::ExitStatusExt;
    let code = out.status.code().or_else(|| out.status.signal().map(|s| -s));
    (code, res.unwrap_or_else(|| format!("no result line; tail: {}", truncate(&text[text.len().saturating_sub(300)..], 300))))
}

#[test]
fn child() {
    let job = match std::env::var("C18_CHILD_JOB") {
        Ok(j) => j,
        Err(_) => return,
    };
    let job: serde_json::Value = serde_json::from_str(&std::fs::read_to_string(&job).expect("job file")).unwrap();
    let dir = job["dir"].as_str().unwrap_or("/tmp").to_string();
    match job["kind"].as_str().unwrap() {
        "lb-graph" => {
            // load the config; if accepted send one probe request to every balancer
            let doc = job["doc"].as_str().unwrap().to_string();
            let r = block_on_timeout(60, async move {
                match load(&doc, &dir).await {
                    Err(e) => format!("rejected:{}", truncate(&e, 80)),
                    Ok(state) => {
                        let mut outcome = vec![];
                        let names: Vec<String> = state.connectors.keys().filter(|k| k.starts_with("lb")).cloned().collect();
                        for n in names {
                            let rules = parse_rules(&format!(r#"[{{"target":"{}"}}]"#, n)).unwrap();
                            state.set_rules(rules).await.unwrap();
                            let r = Req { listener: "l".into(), source: "127.0.0.1:1".parse().unwrap(), target: TargetAddress::SocketAddr("127.0.0.1:9".parse().unwrap()), feature: Feature::TcpForward };
                            let (ctx, _) = make_request(&state, &r, b"", Default::default()).await;
                            crate::process_request(ctx.clone(), state.clone()).await;
                            outcome.push(format!("{}:{}", n, ctx.read().await.props().error.is_some()));
                        }
                        format!("accepted:{}", outcome.join(","))
                    }
                }
            });
            println!("CHILD-RESULT {}", r.unwrap_or_else(|| "hang".into()));
        }
        "rules-json" => {
            let body = job["body"].as_str().unwrap().to_string();
            let state = make_state(vec![Recorder::new("A", &[Feature::TcpForward], Upstream::Ok { origin_sends: vec![] }, Default::default())], 0);
            let r = match serde_json::from_str::<Vec<Arc<crate::rules::Rule>>>(&body) {
                Err(e) => format!("rejected-by-deserializer:{}", truncate(&e.to_string(), 60)),
                Ok(rules) => {
                    let (code, _) = block_on(api::rules_post(state.clone(), rules));
                    if code == 200 {
                        // an accepted list must survive a request
                        let r = Req { listener: "l".into(), source: "127.0.0.1:1".parse().unwrap(), target: TargetAddress::DomainPort("a".into(), 1), feature: Feature::TcpForward };
                        block_on_timeout(30, async {
                            let (ctx, _) = make_request(&state, &r, b"", Default::default()).await;
                            crate::process_request(ctx, state.clone()).await;
                        });
                    }
                    format!("status:{}", code)
                }
            };
            println!("CHILD-RESULT {}", r);
        }
        k => println!("CHILD-RESULT unknown job {k}"),
    }
}

#[test]
fn check() {
    let chk = Check::new("C18");
    let dir = format!("{}/target/c18-scratch", VERIF_DIR);
    let _ = std::fs::remove_dir_all(&dir);
    std::fs::create_dir_all(&dir).unwrap();
    let cases = AtomicU64::new(0);
    let accepted = AtomicU64::new(0);
    let outcomes = Distinct::default();
    let mut samples = vec![];

    // ---- (1) every single-node mutation of every base document
    for (bname, doc) in base_docs(&dir) {
        let ms = mutants(&doc);
        if samples.len() < 3 {
            samples.push(json!({"base": bname, "mutants": ms.len(), "example": ms[ms.len() / 2].0}));
        }
        par_for(ms.len(), |i| {
            let (desc, text) = &ms[i];
            cases.fetch_add(1, Ordering::Relaxed);
            let d = dir.clone();
            let t = text.clone();
            let r = catch(move || block_on_timeout(120, async move { load(&t, &d).await.map(|_| ()) }));
            match r {
                Err(p) => {
                    chk.violation(
                        "config.load",
                        &format!("panic:{}:{}", site_of(desc), norm(&p)),
                        format!("{bname}: {desc}: loading panics (process abort): {p}"),
                        json!({"base": bname, "mutation": desc, "document": text}),
                    );
                }
                Ok(None) => chk.violation("config.load", &format!("hang:{}", site_of(desc)), format!("{bname}: {desc}: loading does not finish"), json!({"base": bname, "mutation": desc, "document": text})),
                Ok(Some(Ok(()))) => {
                    accepted.fetch_add(1, Ordering::Relaxed);
                    outcomes.add(&(bname, "accepted"));
                }
                Ok(Some(Err(e))) => outcomes.add(&(bname, norm(&e))),
            }
        });
    }

    // ---- (2) all load-balancer member digraphs on 1..3 balancers + 1 direct connector (child processes)
    let max_lb = if chk.thorough() { 3 } else { 2 };
    let mut graphs: Vec<(String, String)> = vec![];
    for nlb in 1..=max_lb {
        let nodes: Vec<String> = (0..nlb).map(|i| format!("lb{}", i)).chain(["direct".to_string()]).collect();
        let subsets: Vec<Vec<String>> = (1..(1u32 << nodes.len())).map(|m| nodes.iter().enumerate().filter(|(i, _)| m & (1 << i) != 0).map(|(_, n)| n.clone()).collect()).collect();
        let mut idx = vec![0usize; nlb];
        loop {
            let mut doc = String::from("apiVersion: v1alpha\nkind: ProxyDefinition\nlisteners: []\nrules: []\nconnectors:\n  - name: direct\n");
            let mut desc = vec![];
            for (i, &si) in idx.iter().enumerate() {
                doc += &format!("  - name: lb{}\n    type: loadbalance\n    connectors: [{}]\n", i, subsets[si].join(", "));
                desc.push(format!("lb{}->[{}]", i, subsets[si].join(",")));
            }
            graphs.push((desc.join(" "), doc));
            let mut k = 0;
            loop {
                if k == nlb {
                    break;
                }
                idx[k] += 1;
                if idx[k] < subsets.len() {
                    break;
                }
                idx[k] = 0;
                k += 1;
            }
            if k == nlb {
                break;
            }
        }
    }
    let graph_n = graphs.len();
    par_for(graphs.len(), |i| {
        let (desc, doc) = &graphs[i];
        cases.fetch_add(1, Ordering::Relaxed);
        let (code, res) = run_child(&json!({"kind": "lb-graph", "doc": doc, "dir": dir}), 90);
        outcomes.add(&("lb-graph", res.split(':').next().unwrap_or("").to_string(), code));
        let cyclic = {
            // reference: a cycle reachable among balancers
            let edges: Vec<(usize, usize)> = desc.split(' ').enumerate().flat_map(|(i, d)| {
                let inner = d.split("->[").nth(1).unwrap_or("").trim_end_matches(']').to_string();
                inner.split(',').filter_map(|m| m.strip_prefix("lb").and_then(|x| x.parse::<usize>().ok())).map(|j| (i, j)).collect::<Vec<_>>()
            }).collect();
            let n = desc.split(' ').count();
            let mut reach = vec![vec![false; n]; n];
            for (a, b) in &edges {
                reach[*a][*b] = true;
            }
            for k in 0..n {
                for a in 0..n {
                    for b in 0..n {
                        if reach[a][k] && reach[k][b] {
                            reach[a][b] = true;
                        }
                    }
                }
            }
            (0..n).any(|a| reach[a][a])
        };
        let replay = json!({"graph": desc, "document": doc, "child_exit": code, "child_result": res});
        match code {
            Some(0) if res.starts_with("accepted") || res.starts_with("rejected") => {
                if res.starts_with("accepted") {
                    accepted.fetch_add(1, Ordering::Relaxed);
                }
            }
            Some(0) if res == "hang" => chk.violation("loadbalance.graph", if cyclic { "cycle-accepted-then-request-never-ends" } else { "request-never-ends" }, format!("{desc}: {res}"), replay),
            None => chk.violation("loadbalance.graph", if cyclic { "cycle-accepted-then-request-never-ends" } else { "request-never-ends" }, format!("{desc}: child timed out"), replay),
            Some(c) => chk.violation(
                "loadbalance.graph",
                if cyclic { "cycle-accepted-then-crash-on-first-request" } else { "crash" },
                format!("{desc}: configuration accepted, first request kills the process (exit {c}): {}", truncate(&res, 160)),
                replay,
            ),
        }
    });
    samples.push(json!({"lb_graph": graphs[graphs.len() / 2].0}));

    // ---- (3) rule lists posted as JSON: every mutation of a 3-rule list, and nesting depth
    let base_rules = json!([
        {"filter": "request.target.port == 80 && request.listener =~ \"^l\"", "target": "A"},
        {"filter": "cidr_match(request.source.host, \"10.0.0.0/8\")", "target": "deny"},
        {"target": "A"}
    ]);
    let mut bodies: Vec<(String, String)> = vec![("unchanged".into(), base_rules.to_string())];
    let repl: Vec<serde_json::Value> = vec![json!(1), json!(-1), json!(1.5), json!("x"), json!(""), json!(true), json!(null), json!([1]), json!({"a": 1}), json!("request.target.port"), json!("1 +"), json!("(1, 2).5"), json!("nosuch(1)"), json!("request.nosuch"), json!("[][0]"), json!("1/0 == 1")];
    for i in 0..3 {
        for key in ["filter", "target", "stats", "extra"] {
            for r in &repl {
                let mut m = base_rules.clone();
                m[i][key] = r.clone();
                bodies.push((format!("rules[{i}].{key} = {}", r), m.to_string()));
            }
            let mut m = base_rules.clone();
            m[i].as_object_mut().unwrap().remove(key);
            bodies.push((format!("delete rules[{i}].{key}"), m.to_string()));
        }
        for r in &repl {
            let mut m = base_rules.clone();
            m[i] = r.clone();
            bodies.push((format!("rules[{i}] = {}", r), m.to_string()));
        }
    }
    for r in &repl {
        bodies.push((format!("body = {}", r), r.to_string()));
    }
    let depths: Vec<usize> = if chk.thorough() { vec![10, 100, 1000, 10_000, 100_000] } else { vec![10, 100, 1000, 10_000] };
    for &d in &depths {
        let forms: Vec<(&str, String)> = vec![
            ("parentheses", format!("{}1{} == 1", "(".repeat(d), ")".repeat(d))),
            ("arrays", format!("{}1{} == 1", "[".repeat(d), "]".repeat(d))),
            ("unary-not", format!("{}true", "!".repeat(d))),
            ("unary-minus", format!("{}1 == 1", "-".repeat(d))),
            ("let", format!("{}true", "let x = 1 in ".repeat(d))),
            ("if", format!("{}true{}", "if true then ".repeat(d), " else false".repeat(d))),
            ("ternary", format!("{}true", "true ? true : ".repeat(d))),
            ("plus-chain", format!("{}1 == 1", "1 + ".repeat(d))),
            ("calls", format!("{}\"1\"{} == \"1\"", "to_string(".repeat(d), ")".repeat(d))),
            ("template", format!("{}x{} == \"x\"", "`${".repeat(d), "}`".repeat(d))),
        ];
        for (fname, f) in forms {
            bodies.push((format!("nesting:{fname}:depth={d}"), json!([{"filter": f, "target": "A"}]).to_string()));
        }
    }
    let bodies_n = bodies.len();
    par_for(bodies.len(), |i| {
        let (desc, body) = &bodies[i];
        cases.fetch_add(1, Ordering::Relaxed);
        let (code, res) = run_child(&json!({"kind": "rules-json", "body": body}), 120);
        outcomes.add(&("rules-json", res.split(':').next().unwrap_or("").to_string(), code));
        let class_of = |what: &str| {
            if desc.starts_with("nesting:") {
                let mut it = desc.split(':');
                it.next();
                format!("{what}:nesting:{}", it.next().unwrap_or(""))
            } else {
                format!("{what}:{}", desc.split(" = ").next().unwrap_or(desc).replace(|c: char| c.is_ascii_digit(), "N"))
            }
        };
        let replay = json!({"mutation": desc, "body": truncate(body, 2000), "child_exit": code, "child_result": res});
        match code {
            Some(0) if res.starts_with("status:") || res.starts_with("rejected") => {
                if res == "status:200" {
                    accepted.fetch_add(1, Ordering::Relaxed);
                }
            }
            None => chk.violation("rules.post", &class_of("hang"), format!("{desc}: posting this rule list does not finish"), replay),
            Some(c) => chk.violation("rules.post", &class_of("crash"), format!("{desc}: posting this rule list kills the process (exit {c}): {}", truncate(&res, 120)), replay),
        }
    });
    samples.push(json!({"rules_json": bodies[bodies.len() / 3].0}));

    let n = cases.load(Ordering::Relaxed);
    if chk.violation_count() == 0 && (n < 2000 || outcomes.len() < 15 || accepted.load(Ordering::Relaxed) < 10) {
        machinery(format!("vacuous: cases={n} outcomes={} accepted={}", outcomes.len(), accepted.load(Ordering::Relaxed)));
    }
    let coverage = json!({
        "exhaustive": true,
        "states": outcomes.len(), "transitions": n, "traces_validated_against_impl": n,
        "evaluations": n, "distinct_nontrivial": outcomes.len(),
        "rule": "every YAML node of 3 base documents (shipped config.yaml, a minimal document with every listener/connector kind, a quic/tls document): deleted, replaced by each of 10 values of other types, list entries duplicated, name/type/target set to 10 special strings; every member digraph of 1..2 (thorough 3) balancers + direct, with a probe request per balancer in a child process; a 3-rule JSON list with every field mutated by 16 values + 10 nesting forms x depths 10..10000 (thorough 100000) posted through the real handler in child processes. distinct = distinct (document, outcome class) pairs",
        "accepted": accepted.load(Ordering::Relaxed), "lb_graphs": graph_n, "rule_bodies": bodies_n,
        "samples": samples,
    });
    let _ = std::fs::remove_dir_all(&dir);
    chk.finish(
        "model_checking",
        coverage,
        vec![
            "load() mirrors main()'s start-up sequence; clap argument handling, listener binding and the metrics server start-up are exercised by the real-binary part".into(),
            "a child process that dies from a signal or non-zero exit stands for the proxy dying".into(),
        ],
    );
}
