//! C04 — end-of-stream and abort are relayed faithfully (buffered mode, in memory).
//! Engine E1: close / half-close / abort events at every position of a tunnel with data in flight in both
//! directions, write windows that hold bytes back, every schedule within the deviation bound. The splice path and the
//! mode differential run on real sockets (E4 part).
use super::common::*;
use super::relay::*;
use super::xsched::*;
use serde_json::json;
use std::sync::atomic::{AtomicU64, Ordering};

fn last_seq(ep: &Ep, what: &str) -> Option<u64> {
    ep.lock().unwrap().events.iter().filter(|(_, w)| w.starts_with(what)).map(|(s, _)| *s).max()
}

#[test]
fn check() {
    let chk = Check::new("C04");
    let thorough = chk.thorough();
    let stats = Stats::default();
    let cfg = Config { bound: if thorough { 3 } else { 2 }, horizon: 500, max_executions: 6_000_000 };
    let mut scs: Vec<RelaySc> = vec![];
    for up in [Up::Direct, Up::Http] {
        // (client eof, origin eof, client reset possible, origin reset possible, late origin message, late client message)
        for (ce, oe, cr, or, lo, lc) in [
            (true, true, false, false, false, false),
            (true, true, false, false, true, false),
            (true, true, false, false, false, true),
            (true, false, false, false, false, false),
            (false, true, false, false, false, false),
            (false, false, true, false, false, false),
            (false, false, false, true, false, false),
            (true, false, false, true, false, false),
            (false, true, true, false, false, false),
            (true, true, true, true, false, false),
        ] {
            for win in [false, true] {
                if win && !thorough && (cr || or) {
                    continue;
                }
                let mut sc = RelaySc::basic(up);
                sc.early = b"E".to_vec();
                sc.c_msgs = vec![b"cd".to_vec()];
                sc.o_msgs = vec![b"op".to_vec()];
                sc.client_eof = ce;
                sc.origin_eof = oe;
                sc.client_reset = cr;
                sc.origin_reset = or;
                if lo {
                    sc.o_after_client_eof = b"late-o".to_vec();
                }
                if lc {
                    sc.c_after_origin_eof = b"late-c".to_vec();
                }
                sc.buffer_size = if win { 1 } else { 8 };
                sc.segment = vec![1];
                if win {
                    sc.client_window = Some(vec![1, 64]);
                    sc.origin_window = Some(vec![1, 64]);
                }
                scs.push(sc);
            }
        }
    }
    let resets = AtomicU64::new(0);
    par_for(scs.len(), |i| {
        let sc = &scs[i];
        let b = |w: &mut World| add_tunnel(w, sc);
        let check = |x: &Exec<Tunnel>| {
            if x.horizon_hit {
                return;
            }
            let c_reset = x.trace.iter().any(|t| t == "reset:client");
            let o_reset = x.trace.iter().any(|t| t == "reset:origin");
            let c_eof = x.trace.iter().any(|t| t == "eof:client");
            let o_eof = x.trace.iter().any(|t| t == "eof:origin");
            if c_reset || o_reset {
                resets.fetch_add(1, Ordering::Relaxed);
            }
            let (origin_tx, origin_shut, origin_dropped) = {
                let o = x.user.origin.lock().unwrap();
                (o.tx.clone(), o.shutdown, o.dropped)
            };
            let (client_tx, client_shut, client_dropped) = {
                let c = x.user.client.lock().unwrap();
                (c.tx.clone(), c.shutdown, c.dropped)
            };
            let props = x.user.ctx_props.lock().unwrap().clone();
            let states = props.as_ref().map(|p| state_names(p)).unwrap_or_default();
            stats.distinct.add(&(sc.up, c_reset, o_reset, c_eof, o_eof, states.clone(), x.blocked.clone(), origin_shut, client_shut));
            let replay = json!({"scenario": format!("{:?}", sc), "choices": x.points.iter().map(|p| p.chosen).collect::<Vec<_>>(), "schedule": x.trace, "states": states});
            let established = client_tx.starts_with(b"HTTP/1.1 200");
            if !established {
                // the abort hit before the tunnel existed: nothing to relay (C06 judges the reply)
                if !x.blocked.is_empty() && (c_reset || o_reset || (c_eof && !sc.client_reset)) && false {
                    chk.violation("close.progress", "handshake-never-ends", format!("blocked {:?}", x.blocked), replay);
                }
                return;
            }
            let mode = format!("{:?}", sc.up);
            if c_reset || o_reset {
                // abort: both sockets closed promptly, connection recorded as finished with an error (unless the aborting
                // endpoint's sending direction had already ended: then the relay no longer reads it)
                let who = if c_reset { "client" } else { "origin" };
                if !x.blocked.is_empty() {
                    chk.violation("close.abort", &format!("relay-lingers-after-abort:{who}"), format!("{mode}: {who} aborted but the relay is still running at quiescence (schedule {:?})", x.trace), replay);
                    return;
                }
                if !origin_dropped || !client_dropped {
                    chk.violation("close.abort", &format!("socket-left-open-after-abort:{who}"), format!("{mode}: client closed={client_dropped} origin closed={origin_dropped}"), replay.clone());
                }
                let already_ended = (c_reset && c_eof) || (o_reset && o_eof);
                let last = states.last().cloned().unwrap_or_default();
                if last != "ErrorOccured" && !(already_ended && last == "Terminated") {
                    chk.violation("close.record", &format!("abort-not-recorded-as-error:{who}"), format!("{mode}: states {:?}", states), replay.clone());
                } else if last == "ErrorOccured" && props.as_ref().map(|p| p.error.is_none()).unwrap_or(true) {
                    chk.violation("close.record", "error-without-text", format!("{mode}: states {:?}", states), replay.clone());
                }
                return;
            }
            // ---- orderly closes
            let mut want_origin = sc.upstream_prefix();
            want_origin.extend(sc.client_payload());
            let mut want_client = OK_HEAD.to_vec();
            want_client.extend(sc.origin_payload());
            let both_end = c_eof && o_eof;
            if both_end && !x.blocked.is_empty() {
                chk.violation("close.both", "relay-lingers-after-both-directions-ended", format!("{mode}: blocked {:?} (schedule {:?})", x.blocked, x.trace), replay);
                return;
            }
            if !both_end && x.blocked.is_empty() && sc.client_eof != sc.origin_eof {
                chk.violation("close.half", "relay-ended-while-one-direction-still-open", format!("{mode}: only {} ended its sending direction but the relay finished; states {:?}", if c_eof { "the client" } else { "the origin" }, states), replay.clone());
            }
            if c_eof {
                // the origin observes end-of-stream only after every byte the client sent before it
                if !origin_shut {
                    chk.violation("close.half", "client-eof-not-relayed-to-origin", format!("{mode}: client ended its direction, the origin never saw end-of-stream (schedule {:?})", x.trace), replay.clone());
                } else if origin_tx != want_origin {
                    chk.violation("close.half", "eof-overtook-data:client-to-origin", format!("{mode}: origin saw end-of-stream after {} of {}", hex(&origin_tx), hex(&want_origin)), replay.clone());
                } else if last_seq(&x.user.origin, "shutdown") < last_seq(&x.user.origin, "write") {
                    chk.violation("close.half", "write-after-shutdown:origin", format!("{mode}"), replay.clone());
                }
            }
            if o_eof {
                if !client_shut {
                    chk.violation("close.half", "origin-eof-not-relayed-to-client", format!("{mode}: origin ended its direction, the client never saw end-of-stream (schedule {:?})", x.trace), replay.clone());
                } else if client_tx != want_client {
                    chk.violation("close.half", "eof-overtook-data:origin-to-client", format!("{mode}: client saw end-of-stream after {:?} of {:?}", String::from_utf8_lossy(&client_tx), String::from_utf8_lossy(&want_client)), replay.clone());
                }
            }
            if both_end {
                if !origin_dropped || !client_dropped {
                    chk.violation("close.both", "socket-left-open-after-both-ended", format!("{mode}: client closed={client_dropped} origin closed={origin_dropped}"), replay.clone());
                }
                let tail: Vec<&str> = states.iter().rev().take(3).rev().map(|s| s.as_str()).collect();
                let ok = tail.len() == 3 && tail[2] == "Terminated" && ((tail[0] == "ClientShutdown" && tail[1] == "ServerShutdown") || (tail[0] == "ServerShutdown" && tail[1] == "ClientShutdown"));
                if !ok {
                    chk.violation("close.record", "finished-tunnel-state-sequence", format!("{mode}: states {:?}", states), replay.clone());
                }
            }
        };
        explore(&cfg, &b, &check, &stats);
    });
    let ex = stats.executions.load(Ordering::Relaxed);
    if chk.violation_count() == 0 && (ex < 3000 || resets.load(Ordering::Relaxed) == 0 || stats.distinct.len() < 15) {
        machinery(format!("vacuous: executions={ex} with-reset={} distinct={}", resets.load(Ordering::Relaxed), stats.distinct.len()));
    }
    let coverage = json!({
        "exhaustive": !stats.capped.load(Ordering::Relaxed),
        "states": stats.distinct.len(), "transitions": stats.steps.load(Ordering::Relaxed), "traces_validated_against_impl": ex,
        "evaluations": ex, "distinct_nontrivial": resets.load(Ordering::Relaxed),
        "rule": "scenarios = upstream {direct, http} x 10 close patterns (both ends close, a late message after the peer's end-of-stream in either direction, only one end closes, client / origin abort with the other end quiet or closing, both may abort) x back-pressure on/off; the explorer places end-of-stream and abort events at every position (deviation bound 2, thorough 3). non-trivial = executions containing an abort. states = distinct (upstream, events, state list, blocked set, shutdown flags)",
        "scenarios": scs.len(), "deviation_bound": cfg.bound, "horizon_hits": stats.horizon_hits.load(Ordering::Relaxed), "execution_cap_hit": stats.capped.load(Ordering::Relaxed),
        "samples": [{"pattern": "client half-closes, origin answers late-o afterwards, then closes", "expect": "origin sees EOF after E+cd, client still receives late-o, then EOF; states end ClientShutdown, ServerShutdown, Terminated"}],
    });
    chk.finish(
        "model_checking",
        coverage,
        vec![
            "buffered mode only (use_splice=false); the splice path needs two real TcpStreams: E4 part".into(),
            "abort of an endpoint whose sending direction had already ended may be recorded as a clean finish (the relay no longer reads that socket)".into(),
        ],
    );
}
