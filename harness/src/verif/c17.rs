//! C17 — load-balancer selection laws.
//! (1) E3 loom: the real LoadBalanceConnector::connect driven from 2-3 loom threads (the cursor is a loom atomic
//!     under cfg(redproxy_verif_loom)), all interleavings: every member selected exactly k times in k*n selections.
//! (2) E2: sequential laws for every member count / cursor offset / window; hashBy stickiness over key expressions
//!     and request streams (including the same key string reached through different address forms); random.
use super::common::*;
use super::world::*;
use crate::connectors::Connector;
use crate::context::{Feature, TargetAddress};
use crate::GlobalState;
use serde_json::json;
use std::sync::Arc;

fn lb_from_yaml(yaml: &str) -> Result<Box<dyn Connector>, String> {
    let v: serde_yaml::Value = serde_yaml::from_str(yaml).map_err(|e| e.to_string())?;
    crate::connectors::from_value(&v).map_err(|e| e.to_string())
}

fn members(n: usize, log: &Log) -> Vec<Arc<dyn Connector>> {
    (0..n).map(|i| Recorder::new(&format!("m{}", i), &[Feature::TcpForward], Upstream::Ok { origin_sends: vec![] }, log.clone()) as Arc<dyn Connector>).collect()
}

fn lb_yaml(n: usize, algo: &str) -> String {
    let names: Vec<String> = (0..n).map(|i| format!("m{}", i)).collect();
    format!("name: lb\ntype: loadbalance\nconnectors: [{}]\n{}", names.join(", "), algo)
}

/// one selection through the real connect(); returns (member whose recorder ran, member recorded in the context)
async fn select(lb: &Arc<dyn Connector>, state: &Arc<GlobalState>, log: &Log, r: &Req) -> Result<(String, Option<String>), String> {
    let before = log.lock().unwrap().len();
    let (ctx, _) = make_request(state, r, b"", Default::default()).await;
    lb.clone().connect(state.clone(), ctx.clone()).await.map_err(|e| e.to_string())?;
    let l = log.lock().unwrap();
    if l.len() != before + 1 {
        return Err(format!("{} members contacted for one selection", l.len() - before));
    }
    let used = l[before].trim_start_matches("connect:").to_string();
    let rec = ctx.read().await.props().connector.clone();
    Ok((used, rec))
}

fn req(listener: &str, source: &str, target: TargetAddress) -> Req {
    Req { listener: listener.into(), source: source.parse().unwrap(), target, feature: Feature::TcpForward }
}

#[cfg(not(redproxy_verif_loom))]
#[test]
fn check() {
    let chk = Check::new("C17");
    let mut selections = 0u64;
    let outcomes = Distinct::default();
    let mut samples = vec![];

    // ---- round robin: every member count in member_counts, every cursor offset 0..2n, every window of k*n selections (k = 1..3)
    // member counts: every count up to a dozen (a shortcut for "even" or "power of two" lengths shows at 6, 10, 12), the
    // neighbours of 16, and more in the thorough tier
    let member_counts: Vec<usize> = if chk.thorough() { (1..=24).chain([31, 32, 33, 48, 64, 65]).collect() } else { (1..=12).chain([16, 17]).collect() };
    for &n in &member_counts {
        for offset in 0..=2 * n {
            for k in 1..=3usize {
                let log: Log = Default::default();
                let mut cs = members(n, &log);
                let lb: Arc<dyn Connector> = match catch(|| lb_from_yaml(&lb_yaml(n, "algo: rr"))) {
                    Ok(Ok(mut b)) => {
                        block_on(b.init()).expect("init");
                        Arc::from(b)
                    }
                    other => machinery(format!("cannot build round-robin balancer: {:?}", other.map(|r| r.map(|_| ())))),
                };
                cs.push(lb.clone());
                let state = make_state(cs, 0);
                block_on(lb.verify(state.clone())).expect("verify");
                let r = req("l", "127.0.0.1:1", TargetAddress::DomainPort("t".into(), 80));
                let mut counts = vec![0usize; n];
                let mut bad = None;
                for i in 0..offset + k * n {
                    selections += 1;
                    match catch(|| block_on(select(&lb, &state, &log, &r))) {
                        Ok(Ok((used, rec))) => {
                            if rec.as_deref() != Some(used.as_str()) {
                                bad = Some(format!("selection {i}: used {used} but recorded {:?}", rec));
                            }
                            let idx: Option<usize> = used.strip_prefix('m').and_then(|x| x.parse().ok());
                            match idx {
                                Some(j) if j < n => {
                                    if i >= offset {
                                        counts[j] += 1
                                    }
                                }
                                _ => bad = Some(format!("selection {i}: {used} is not a configured member")),
                            }
                        }
                        Ok(Err(e)) => bad = Some(format!("selection {i} failed: {e}")),
                        Err(p) => bad = Some(format!("selection {i} panicked: {p}")),
                    }
                }
                outcomes.add(&(n, counts.clone()));
                if bad.is_none() && counts.iter().any(|&c| c != k) {
                    bad = Some(format!("window of {} selections after offset {offset}: counts {:?}, expected {k} each", k * n, counts));
                }
                if let Some(b) = bad {
                    chk.violation("loadbalance.round_robin", "uneven-or-foreign-selection", format!("n={n}: {b}"), json!({"members": n, "offset": offset, "k": k}));
                }
            }
        }
    }
    samples.push(json!({"round_robin": {"members": 3, "offset": 4, "window": 6, "expected_counts": [2, 2, 2]}}));

    // ---- nested balancers and failing members: whatever the path through the balancers, the connection's record names
    //      the member that was actually asked to connect (the leaf), also when that member refuses
    {
        // (name, members) per balancer; leaves m0..m2 accept, bad refuses
        let graphs: Vec<Vec<(&str, Vec<&str>)>> = vec![
            vec![("outer", vec!["inner"]), ("inner", vec!["m0", "m1"])],
            vec![("outer", vec!["inner", "m2"]), ("inner", vec!["m0", "m1"])],
            vec![("outer", vec!["mid"]), ("mid", vec!["inner"]), ("inner", vec!["m0"])],
            vec![("outer", vec!["bad"])],
            vec![("outer", vec!["inner"]), ("inner", vec!["bad"])],
            vec![("outer", vec!["inner"]), ("inner", vec!["m0", "bad"])],
        ];
        for algo in ["algo: rr", "algo: random", "algo:\n  hashBy: request.target.host"] {
            for g in &graphs {
                let log: Log = Default::default();
                let mut cs = members(3, &log);
                cs.push(Recorder::new("bad", &[Feature::TcpForward], Upstream::Refuse, log.clone()) as Arc<dyn Connector>);
                let mut first = None;
                for (name, ms) in g {
                    let yaml = format!("name: {}\ntype: loadbalance\nconnectors: [{}]\n{}", name, ms.join(", "), algo);
                    let lb: Arc<dyn Connector> = match catch(|| lb_from_yaml(&yaml)) {
                        Ok(Ok(mut b)) => {
                            block_on(b.init()).expect("init");
                            Arc::from(b)
                        }
                        other => machinery(format!("cannot build balancer {name}: {:?}", other.map(|r| r.map(|_| ())))),
                    };
                    if first.is_none() {
                        first = Some(lb.clone());
                    }
                    cs.push(lb);
                }
                let outer = first.unwrap();
                let state = make_state(cs, 0);
                let r = req("l", "127.0.0.1:1", TargetAddress::DomainPort("t".into(), 80));
                for i in 0..6 {
                    selections += 1;
                    let before = log.lock().unwrap().len();
                    let res = catch(|| {
                        block_on(async {
                            let (ctx, _) = make_request(&state, &r, b"", Default::default()).await;
                            let res = outer.clone().connect(state.clone(), ctx.clone()).await;
                            let rec = ctx.read().await.props().connector.clone();
                            (res.is_ok(), rec)
                        })
                    });
                    let contacted: Vec<String> = log.lock().unwrap()[before..].iter().map(|l| l.trim_start_matches("connect:").to_string()).collect();
                    let shape = format!("{:?} {}", g, algo.replace('\n', " "));
                    match res {
                        Err(p) => chk.violation("loadbalance.record", "panic", format!("{shape}: {p}"), json!({"graph": format!("{:?}", g)})),
                        Ok((ok, rec)) => {
                            outcomes.add(&("nested", g.len(), ok, contacted.len()));
                            if contacted.len() != 1 {
                                chk.violation("loadbalance.record", "not-exactly-one-member-contacted", format!("{shape} selection {i}: contacted {:?}", contacted), json!({"graph": format!("{:?}", g)}));
                            } else if rec.as_deref() != Some(contacted[0].as_str()) {
                                let class = if ok { "recorded-member-differs:nested" } else { "recorded-member-differs:member-refused" };
                                chk.violation("loadbalance.record", class, format!("{shape} selection {i}: member {} was asked to connect (success: {ok}), the connection records {:?}", contacted[0], rec), json!({"graph": format!("{:?}", g), "algo": algo, "used": contacted[0], "recorded": rec}));
                            }
                        }
                    }
                }
            }
        }
        samples.push(json!({"nested": {"graphs": graphs.len(), "algorithms": 3, "selections_each": 6}}));
    }

    // ---- several round-robin balancers in one configuration: every balancer rotates on its own, whatever the other
    //      balancers are asked meanwhile (interleaved request streams) and also when one balancer is a member of another
    {
        let log: Log = Default::default();
        let mut cs = members(5, &log);
        let mut lbs: Vec<(String, Vec<String>, Arc<dyn Connector>)> = vec![];
        for (name, ms) in [("lb1", vec!["m0", "m1"]), ("lb2", vec!["m2", "m3", "m4"]), ("top", vec!["lb1", "lb2"])] {
            let yaml = format!("name: {}\ntype: loadbalance\nconnectors: [{}]\nalgo: rr", name, ms.join(", "));
            let lb: Arc<dyn Connector> = match catch(|| lb_from_yaml(&yaml)) {
                Ok(Ok(mut b)) => {
                    block_on(b.init()).expect("init");
                    Arc::from(b)
                }
                other => machinery(format!("cannot build balancer {name}: {:?}", other.map(|r| r.map(|_| ())))),
            };
            lbs.push((name.to_string(), ms.iter().map(|m| m.to_string()).collect(), lb.clone()));
            cs.push(lb);
        }
        let state = make_state(cs, 0);
        let r = req("l", "127.0.0.1:1", TargetAddress::DomainPort("t".into(), 80));
        // leaf -> which direct balancer it belongs to
        let owner = |leaf: &str| if leaf == "m0" || leaf == "m1" { "lb1" } else { "lb2" };
        // request streams: which balancer is asked, step by step
        let streams: Vec<(&str, Vec<usize>)> = vec![
            ("alternating lb1, lb2", (0..24).map(|i| i % 2).collect()),
            ("lb1, lb1, lb2", (0..24).map(|i| if i % 3 == 2 { 1 } else { 0 }).collect()),
            ("lb1, lb2, lb2", (0..24).map(|i| if i % 3 == 0 { 0 } else { 1 }).collect()),
            ("top only", vec![2; 24]),
            ("top, lb1, top, lb2", (0..24).map(|i| [2, 0, 2, 1][i % 4]).collect()),
        ];
        for (sname, stream) in &streams {
            // what each balancer handed out, in order (a selection through `top` counts for `top` and for the inner one)
            let mut picked: std::collections::BTreeMap<String, Vec<String>> = Default::default();
            for &which in stream {
                selections += 1;
                let before = log.lock().unwrap().len();
                let entry = lbs[which].2.clone();
                let ok = catch(|| {
                    block_on(async {
                        let (ctx, _) = make_request(&state, &r, b"", Default::default()).await;
                        entry.connect(state.clone(), ctx.clone()).await.is_ok()
                    })
                });
                let contacted: Vec<String> = log.lock().unwrap()[before..].iter().map(|l| l.trim_start_matches("connect:").to_string()).collect();
                if !matches!(ok, Ok(true)) || contacted.len() != 1 {
                    chk.violation("loadbalance.round_robin", "selection-failed:several-balancers", format!("{sname}: {:?} contacted {:?}", ok, contacted), json!({"stream": sname}));
                    continue;
                }
                let leaf = contacted[0].clone();
                let inner = owner(&leaf).to_string();
                picked.entry(inner.clone()).or_default().push(leaf);
                if which == 2 {
                    picked.entry("top".into()).or_default().push(inner);
                }
            }
            for (bname, ms, _) in &lbs {
                let seq = picked.get(bname).cloned().unwrap_or_default();
                let n = ms.len();
                outcomes.add(&("several", *sname, bname.clone(), seq.len()));
                for w in seq.windows(n) {
                    let mut sorted: Vec<&String> = w.iter().collect();
                    sorted.sort();
                    sorted.dedup();
                    if sorted.len() != n {
                        chk.violation(
                            "loadbalance.round_robin",
                            "uneven-selection:several-balancers",
                            format!("request stream \"{sname}\": balancer {bname} {:?} handed out {:?} - a window of {n} consecutive selections without each member once", ms, seq),
                            json!({"stream": sname, "balancer": bname, "sequence": seq}),
                        );
                        break;
                    }
                }
            }
        }
        samples.push(json!({"several_round_robin_balancers": {"balancers": ["lb1[m0,m1]", "lb2[m2,m3,m4]", "top[lb1,lb2]"], "streams": streams.iter().map(|s| s.0).collect::<Vec<_>>()}}));
    }

    // ---- a hash-by balancer that requests reach by different routes (named by a rule directly, through one balancer,
    //      through two): the member depends on the key only, not on how the request got there
    {
        let log: Log = Default::default();
        let mut cs = members(4, &log);
        let mut entries: Vec<(String, Arc<dyn Connector>)> = vec![];
        for (name, ms, algo) in [
            ("pool", "m0, m1, m2, m3", "algo:\n  hashBy: request.target.host"),
            ("tier", "pool", "algo: rr"),
            ("tier2", "tier", "algo: rr"),
            ("side", "pool, pool", "algo: random"),
        ] {
            let yaml = format!("name: {}\ntype: loadbalance\nconnectors: [{}]\n{}", name, ms, algo);
            let lb: Arc<dyn Connector> = match catch(|| lb_from_yaml(&yaml)) {
                Ok(Ok(mut b)) => {
                    block_on(b.init()).expect("init");
                    Arc::from(b)
                }
                other => machinery(format!("cannot build balancer {name}: {:?}", other.map(|r| r.map(|_| ())))),
            };
            entries.push((name.to_string(), lb.clone()));
            cs.push(lb);
        }
        let state = make_state(cs, 0);
        let mut used_members = std::collections::BTreeSet::new();
        for h in 0..16 {
            let host = format!("host{:02}.example", h);
            let r = req("l", "127.0.0.1:1", TargetAddress::DomainPort(host.clone(), 80));
            let mut seen: Vec<(String, String)> = vec![];
            for round in 0..2 {
                for (ename, entry) in &entries {
                    selections += 1;
                    let before = log.lock().unwrap().len();
                    let res = catch(|| {
                        block_on(async {
                            let (ctx, _) = make_request(&state, &r, b"", Default::default()).await;
                            entry.clone().connect(state.clone(), ctx.clone()).await.is_ok()
                        })
                    });
                    let contacted: Vec<String> = log.lock().unwrap()[before..].iter().map(|l| l.trim_start_matches("connect:").to_string()).collect();
                    match res {
                        Ok(true) if contacted.len() == 1 => {
                            used_members.insert(contacted[0].clone());
                            seen.push((format!("{ename}#{round}"), contacted[0].clone()));
                        }
                        other => chk.violation("loadbalance.hash_by", "selection-failed:routes", format!("{host} via {ename}: {:?} contacted {:?}", other, contacted), json!({"host": host, "entry": ename})),
                    }
                }
            }
            outcomes.add(&("routes", seen.iter().map(|(_, m)| m.clone()).collect::<std::collections::BTreeSet<_>>().len()));
            if seen.iter().any(|(_, m)| *m != seen[0].1) {
                chk.violation(
                    "loadbalance.hash_by",
                    "same-key-different-member:by-route",
                    format!("key {host}: the hash-by balancer picked {:?} depending on the route by which the request reached it", seen),
                    json!({"host": host, "selections": seen.iter().map(|(e, m)| format!("{e}->{m}")).collect::<Vec<_>>()}),
                );
            }
        }
        if chk.violation_count() == 0 && used_members.len() < 2 {
            machinery(format!("routes part is vacuous: 16 keys all went to {:?}", used_members));
        }
        samples.push(json!({"hash_by_routes": {"entries": ["pool", "tier -> pool", "tier2 -> tier -> pool", "side -> pool"], "keys": 16, "rounds": 2}}));
    }

    // ---- hashBy: equal key value => equal member; member configured; recorded == used; non-string keys rejected
    let keys: Vec<(&str, fn(&Req) -> String)> = vec![
        ("request.source.host", |r| r.source.ip().to_string()),
        ("request.target.host", |r| r.target.host()),
        ("request.listener", |r| r.listener.clone()),
        ("request.target", |r| r.target.to_string()),
        ("request.source", |r| r.source.to_string()),
        ("`${request.listener}-${request.target.host}`", |r| format!("{}-{}", r.listener, r.target.host())),
        ("to_string(request.target.port)", |r| r.target.port().to_string()),
        // the same keys behind the language's wrappers: a name, a chain of names, a conditional, an aggregate. A key
        // the loader refuses is no key (a limitation, marked `?`); one it accepts is a function of the request
        ("?let h = request.target.host in h", |r| r.target.host()),
        ("?let h = request.target.host in let k = h in k", |r| r.target.host()),
        ("?let a = request.listener in let b = a in let c = b in c", |r| r.listener.clone()),
        ("?let h = request.target.host in `${h}`", |r| r.target.host()),
        ("?if request.target.port == 0 then request.listener else request.target.host", |r| if r.target.port() == 0 { r.listener.clone() } else { r.target.host() }),
        ("?[request.target.host][0]", |r| r.target.host()),
        ("?(request.target.host, 1).0", |r| r.target.host()),
        ("?let t = request.target in t.host", |r| r.target.host()),
    ];
    // request pool: the same key strings are reached through different address forms / different other attributes
    let pool: Vec<Req> = {
        let mut v = vec![];
        for l in ["l1", "l2"] {
            for s in ["127.0.0.1:1000", "127.0.0.1:2000", "[::1]:1000"] {
                for t in [
                    TargetAddress::DomainPort("10.0.0.2".into(), 443),
                    TargetAddress::SocketAddr("10.0.0.2:443".parse().unwrap()),
                    TargetAddress::DomainPort("a.b".into(), 443),
                    TargetAddress::DomainPort("a.b".into(), 80),
                    TargetAddress::SocketAddr("[2001:db8::1]:443".parse().unwrap()),
                    TargetAddress::DomainPort("2001:db8::1".into(), 443),
                ] {
                    v.push(req(l, s, t));
                }
            }
        }
        v
    };
    for &n in &member_counts {
        for (key, keyfn) in &keys {
            let (key, optional) = match key.strip_prefix('?') {
                Some(k) => (k, true),
                None => (*key, false),
            };
            let key = &key;
            let log: Log = Default::default();
            let mut cs = members(n, &log);
            let algo = format!("algo:\n  hashBy: {}", serde_json::to_string(key).unwrap());
            let lb: Arc<dyn Connector> = match catch(|| lb_from_yaml(&lb_yaml(n, &algo))) {
                Ok(Ok(mut b)) => match block_on(b.init()) {
                    Ok(()) => Arc::from(b),
                    Err(e) => {
                        if !optional {
                            chk.violation("loadbalance.init", "string-key-rejected", format!("hashBy {key}: init failed: {e}"), json!({"key": key}));
                        }
                        outcomes.add(&(n, key, "refused"));
                        continue;
                    }
                },
                other => machinery(format!("cannot build hashBy balancer for {key}: {:?}", other.map(|r| r.map(|_| ())))),
            };
            cs.push(lb.clone());
            let state = make_state(cs, 0);
            block_on(lb.verify(state.clone())).expect("verify");
            let mut seen: std::collections::HashMap<String, (String, String)> = Default::default();
            // every request of the pool twice (also checks repeatability)
            for (pass, r) in pool.iter().map(|r| (0, r)).chain(pool.iter().map(|r| (1, r))).chain(pool.iter().map(|r| (2, r))) {
                selections += 1;
                let kv = keyfn(r);
                // (third pass: with other allocations in between, so that nothing that depends on where a value
                // happens to live repeats by accident)
                let _ballast: Vec<Vec<u8>> = if pass == 2 { (0..(selections % 7 + 1)).map(|i| vec![0u8; 24 + 16 * i as usize]).collect() } else { vec![] };
                match catch(|| block_on(select(&lb, &state, &log, r))) {
                    Ok(Ok((used, rec))) => {
                        outcomes.add(&(n, key, &used));
                        if rec.as_deref() != Some(used.as_str()) {
                            chk.violation("loadbalance.record", "recorded-member-differs", format!("hashBy {key}: used {used} recorded {:?}", rec), json!({"key": key, "request": format!("{:?}", r)}));
                        }
                        if !used.strip_prefix('m').and_then(|x| x.parse::<usize>().ok()).map(|j| j < n).unwrap_or(false) {
                            chk.violation("loadbalance.hash_by", "foreign-member", format!("hashBy {key}: selected {used}"), json!({"key": key}));
                        }
                        if let Some((prev, prev_req)) = seen.get(&kv) {
                            if *prev != used {
                                chk.violation(
                                    "loadbalance.hash_by",
                                    &format!("same-key-different-member:{}", key),
                                    format!("n={n} hashBy {key}: key value {kv:?} went to {prev} for {prev_req} and to {used} for {:?}", r),
                                    json!({"key": key, "members": n, "key_value": kv, "requests": [prev_req, format!("{:?}", r)]}),
                                );
                            }
                        } else {
                            seen.insert(kv, (used, format!("{:?}", r)));
                        }
                    }
                    Ok(Err(e)) => chk.violation("loadbalance.hash_by", "selection-error", format!("hashBy {key}: {e}"), json!({"key": key, "request": format!("{:?}", r)})),
                    Err(p) => chk.violation("loadbalance.hash_by", "selection-panic", format!("hashBy {key}: {p}"), json!({"key": key, "request": format!("{:?}", r)})),
                }
            }
        }
    }
    for bad_key in ["request.target.port", "1", "true", "[request.listener]", "(1, 2)", "request"] {
        let algo = format!("algo:\n  hashBy: {}", serde_json::to_string(bad_key).unwrap());
        selections += 1;
        let r = catch(|| lb_from_yaml(&lb_yaml(2, &algo)).and_then(|mut b| block_on(b.init()).map_err(|e| e.to_string())));
        match r {
            Ok(Err(_)) => {}
            Ok(Ok(())) => chk.violation("loadbalance.init", "non-string-key-accepted", format!("hashBy {bad_key} accepted by init"), json!({"key": bad_key})),
            Err(p) => chk.violation("loadbalance.init", "init-panic", format!("hashBy {bad_key}: {p}"), json!({"key": bad_key})),
        }
    }
    samples.push(json!({"hash_by": "request.target", "same_key": ["DomainPort(10.0.0.2,443)", "SocketAddr(10.0.0.2:443)"]}));

    // ---- random: members only (exhaustive per call), every member hit (sampling: 4000 draws, labelled as such)
    let mut random_draws = 0u64;
    for n in 1..=8usize {
        let log: Log = Default::default();
        let mut cs = members(n, &log);
        let mut b = lb_from_yaml(&lb_yaml(n, "algo: random")).expect("random lb");
        block_on(b.init()).expect("init");
        let lb: Arc<dyn Connector> = Arc::from(b);
        cs.push(lb.clone());
        let state = make_state(cs, 0);
        let r = req("l", "127.0.0.1:1", TargetAddress::DomainPort("t".into(), 80));
        let mut counts = vec![0usize; n];
        for _ in 0..4000 {
            random_draws += 1;
            match catch(|| block_on(select(&lb, &state, &log, &r))) {
                Ok(Ok((used, rec))) => {
                    let j = used.strip_prefix('m').and_then(|x| x.parse::<usize>().ok());
                    match j {
                        Some(j) if j < n && rec.as_deref() == Some(used.as_str()) => counts[j] += 1,
                        _ => chk.violation("loadbalance.random", "foreign-or-misrecorded-member", format!("selected {used} recorded {:?}", rec), json!({"members": n})),
                    }
                }
                other => chk.violation("loadbalance.random", "selection-failed", format!("{:?}", other), json!({"members": n})),
            }
        }
        if counts.iter().any(|&c| c == 0) {
            chk.violation("loadbalance.random", "member-never-selected", format!("n={n}: counts {:?} in 4000 draws", counts), json!({"members": n}));
        }
    }

    // ---- random, request streams in which only every k-th accepted connection reaches the balancer (the others are
    //      denied or routed elsewhere), and random balancers nested in random balancers: still every member / every
    //      leaf with non-zero frequency (sampling, 3000 draws per cell)
    for stride in 2..=4usize {
        for n in [2usize, 3, 4, 6, 8] {
            let log: Log = Default::default();
            let mut cs = members(n, &log);
            let mut b = lb_from_yaml(&lb_yaml(n, "algo: random")).expect("random lb");
            block_on(b.init()).expect("init");
            let lb: Arc<dyn Connector> = Arc::from(b);
            cs.push(lb.clone());
            let state = make_state(cs, 0);
            let r = req("l", "127.0.0.1:1", TargetAddress::DomainPort("t".into(), 80));
            let mut counts = vec![0usize; n];
            for _ in 0..3000 {
                random_draws += 1;
                // connections that never reach the balancer
                for _ in 1..stride {
                    let _ = block_on(make_request(&state, &r, b"", Default::default()));
                }
                if let Ok(Ok((used, _))) = catch(|| block_on(select(&lb, &state, &log, &r))) {
                    if let Some(j) = used.strip_prefix('m').and_then(|x| x.parse::<usize>().ok()).filter(|j| *j < n) {
                        counts[j] += 1;
                    }
                }
            }
            outcomes.add(&("random-stride", stride, n, counts.iter().filter(|&&c| c == 0).count()));
            if counts.iter().any(|&c| c == 0) {
                chk.violation("loadbalance.random", "member-never-selected:request-stream", format!("n={n}, every {stride}. accepted connection is balanced: counts {:?} in 3000 draws", counts), json!({"members": n, "stride": stride}));
            }
        }
    }
    for (fan, leaves_per) in [(2usize, 2usize), (2, 3), (3, 2), (2, 4)] {
        let log: Log = Default::default();
        let nleaves = fan * leaves_per;
        let mut cs = members(nleaves, &log);
        let mut inner_names = vec![];
        for i in 0..fan {
            let ms: Vec<String> = (0..leaves_per).map(|j| format!("m{}", i * leaves_per + j)).collect();
            let yaml = format!("name: in{i}\ntype: loadbalance\nconnectors: [{}]\nalgo: random", ms.join(", "));
            let mut b = lb_from_yaml(&yaml).expect("inner lb");
            block_on(b.init()).expect("init");
            cs.push(Arc::from(b));
            inner_names.push(format!("in{i}"));
        }
        let yaml = format!("name: outer\ntype: loadbalance\nconnectors: [{}]\nalgo: random", inner_names.join(", "));
        let mut b = lb_from_yaml(&yaml).expect("outer lb");
        block_on(b.init()).expect("init");
        let outer: Arc<dyn Connector> = Arc::from(b);
        cs.push(outer.clone());
        let state = make_state(cs, 0);
        let r = req("l", "127.0.0.1:1", TargetAddress::DomainPort("t".into(), 80));
        let mut counts = vec![0usize; nleaves];
        for _ in 0..3000 {
            random_draws += 1;
            if let Ok(Ok((used, _))) = catch(|| block_on(select(&outer, &state, &log, &r))) {
                if let Some(j) = used.strip_prefix('m').and_then(|x| x.parse::<usize>().ok()).filter(|j| *j < nleaves) {
                    counts[j] += 1;
                }
            }
        }
        outcomes.add(&("random-nested", fan, leaves_per, counts.iter().filter(|&&c| c == 0).count()));
        if counts.iter().any(|&c| c == 0) {
            chk.violation("loadbalance.random", "member-never-selected:nested", format!("random over {fan} random balancers of {leaves_per} members each: counts {:?} in 3000 draws", counts), json!({"fan": fan, "leaves_per": leaves_per}));
        }
    }

    // ---- concurrent round robin: results of the loom model (written by the loomlb build that bin/check runs first)
    let loom_file = format!("{}/target/c17-loom.json", VERIF_DIR);
    let loom: Option<serde_json::Value> = std::fs::read_to_string(&loom_file).ok().and_then(|s| serde_json::from_str(&s).ok());
    let loom_fresh = loom.as_ref().and_then(|l| l["unix_time"].as_u64()).map(|t| std::time::SystemTime::now().duration_since(std::time::UNIX_EPOCH).unwrap().as_secs().saturating_sub(t) < 3600).unwrap_or(false);
    if let Some(l) = &loom {
        if loom_fresh {
            for v in l["violations"].as_array().cloned().unwrap_or_default() {
                chk.violation("loadbalance.round_robin", "concurrent-lost-or-duplicated-selection", v["detail"].as_str().unwrap_or("").to_string(), v.clone());
            }
        }
    }
    if !loom_fresh && std::env::var("VERIF_SKIP_LOOM").is_err() {
        machinery("the loom part (bin/check runs it first, feature loomlb) did not produce target/c17-loom.json");
    }

    if chk.violation_count() == 0 && (selections < 2000 || outcomes.len() < 20) {
        machinery(format!("vacuous: selections={selections} outcomes={}", outcomes.len()));
    }
    let loom_cov = loom.clone().unwrap_or(json!({}));
    let coverage = json!({
        "exhaustive": true,
        "states": outcomes.len(), "transitions": selections, "traces_validated_against_impl": selections + loom_cov["schedules"].as_u64().unwrap_or(0),
        "evaluations": selections + random_draws, "distinct_nontrivial": outcomes.len(),
        "rule": "sequential: every member count 1..12, 16, 17 (thorough 1..24, 31..33, 48, 64, 65) x cursor offset 0..2n x window k*n (k=1..3) through the real connect(); hashBy: 7 key expressions x 36-request pool twice x the same member counts; nested balancers (2-3 levels) and refusing members x 3 algorithms: the recorded member is the leaf that was asked to connect; a hash-by balancer entered directly, through one, through two balancers and through a random one: 16 keys x 2 rounds must reach the same member by every route; loom: all interleavings of 2-3 threads x 1-3 selections on the real connect() with the cursor as a loom atomic. distinct = distinct (members, key, selected member) observations",
        "loom": loom_cov,
        "random_draws_sampled": random_draws,
        "samples": samples,
    });
    chk.finish(
        "model_checking",
        coverage,
        vec![
            "the frequency clause of `random` (every member with non-zero frequency) is checked by sampling 4000 draws per member count: thread_rng is not seedable; miss probability of a correct implementation < 1e-380".into(),
            "loom explores the cursor atomics; the tokio locks of the per-thread contexts are uncontended and invisible to loom".into(),
            "cursor wrap-around at usize::MAX is out of reach".into(),
        ],
    );
}

// ------------------------------------------------------------------ loom model (separate build: feature loomlb)
#[cfg(redproxy_verif_loom)]
#[test]
fn loom_check() {
    use std::sync::atomic::{AtomicU64, Ordering};
    use std::sync::Mutex;
    silence_panics();
    let thorough = tier() == Tier::Thorough;
    // (members, threads, selections per thread)
    let mut shapes: Vec<(usize, usize, usize)> = vec![(1, 2, 1), (2, 2, 1), (2, 2, 2), (3, 3, 1), (2, 3, 2)];
    if thorough {
        shapes.extend([(3, 2, 3), (3, 3, 2), (2, 2, 4)]);
    }
    let mut total_schedules = 0u64;
    let mut per_shape = vec![];
    let mut violations: Vec<serde_json::Value> = vec![];
    for (n, threads, per) in shapes {
        let schedules = Arc::new(AtomicU64::new(0));
        let bad: Arc<Mutex<Option<String>>> = Default::default();
        let (s2, b2) = (schedules.clone(), bad.clone());
        let mut builder = loom::model::Builder::new();
        builder.preemption_bound = Some(if thorough { 4 } else { 3 });
        let res = catch(move || {
            builder.check(move || {
                s2.fetch_add(1, Ordering::Relaxed);
                let log: Log = Default::default();
                let mut cs = members(n, &log);
                let mut b = lb_from_yaml(&lb_yaml(n, "algo: rr")).expect("lb");
                loom::future::block_on(b.init()).expect("init");
                let lb: Arc<dyn Connector> = Arc::from(b);
                cs.push(lb.clone());
                let state = make_state(cs, 0);
                let mut hs = vec![];
                for t in 0..threads {
                    let (lb, state, log) = (lb.clone(), state.clone(), log.clone());
                    hs.push(loom::thread::spawn(move || {
                        let mut recs = vec![];
                        for _ in 0..per {
                            let r = req("l", &format!("127.0.0.1:{}", 1000 + t), TargetAddress::DomainPort("t".into(), 80));
                            let ctx = loom::future::block_on(async {
                                let (ctx, _) = make_request(&state, &r, b"", Default::default()).await;
                                lb.clone().connect(state.clone(), ctx.clone()).await.expect("connect");
                                ctx
                            });
                            let rec = loom::future::block_on(async { ctx.read().await.props().connector.clone() });
                            recs.push(rec);
                        }
                        let _ = log;
                        recs
                    }));
                }
                let mut recorded: Vec<String> = vec![];
                for h in hs {
                    recorded.extend(h.join().unwrap().into_iter().map(|r| r.unwrap_or_default()));
                }
                let used: Vec<String> = log.lock().unwrap().iter().map(|l| l.trim_start_matches("connect:").to_string()).collect();
                let total = threads * per;
                let mut counts = vec![0usize; n];
                for u in &used {
                    if let Some(j) = u.strip_prefix('m').and_then(|x| x.parse::<usize>().ok()) {
                        if j < n {
                            counts[j] += 1;
                        }
                    }
                }
                let mut r2 = recorded.clone();
                r2.sort();
                let mut u2 = used.clone();
                u2.sort();
                let even = if total % n == 0 { counts.iter().all(|&c| c == total / n) } else { counts.iter().all(|&c| c == total / n || c == total / n + 1) };
                if used.len() != total || !even || r2 != u2 {
                    *b2.lock().unwrap() = Some(format!("members={n} threads={threads} x {per}: used {:?} recorded {:?} counts {:?}", used, recorded, counts));
                    panic!("round-robin law violated");
                }
            });
        });
        let sc = schedules.load(Ordering::Relaxed);
        total_schedules += sc;
        per_shape.push(json!({"members": n, "threads": threads, "selections_per_thread": per, "schedules": sc}));
        if res.is_err() {
            let detail = bad.lock().unwrap().clone().unwrap_or_else(|| format!("loom model failed: {:?}", res));
            violations.push(json!({"detail": detail, "members": n, "threads": threads, "per_thread": per}));
        }
    }
    let out = json!({"unix_time": std::time::SystemTime::now().duration_since(std::time::UNIX_EPOCH).unwrap().as_secs(), "schedules": total_schedules, "shapes": per_shape, "violations": violations, "preemption_bound": if thorough {4} else {3}});
    std::fs::create_dir_all(format!("{}/target", VERIF_DIR)).ok();
    std::fs::write(format!("{}/target/c17-loom.json", VERIF_DIR), serde_json::to_string_pretty(&out).unwrap()).unwrap();
    println!("LOOM-DONE schedules={} violations={}", total_schedules, out["violations"].as_array().unwrap().len());
}
