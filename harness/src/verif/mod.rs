//! Verification machinery (engines + one module per property).
pub mod common;
mod c01;
mod c02;
mod c03;
mod c05;
mod c08;
mod c09;
mod c11;
mod c12;
mod c14;
mod c15;
mod c16;
mod c17;
mod c18;
pub mod xsched;
pub mod world;
pub mod io;
pub mod relay;
