//! Verification machinery (engines + one module per property).
pub mod common;
mod c09;
