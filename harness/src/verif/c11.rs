//! C11 — UDP frame fragmentation / reassembly is exact under reordering, duplication and interleaving.
//! Engine E2: exhaustive size x MTU grid, all permutations (+1 duplicate) of <= 6 fragments, all interleavings of
//! 2-3 frames, malformed mixes, expiry sequences; every step on the real `Fragments` vs a list-based reference.
use super::common::*;
use crate::common::fragment::{Fragmentable, Fragments};
use crate::common::frames::Frame;
use crate::context::TargetAddress;
use bytes::{Buf, Bytes};
use serde_json::json;
use std::collections::HashMap;
use std::sync::atomic::{AtomicU64, Ordering};
use std::time::{Duration, Instant};

#[derive(Debug, PartialEq, Eq, Clone)]
pub struct TB(pub Bytes);
impl Fragmentable for TB {
    type Buffer = Bytes;
    fn as_buffer(&self) -> Bytes {
        self.0.clone()
    }
    fn from_buffer(buf: Bytes) -> Option<Self> {
        Some(TB(buf))
    }
}

/// list-based reference reassembler (the specification)
#[derive(Default)]
pub struct RefR {
    partial: HashMap<u16, (u8, Vec<Option<Vec<u8>>>)>,
}
impl RefR {
    pub fn feed(&mut self, d: &[u8]) -> Option<Vec<u8>> {
        if d.len() < 4 {
            return None;
        }
        let id = u16::from_be_bytes([d[0], d[1]]);
        let total = d[2];
        let seq = d[3];
        let payload = d[4..].to_vec();
        if total == 0 || seq >= total {
            return None;
        }
        if total == 1 {
            return Some(payload);
        }
        if let Some((t, parts)) = self.partial.get_mut(&id) {
            if *t != total || parts[seq as usize].is_some() {
                return None;
            }
            parts[seq as usize] = Some(payload);
            if parts.iter().all(|p| p.is_some()) {
                let (_, parts) = self.partial.remove(&id).unwrap();
                return Some(parts.into_iter().flat_map(|p| p.unwrap()).collect());
            }
            None
        } else {
            let mut parts = vec![None; total as usize];
            parts[seq as usize] = Some(payload);
            self.partial.insert(id, (total, parts));
            None
        }
    }
    pub fn expire(&mut self, id: u16) {
        self.partial.remove(&id);
    }
}

fn pattern(len: usize, salt: u8) -> Bytes {
    Bytes::from((0..len).map(|i| (i as u8).wrapping_mul(31).wrapping_add(salt)).collect::<Vec<u8>>())
}

fn permutations(n: usize) -> Vec<Vec<usize>> {
    fn go(cur: &mut Vec<usize>, used: &mut Vec<bool>, n: usize, out: &mut Vec<Vec<usize>>) {
        if cur.len() == n {
            out.push(cur.clone());
            return;
        }
        for i in 0..n {
            if !used[i] {
                used[i] = true;
                cur.push(i);
                go(cur, used, n, out);
                cur.pop();
                used[i] = false;
            }
        }
    }
    let mut out = vec![];
    go(&mut vec![], &mut vec![false; n], n, &mut out);
    out
}

struct Ctr {
    seqs: AtomicU64,
    steps: AtomicU64,
    outcomes: Distinct,
}

/// Feed a datagram sequence to a fresh real reassembler and to the reference; compare step by step.
/// `strict`: every step must agree with the reference. Otherwise (same-id inconsistent traffic) only "nothing but
/// the good frames, each at most once" is demanded.
fn run_sequence(chk: &Check, ctr: &Ctr, dgrams: &[Bytes], site: &str, class: &str, good: Option<&[Vec<u8>]>) -> bool {
    ctr.seqs.fetch_add(1, Ordering::Relaxed);
    let mut real: Fragments<TB> = Fragments::new(Duration::from_secs(3600));
    let mut rf = RefR::default();
    let mut outs: Vec<Vec<u8>> = vec![];
    let mut trace = vec![];
    for (i, d) in dgrams.iter().enumerate() {
        ctr.steps.fetch_add(1, Ordering::Relaxed);
        let exp = rf.feed(d);
        let got = catch(|| real.reassemble(d.clone()));
        trace.push(hex(&d[..d.len().min(8)]));
        match got {
            Err(p) => {
                chk.violation(
                    site,
                    &format!("{class}:panic"),
                    format!("reassemble panicked at step {i} of {:?}: {p}", trace),
                    json!({"datagrams": dgrams.iter().map(|d| hex(d)).collect::<Vec<_>>(), "step": i, "panic": p}),
                );
                return false;
            }
            Ok(got) => {
                let got = got.map(|t| t.0.to_vec());
                if let Some(g) = &got {
                    outs.push(g.clone());
                }
                if good.is_none() && got != exp {
                    chk.violation(
                        site,
                        class,
                        format!(
                            "step {i}: real {:?} reference {:?} (datagram heads {:?})",
                            got.as_ref().map(|g| hex(&g[..g.len().min(12)])),
                            exp.as_ref().map(|g| hex(&g[..g.len().min(12)])),
                            trace
                        ),
                        json!({"datagrams": dgrams.iter().map(|d| hex(d)).collect::<Vec<_>>(), "step": i}),
                    );
                    return false;
                }
            }
        }
    }
    if let Some(good) = good {
        let mut seen = vec![0; good.len()];
        for o in &outs {
            match good.iter().position(|g| g == o) {
                Some(p) => seen[p] += 1,
                None => {
                    chk.violation(
                        site,
                        class,
                        format!("a frame that was never sent came out: {} (datagram heads {:?})", hex(&o[..o.len().min(16)]), trace),
                        json!({"datagrams": dgrams.iter().map(|d| hex(d)).collect::<Vec<_>>()}),
                    );
                    return false;
                }
            }
        }
        if seen.iter().any(|&c| c > 1) {
            chk.violation(site, class, format!("a frame came out twice (datagram heads {:?})", trace), json!({"datagrams": dgrams.iter().map(|d| hex(d)).collect::<Vec<_>>()}));
            return false;
        }
    }
    ctr.outcomes.add(&outs);
    true
}

fn frags_of(mtu: usize, id: &mut u16, body: Bytes) -> Vec<Bytes> {
    Fragments::<TB>::make_fragments(mtu, id, TB(body)).collect()
}

#[test]
fn check() {
    let chk = Check::new("C11");
    let ctr = Ctr { seqs: Default::default(), steps: Default::default(), outcomes: Default::default() };
    let mut samples: Vec<serde_json::Value> = vec![];

    // ---- (1) size x MTU grid on the real Frame type and on the transparent buffer
    let mtus: Vec<usize> = vec![5, 6, 7, 8, 16, 100, 576, 1100, 1200, 1350, 1452, 9000, 65535];
    let mut grid_cells = 0u64;
    for &mtu in &mtus {
        let pay = mtu - 4;
        let mut sizes: Vec<usize> = vec![0, 1, 2];
        for k in 1..=4 {
            for d in [-1i64, 0, 1] {
                let s = k as i64 * pay as i64 + d;
                if s >= 0 {
                    sizes.push(s as usize);
                }
            }
        }
        sizes.extend([1000, 65507, 65535]);
        sizes.sort();
        sizes.dedup();
        for &size in &sizes {
            for kind in ["buf", "frame"] {
                if kind == "frame" && size > 65535 {
                    continue; // the frame header's body length is 16 bits (a UDP payload never exceeds 65507)
                }
                grid_cells += 1;
                // bytes on the wire before fragmentation
                let (wire, frags): (Vec<u8>, Result<Vec<Bytes>, String>) = if kind == "buf" {
                    if size == 0 {
                        continue; // an empty transparent buffer is not a frame (a Frame always has a 12-byte header)
                    }
                    let b = pattern(size, 7);
                    let mut id = 3u16;
                    (b.to_vec(), catch(|| frags_of(mtu, &mut id, b.clone())))
                } else {
                    let mut f = Frame::from_body(pattern(size, 9));
                    f.addr = Some(TargetAddress::DomainPort("host.example".into(), 53));
                    f.session_id = 0x01020304;
                    let mut w = f.make_header().to_vec();
                    w.extend_from_slice(&f.body);
                    let mut id = 3u16;
                    (w, catch(|| Fragments::<Frame>::make_fragments(mtu, &mut id, f).collect::<Vec<Bytes>>()))
                };
                let n_expected = (wire.len() + pay - 1) / pay;
                let class = if n_expected > 255 {
                    "fragments>255 (not representable in the 1-byte total)"
                } else if n_expected > 127 {
                    "fragments>127"
                } else {
                    "fragments<=127"
                };
                let replay = json!({"mtu": mtu, "size": size, "kind": kind, "fragments": n_expected});
                let frags = match frags {
                    Err(p) => {
                        chk.violation("fragment.make_fragments", &format!("{class}:panic"), format!("make_fragments panicked mtu={mtu} size={size} {kind}: {p}"), replay);
                        continue;
                    }
                    Ok(f) => f,
                };
                if frags.iter().any(|f| f.len() > mtu) {
                    chk.violation("fragment.make_fragments", "fragment-larger-than-mtu", format!("mtu={mtu} size={size}"), replay.clone());
                }
                ctr.seqs.fetch_add(1, Ordering::Relaxed);
                // in-order reassembly through the real type
                let res = catch(|| {
                    let mut outs: Vec<(usize, Vec<u8>)> = vec![];
                    if kind == "buf" {
                        let mut r: Fragments<TB> = Fragments::new(Duration::from_secs(3600));
                        for (i, f) in frags.iter().enumerate() {
                            if let Some(t) = r.reassemble(f.clone()) {
                                outs.push((i, t.0.to_vec()));
                            }
                        }
                    } else {
                        let mut r: Fragments<Frame> = Fragments::new(Duration::from_secs(3600));
                        for (i, f) in frags.iter().enumerate() {
                            if let Some(t) = r.reassemble(f.clone()) {
                                let mut w = t.make_header().to_vec();
                                w.extend_from_slice(&t.body);
                                outs.push((i, w));
                            }
                        }
                    }
                    outs
                });
                ctr.steps.fetch_add(frags.len() as u64, Ordering::Relaxed);
                match res {
                    Err(p) => chk.violation("fragment.roundtrip", &format!("{class}:panic"), format!("reassemble panicked mtu={mtu} size={size} {kind}: {p}"), replay),
                    Ok(outs) => {
                        let ok = if n_expected > 255 {
                            // not representable in the 1-byte count: the frame may be dropped, never mangled
                            outs.is_empty() || (outs.len() == 1 && outs[0].1 == wire)
                        } else {
                            outs.len() == 1 && outs[0].1 == wire && outs[0].0 + 1 == frags.len()
                        };
                        if !ok {
                            chk.violation(
                                "fragment.roundtrip",
                                class,
                                format!(
                                    "mtu={mtu} size={size} {kind}: {} fragments made ({} needed), {} frame(s) out, equal={}",
                                    frags.len(),
                                    n_expected,
                                    outs.len(),
                                    outs.first().map(|o| o.1 == wire).unwrap_or(false)
                                ),
                                replay,
                            );
                        }
                        ctr.outcomes.add(&(mtu, size, kind, outs.len()));
                    }
                }
            }
        }
    }
    samples.push(json!({"grid": "mtu=1200 size=65535 frame -> in-order reassembly"}));

    // ---- (2) every arrival order of <= 6 fragments, plus one duplicate of any fragment at any position
    let maxn = if chk.thorough() { 7 } else { 6 };
    for n in 2..=maxn {
        let mtu = 9;
        let body = pattern(5 * (n - 1) + 2, n as u8);
        let mut id = 40u16;
        let frags = frags_of(mtu, &mut id, body.clone());
        assert_eq!(frags.len(), n);
        let perms = permutations(n);
        par_for(perms.len(), |pi| {
            let p = &perms[pi];
            let seq: Vec<Bytes> = p.iter().map(|&i| frags[i].clone()).collect();
            if !run_sequence(&chk, &ctr, &seq, "fragment.reassemble", "permutation", None) {
                return;
            }
            if n <= 6 {
                for dup in 0..n {
                    for pos in 0..=n {
                        let mut s2 = seq.clone();
                        s2.insert(pos, frags[dup].clone());
                        run_sequence(&chk, &ctr, &s2, "fragment.reassemble", "permutation+duplicate", None);
                    }
                }
            }
        });
    }
    samples.push(json!({"permutation": [2, 0, 1], "duplicate_of": 0, "at": 3}));

    // ---- (3) all arrival orders of two / three frames (ids from one counter) with <= 3 fragments each
    let shapes: Vec<Vec<usize>> = if chk.thorough() {
        vec![vec![2, 2], vec![3, 2], vec![3, 3], vec![1, 3], vec![2, 2, 2], vec![3, 2, 2], vec![3, 3, 2], vec![3, 3, 3]]
    } else {
        vec![vec![2, 2], vec![3, 2], vec![3, 3], vec![1, 3], vec![2, 2, 2], vec![3, 2, 2]]
    };
    for shape in &shapes {
        let mut id = 65534u16.wrapping_add(shape.len() as u16); // also crosses the id wrap for 3 frames
        if shape.len() == 2 {
            id = 7;
        }
        let mut all: Vec<Bytes> = vec![];
        let mut ok = true;
        for (fi, &n) in shape.iter().enumerate() {
            let body = pattern(5 * (n - 1) + 1 + fi, 100 + fi as u8);
            match catch(|| frags_of(9, &mut id, body)) {
                Ok(f) => all.extend(f),
                Err(p) => {
                    chk.violation("fragment.make_fragments", "id-wrap:panic", format!("make_fragments panicked at id wrap: {p}"), json!({"next_id": id}));
                    ok = false;
                    break;
                }
            }
        }
        if !ok {
            continue;
        }
        let perms = permutations(all.len());
        par_for(perms.len(), |pi| {
            let seq: Vec<Bytes> = perms[pi].iter().map(|&i| all[i].clone()).collect();
            run_sequence(&chk, &ctr, &seq, "fragment.reassemble", "interleaved-frames", None);
        });
    }
    samples.push(json!({"interleave": "frames A(3 fragments) B(2 fragments): all 120 arrival orders"}));

    // ---- (4) malformed / foreign traffic mixed into a good frame (strict), same-id inconsistent traffic (weak oracle)
    {
        let mut id = 9u16;
        let good_body = pattern(11, 55);
        let good = frags_of(9, &mut id, good_body.clone()); // 3 fragments, id 9
        let junk_strict: Vec<Bytes> = vec![
            Bytes::from_static(&[]),
            Bytes::from_static(&[0]),
            Bytes::from_static(&[0, 9, 3]),
            Bytes::from_static(&[0, 9, 0, 0, 1, 2]),   // total = 0
            Bytes::from_static(&[0, 9, 3, 3, 1, 2]),   // seq == total
            Bytes::from_static(&[0, 9, 3, 200, 1, 2]), // seq >= 128
            Bytes::from_static(&[0, 77, 2, 1, 9, 9]),  // foreign id, never completed
            Bytes::from_static(&[0, 77, 200, 130, 9]), // foreign id, total and seq >= 128
            Bytes::from_static(&[0, 78, 255, 254, 9]), // foreign id, total 255
            Bytes::from_static(&[0, 79, 1, 1, 9]),     // total 1 but seq 1
        ];
        let mut cases: Vec<(Vec<Bytes>, String)> = vec![];
        for (ji, j) in junk_strict.iter().enumerate() {
            for pos in 0..=good.len() {
                let mut s = good.clone();
                s.insert(pos, j.clone());
                cases.push((s, format!("junk{ji}@{pos}")));
                for (ki, k2) in junk_strict.iter().enumerate() {
                    if ki <= ji || !chk.thorough() && ki > ji + 2 {
                        continue;
                    }
                    for pos2 in 0..=good.len() + 1 {
                        let mut s2 = good.clone();
                        s2.insert(pos, j.clone());
                        s2.insert(pos2, k2.clone());
                        cases.push((s2, format!("junk{ji}@{pos}+junk{ki}@{pos2}")));
                    }
                }
            }
        }
        par_for(cases.len(), |i| {
            let (s, _) = &cases[i];
            // the class is the kind of the first junk datagram, so that different malformed shapes are distinct findings
            let j = s.iter().find(|d| !good.contains(d)).unwrap();
            let kind = if j.len() < 4 {
                "datagram<4-bytes"
            } else if j[2] == 0 {
                "total=0"
            } else if j[3] >= j[2] {
                "seq>=total"
            } else if j[2] >= 128 {
                "total>=128"
            } else {
                "foreign-id"
            };
            run_sequence(&chk, &ctr, s, "fragment.reassemble", &format!("malformed-mix:{kind}"), None);
        });
        // same-id inconsistent fragments: nothing but the good frame may come out, at most once
        let incons: Vec<Bytes> = vec![
            Bytes::from_static(&[0, 9, 2, 1, 0xEE, 0xEE]),       // same id, smaller total
            Bytes::from_static(&[0, 9, 4, 1, 0xEE, 0xEE]),       // same id, larger total
            Bytes::from_static(&[0, 9, 3, 1, 0xEE, 0xEE, 0xEE]), // same id/total/seq, different payload
            Bytes::from_static(&[0, 9, 4, 3, 0xEE]),             // same id, seq beyond the good total
        ];
        let goodv = vec![good_body.to_vec()];
        let mut cases2 = vec![];
        for j in &incons {
            for pos in 0..=good.len() {
                let mut s = good.clone();
                s.insert(pos, j.clone());
                // the payload-substitution case can legitimately win the race for slot 1: then the EE frame is what a
                // receiver cannot tell from the original; only demand "no mixture" when totals differ
                cases2.push((s, j.clone()));
            }
        }
        par_for(cases2.len(), |i| {
            let (s, j) = &cases2[i];
            if j[2] == 3 {
                return; // indistinguishable duplicate with other payload: first one wins in both models, covered by (2)
            }
            run_sequence(&chk, &ctr, s, "fragment.reassemble", "inconsistent-total-same-id", Some(&goodv));
        });
    }
    // ---- (4b) a frame that is being collected is not disturbed by a fragment that claims another total for its id:
    //      every arrival order of the frame's 3 fragments x the stray at every position behind the first fragment x a
    //      bystander frame with another id interleaved at every position: the frame comes out exactly once, complete
    {
        let mut id = 9u16;
        let a_body = pattern(11, 55);
        let a = frags_of(9, &mut id, a_body.clone()); // 3 fragments, id 9
        let mut idb = 10u16;
        let b_body = pattern(7, 99);
        let b = frags_of(9, &mut idb, b_body.clone()); // 2 fragments, id 10
        let mut strays: Vec<Bytes> = vec![];
        for total in [2u8, 4, 5, 127, 128, 200, 255] {
            for seq in [0u8, 1, 2, 3, 4, 126, 199, 254] {
                if seq < total {
                    strays.push(Bytes::from(vec![0, 9, total, seq, 0xEE, 0xEE]));
                }
            }
        }
        let mut cases3: Vec<Vec<Bytes>> = vec![];
        for perm in permutations(3) {
            for st in &strays {
                for pos in 1..=3usize {
                    let mut s: Vec<Bytes> = perm.iter().map(|&i| a[i].clone()).collect();
                    s.insert(pos, st.clone());
                    cases3.push(s.clone());
                    // with the bystander's two fragments around the stray
                    let mut s2 = s.clone();
                    s2.insert(pos, b[0].clone());
                    s2.insert(pos + 2, b[1].clone());
                    cases3.push(s2);
                }
            }
        }
        let goodv = vec![a_body.to_vec(), b_body.to_vec()];
        par_for(cases3.len(), |i| {
            let s = &cases3[i];
            ctr.seqs.fetch_add(1, Ordering::Relaxed);
            let r = catch(|| {
                let mut real: Fragments<TB> = Fragments::new(Duration::from_secs(3600));
                s.iter().filter_map(|d| real.reassemble(d.clone()).map(|t| t.0.to_vec())).collect::<Vec<_>>()
            });
            let heads: Vec<String> = s.iter().map(|d| hex(&d[..4])).collect();
            let replay = json!({"datagrams": s.iter().map(|d| hex(d)).collect::<Vec<_>>()});
            match r {
                Err(p) => chk.violation("fragment.reassemble", "inconsistent-total-same-id:panic", format!("{:?}: {p}", heads), replay),
                Ok(outs) => {
                    ctr.outcomes.add(&outs);
                    let na = outs.iter().filter(|o| **o == goodv[0]).count();
                    let nb = outs.iter().filter(|o| **o == goodv[1]).count();
                    let with_b = s.len() > 4;
                    if outs.iter().any(|o| !goodv.contains(o)) {
                        chk.violation("fragment.reassemble", "inconsistent-total-same-id", format!("a frame that was never sent came out (datagram heads {:?})", heads), replay);
                    } else if na != 1 {
                        chk.violation("fragment.reassemble", "frame-disturbed-by-inconsistent-fragment", format!("the frame whose collection had begun came out {na} times (datagram heads {:?})", heads), replay);
                    } else if with_b && nb != 1 {
                        chk.violation("fragment.reassemble", "bystander-frame-disturbed-by-inconsistent-fragment", format!("the frame with another id came out {nb} times (datagram heads {:?})", heads), replay);
                    }
                }
            }
        });
    }
    samples.push(json!({"malformed_mix": ["0009 03 00 ..", "0009 00 00 0102 (total=0)", "0009 03 01 ..", "0009 03 02 .."]}));

    // ---- (5) expiry sequences on the real clock (timeout 100 ms), alphabet of 5 events, all sequences of length <= 5 (quick 4)
    let expiry = expiry_check(&chk, &ctr);
    samples.push(json!({"expiry_sequence": ["A0", "A1", "sleep+timer", "B0(reuses id)", "sleep+timer", "B1"]}));

    // ---- (6) id counter wrap
    for start in [65534u16, 65535u16] {
        let mut id = start;
        match catch(|| {
            let a = frags_of(9, &mut id, pattern(7, 1));
            let b = frags_of(9, &mut id, pattern(7, 2));
            (a, b, id)
        }) {
            Err(p) => chk.violation("fragment.make_fragments", "id-wrap:panic", format!("make_fragments panicked with next_id={start}: {p}"), json!({"next_id": start})),
            Ok((a, b, id_after)) => {
                let ida = u16::from_be_bytes([a[0][0], a[0][1]]);
                let idb = u16::from_be_bytes([b[0][0], b[0][1]]);
                if ida != start || idb != start.wrapping_add(1) || id_after != start.wrapping_add(2) {
                    chk.violation("fragment.make_fragments", "id-wrap", format!("ids {ida},{idb} after start {start}"), json!({"next_id": start}));
                }
            }
        }
    }


    // ---- (7) long runs through ONE table, as a connection that stays in use: R well-formed frames from one writer
    //      counter (past the wrap of the 16-bit id), each complete before the next starts; the reassembly timeout is
    //      long (nothing is pending, nothing expires), the table's timer runs every `tick` frames or never. Every frame
    //      comes out exactly once, at its last fragment - however many frames the table has seen before.
    let runs: Vec<(usize, usize, usize, bool)> = if chk.thorough() {
        vec![(140_000, 2, 0, false), (70_000, 3, 100, false), (70_000, 3, 1, true), (70_000, 2, 1000, true), (200_000, 4, 7, false)]
    } else {
        vec![(70_000, 2, 0, false), (70_000, 3, 100, true), (5_000, 3, 1, false)]
    };
    let mut long_frames = 0u64;
    for (r, nfrag, tick, reversed) in &runs {
        ctr.seqs.fetch_add(1, Ordering::Relaxed);
        let mut real: Fragments<TB> = Fragments::new(Duration::from_secs(3600));
        let mut id = 65000u16;
        let mut bad: Option<String> = None;
        for n in 0..*r {
            let body = pattern(4 * (*nfrag - 1) + 1 + n % 4, (n % 251) as u8);
            let mut fr = frags_of(8, &mut id, body.clone());
            if fr.len() != *nfrag {
                machinery(format!("long run: {} fragments instead of {}", fr.len(), nfrag));
            }
            if *reversed {
                fr.reverse();
            }
            let last = fr.len() - 1;
            for (i, d) in fr.into_iter().enumerate() {
                ctr.steps.fetch_add(1, Ordering::Relaxed);
                let got = match catch(|| real.reassemble(d.clone())) {
                    Ok(g) => g.map(|t| t.0),
                    Err(p) => {
                        bad = Some(format!("frame #{n}: reassemble panicked: {p}"));
                        break;
                    }
                };
                let want = if i == last { Some(body.clone()) } else { None };
                if got != want {
                    bad = Some(format!("frame #{n} (of {nfrag} fragments, id {}), fragment {i}: {} came out, expected {}", id.wrapping_sub(1), got.as_ref().map(|g| format!("{} bytes", g.len())).unwrap_or("nothing".into()), want.as_ref().map(|g| format!("the frame of {} bytes", g.len())).unwrap_or("nothing yet".into())));
                    break;
                }
            }
            if bad.is_some() {
                break;
            }
            long_frames += 1;
            if *tick > 0 && n % *tick == *tick - 1 {
                real.timer();
            }
        }
        ctr.outcomes.add(&(r, nfrag, tick, reversed, bad.is_some()));
        if let Some(b) = bad {
            chk.violation("fragment.long-run", "well-formed-frame-lost-or-changed", format!("{r} frames of {nfrag} fragments through one table (timer every {tick} frames, fragments {}): {b}", if *reversed { "last first" } else { "in order" }), json!({"frames": r, "fragments_per_frame": nfrag, "timer_every": tick, "reversed": reversed}));
        }
    }
    samples.push(json!({"long_runs": runs.iter().map(|r| format!("{} frames x {} fragments, timer every {}", r.0, r.1, r.2)).collect::<Vec<_>>(), "frames": long_frames}));

    // ---- (8) on the wire: the table of a QUIC connection is cleaned while the connection is busy (real binary,
    //      real quinn client): see c11q.rs
    ctr.seqs.fetch_add(1, Ordering::Relaxed);
    samples.push(super::c11q::busy_connection_expiry(&chk));
    ctr.seqs.fetch_add(1, Ordering::Relaxed);
    samples.push(super::c11q::writer_size_sweep(&chk));

    let seqs = ctr.seqs.load(Ordering::Relaxed);
    let steps = ctr.steps.load(Ordering::Relaxed);
    if chk.violation_count() == 0 && (seqs < 5000 || ctr.outcomes.len() < 10) {
        machinery(format!("vacuous: sequences={seqs} outcomes={}", ctr.outcomes.len()));
    }
    let coverage = json!({
        "exhaustive": true,
        "states": ctr.outcomes.len(), "transitions": steps, "traces_validated_against_impl": seqs,
        "evaluations": seqs, "distinct_nontrivial": ctr.outcomes.len(),
        "rule": "datagram sequences fed to a fresh real Fragments instance and to the list reference, compared after every datagram. distinct = distinct output lists. grid: 13 MTUs x boundary sizes x {transparent buffer, real Frame}; all permutations of n<=6 (thorough 7) fragments x one duplicate of any fragment at any position; all arrival orders of 2-3 frames; 10 malformed datagrams (pairs of them) at every position; a fragment claiming another total (7 totals x seq) for the id of a frame whose collection has begun, at every later position x every arrival order x a bystander frame: the frame still comes out exactly once; expiry sequences over 5 events; long runs of up to 70 000 (thorough 200 000) well-formed frames of 2-4 fragments through one table, past the wrap of the id, timer never / every k frames: each comes out exactly once at its last fragment; on the wire (real binary, real quinn client): a fragment whose sibling never comes, then 7.5 s of a busy connection, then a frame reusing the id comes out intact; and every body size within 70 (thorough 200) of the connection's datagram limit, plus multiples and large ones, echoed back through the proxy's fragment writer exactly once",
        "grid_cells": grid_cells, "sequences": seqs, "datagrams_fed": steps,
        "expiry_sequences": expiry.0, "expiry_discarded_for_timing": expiry.1,
        "samples": samples,
    });
    chk.finish(
        "model_checking",
        coverage,
        vec![
            "MTU >= 5 (MakeFragments asserts mtu > 4; the QUIC frame writer refuses a connection whose datagram limit - chosen by the peer - is smaller: checked on the real binary under C05)".into(),
            "expiry runs on the real clock: executions whose measured gaps are within 25 ms of the threshold are discarded and retried, never judged".into(),
            "id collisions between independent writers (one counter per QUIC session) are a wiring matter checked under C10, not here".into(),
        ],
    );
}

/// Expiry: event sequences over {A0, A1, B0, B1, T(sleep 65 ms + timer)} where A and B are two 2-fragment frames that
/// use the SAME id (id reuse), and over {A0..A2, B0..B2, T} for two 3-fragment frames (a partial frame that receives a
/// further fragment and stays partial); timeout 100 ms. Reference decides expiry from harness-measured instants, counted
/// from the first fragment of the partial frame. Naps are 65 ms so that k naps never land within the 25 ms slack of the
/// threshold (65 alive, 130 expired).
fn expiry_check(chk: &Check, ctr: &Ctr) -> (u64, u64) {
    let r2 = expiry_family(chk, ctr, 2);
    let r3 = expiry_family(chk, ctr, 3);
    (r2.0 + r3.0, r2.1 + r3.1)
}

fn expiry_family(chk: &Check, ctr: &Ctr, nfrag: u8) -> (u64, u64) {
    let timeout = Duration::from_millis(100);
    let nap = Duration::from_millis(65);
    let slack = Duration::from_millis(25);
    let nd = 2 * nfrag; // datagram events 0..nd, event nd = nap + timer
    let tev = nd;
    let a: Vec<Bytes> = (0..nfrag).map(|i| Bytes::from(vec![0, 5, nfrag, i, 0xA0 + i])).collect();
    let b: Vec<Bytes> = (0..nfrag).map(|i| Bytes::from(vec![0, 5, nfrag, i, 0xB0 + i])).collect();
    let max_naps = if nfrag == 2 { 99 } else if chk.thorough() { 5 } else { 3 };
    let mut all: Vec<Vec<u8>> = vec![];
    // structured set (both tiers): every sub-sequence of A0 A1 B0 B1 with >= 2 datagrams, with 0..2 naps in every gap
    for mask in 0u32..(1 << nd) {
        let ds: Vec<u8> = (0..nd).filter(|i| mask & (1 << i) != 0).collect();
        if ds.len() < 2 {
            continue;
        }
        let gaps = ds.len() - 1;
        for code in 0..3usize.pow(gaps as u32) {
            let mut c = code;
            let mut s = vec![ds[0]];
            for g in 0..gaps {
                for _ in 0..(c % 3) {
                    s.push(tev);
                }
                c /= 3;
                s.push(ds[g + 1]);
            }
            let naps = s.iter().filter(|&&e| e == tev).count();
            if naps > 0 && naps <= max_naps {
                all.push(s);
            }
        }
    }
    if chk.thorough() && nfrag == 2 {
        // full alphabet, all sequences up to length 6 with at least one nap and two datagrams
        let mut seqs: Vec<Vec<u8>> = vec![vec![]];
        for _ in 0..6 {
            let mut next = vec![];
            for s in &seqs {
                for e in 0..5u8 {
                    let mut t = s.clone();
                    t.push(e);
                    next.push(t);
                }
            }
            all.extend(next.iter().filter(|s| s.contains(&4) && s.iter().filter(|&&e| e < 4).count() >= 2 && *s.last().unwrap() != 4 && s[0] != 4).cloned());
            seqs = next;
        }
        all.sort();
        all.dedup();
    }
    let discarded = AtomicU64::new(0);
    let ran = AtomicU64::new(0);
    let threads = 64;
    let next = std::sync::atomic::AtomicUsize::new(0);
    std::thread::scope(|sc| {
        for _ in 0..threads {
            sc.spawn(|| loop {
                let i = next.fetch_add(1, Ordering::Relaxed);
                if i >= all.len() {
                    break;
                }
                let s = &all[i];
                let mut verdict = None;
                for _attempt in 0..4 {
                    verdict = run_expiry(s, &a, &b, timeout, nap, slack);
                    if verdict.is_some() {
                        break;
                    }
                }
                ran.fetch_add(1, Ordering::Relaxed);
                ctr.seqs.fetch_add(1, Ordering::Relaxed);
                ctr.steps.fetch_add(s.len() as u64, Ordering::Relaxed);
                match verdict {
                    None => {
                        discarded.fetch_add(1, Ordering::Relaxed);
                    }
                    Some(Ok(outs)) => ctr.outcomes.add(&("expiry", outs)),
                    Some(Err((step, msg))) => {
                        let pretty: Vec<String> = s
                            .iter()
                            .map(|&e| if e == tev { "nap+timer".to_string() } else if e < nfrag { format!("A{}", e) } else { format!("B{}", e - nfrag) })
                            .collect();
                        let class = if msg.contains("panicked") { "expiry:panic" } else if msg.contains("lost") { "expiry:live-partial-frame-discarded" } else { "expiry:other" };
                        chk.violation("fragment.timer", class, format!("sequence {:?} step {step}: {msg}", pretty), json!({"events": pretty, "fragments_per_frame": nfrag, "timeout_ms": 100, "nap_ms": 65}));
                    }
                }
            });
        }
    });
    (ran.load(Ordering::Relaxed), discarded.load(Ordering::Relaxed))
}

/// None = timing ambiguous (discard). Some(Ok(outputs)) / Some(Err((step, message))).
fn run_expiry(
    s: &[u8],
    a: &[Bytes],
    b: &[Bytes],
    timeout: Duration,
    nap: Duration,
    slack: Duration,
) -> Option<Result<Vec<Vec<u8>>, (usize, String)>> {
    let mut real: Fragments<TB> = Fragments::new(timeout);
    let mut rf = RefR::default();
    // creation window of the reference's current partial entry for id 5
    let mut created: Option<(Instant, Instant)> = None;
    let mut outs = vec![];
    for (i, &e) in s.iter().enumerate() {
        if e as usize == a.len() + b.len() {
            std::thread::sleep(nap);
            let u0 = Instant::now();
            if catch(|| real.timer()).is_err() {
                return Some(Err((i, "timer() panicked".into())));
            }
            let u1 = Instant::now();
            if let Some((c0, c1)) = created {
                let surely_expired = u0.saturating_duration_since(c1) > timeout + slack;
                let surely_alive = u1.saturating_duration_since(c0) + slack < timeout;
                if surely_expired {
                    rf.expire(5);
                    created = None;
                } else if !surely_alive {
                    return None;
                }
            }
        } else {
            let d = if (e as usize) < a.len() { &a[e as usize] } else { &b[e as usize - a.len()] };
            let had = rf.partial.contains_key(&5);
            let c0 = Instant::now();
            let got = match catch(|| real.reassemble(d.clone())) {
                Ok(g) => g.map(|t| t.0.to_vec()),
                Err(p) => return Some(Err((i, format!("reassemble panicked: {p}")))),
            };
            let c1 = Instant::now();
            let exp = rf.feed(d);
            let has = rf.partial.contains_key(&5);
            if !had && has {
                created = Some((c0, c1));
            }
            if !has {
                created = None;
            }
            if got != exp {
                let msg = if exp.is_some() && got.is_none() {
                    format!("frame lost: reference completes {:?} but the real reassembler returned nothing (its partial entry was removed while younger than the timeout)", exp.as_ref().map(|x| hex(x)))
                } else {
                    format!("real {:?} reference {:?}", got.as_ref().map(|x| hex(x)), exp.as_ref().map(|x| hex(x)))
                };
                return Some(Err((i, msg)));
            }
            if let Some(g) = got {
                outs.push(g);
            }
        }
    }
    Some(Ok(outs))
}
