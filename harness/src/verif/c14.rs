//! C14 — the management API never blocks the data plane; a stalled client hurts only itself.
//! Engine E1: real futures (h11c_handshake of a client that stalls after k bytes for every k, an API handler call,
//! a complete fresh connection through create_context + handshake + process_request + relay, a request whose
//! upstream never answers, the GC) under every schedule up to a preemption bound. Oracle at every terminal state:
//! only the stalled futures themselves may still be blocked.
use super::common::*;
use super::world::*;
use super::xsched::*;
use crate::common::h11c::h11c_handshake;
use crate::connectors::Connector;
use crate::context::{make_buffered_stream, ContextRef, ContextRefOps, Feature, TargetAddress};
use crate::metrics::verif_hooks as api;
use crate::GlobalState;
use async_trait::async_trait;
use easy_error::Error;
use serde_json::json;
use std::sync::atomic::Ordering;
use std::sync::Arc;
use std::time::Duration;

/// connector whose upstream accepts and then never answers
struct Silent;
#[async_trait]
impl Connector for Silent {
    async fn connect(self: Arc<Self>, _state: Arc<GlobalState>, _ctx: ContextRef) -> Result<(), Error> {
        futures::future::pending::<()>().await;
        Ok(())
    }
    fn name(&self) -> &str {
        "silent"
    }
}

const HEAD: &[u8] = b"CONNECT a.b:80 HTTP/1.1\r\n\r\n";
const HEAD_SLOW: &[u8] = b"CONNECT slow.up:9 HTTP/1.1\r\n\r\n";

#[derive(Clone, Copy, Debug, PartialEq, Eq, Hash)]
pub enum Api {
    Live,
    History,
    RulesGet,
    RulesPost,
    Metrics,
    Logrotate,
    Status,
}
const APIS: [Api; 7] = [Api::Live, Api::History, Api::RulesGet, Api::RulesPost, Api::Metrics, Api::Logrotate, Api::Status];

#[derive(Clone, Debug)]
struct Scenario {
    /// the stalled client delivers this many bytes of its request head and then nothing, ever
    stall_after: Option<usize>,
    /// a second stalled client
    second_stall: Option<usize>,
    api: Api,
    /// a request whose upstream never answers is in flight
    silent_upstream: bool,
    gc: bool,
}

struct Probe {
    state: Arc<GlobalState>,
    api_result: Arc<std::sync::Mutex<Option<u16>>>,
    fresh_done: Arc<std::sync::Mutex<Vec<String>>>,
}

const RULES: &str = r#"[{"filter":"request.target.host == \"slow.up\"","target":"silent"},{"target":"A"}]"#;

fn build(sc: &Scenario, w: &mut World) -> Probe {
    let log: Log = Default::default();
    let a = Recorder::new("A", &[Feature::TcpForward], Upstream::Ok { origin_sends: b"o".to_vec() }, log.clone());
    let state = make_state(vec![a, Arc::new(Silent)], 10);
    // rules are installed synchronously before anything runs (uncontended locks complete in one poll)
    run_ready(state.set_rules(parse_rules(RULES).unwrap()), 100).expect("set_rules").expect("valid rules");
    w.background = sc.gc;
    if sc.gc {
        state.contexts.clone().gc_thread();
        w.advances = vec![Duration::from_millis(1100)];
        w.max_advances = 1;
    }
    // stalled clients: their own handshake may stay blocked for ever, nothing else may
    for (i, k) in [sc.stall_after, sc.second_stall].iter().enumerate() {
        if let Some(k) = k {
            let (stream, _ep) = w.endpoint(&format!("stalled{}", i), EpScript { inbound: vec![Msg::new(HEAD)], stall_after: Some(*k), ..Default::default() });
            let st = state.clone();
            w.task_may_block(&format!("stalled-client{}", i), async move {
                let ctx = st.contexts.create_context("http".into(), "10.0.0.9:1000".parse().unwrap()).await;
                ctx.write().await.set_client_stream(make_buffered_stream(stream));
                let (tx, _rx) = tokio::sync::mpsc::channel(4);
                let _ = h11c_handshake(ctx, tx, |_, _| async { easy_error::bail!("no") }).await;
            });
        }
    }
    if sc.silent_upstream {
        let (stream, _ep) = w.endpoint("slowclient", EpScript { inbound: vec![Msg::new(HEAD_SLOW)], ..Default::default() });
        let st = state.clone();
        w.task_may_block("request-to-silent-upstream", async move {
            let ctx = st.contexts.create_context("http".into(), "10.0.0.8:1000".parse().unwrap()).await;
            ctx.write().await.set_client_stream(make_buffered_stream(stream));
            let (tx, mut rx) = tokio::sync::mpsc::channel(4);
            if h11c_handshake(ctx, tx, |_, _| async { easy_error::bail!("no") }).await.is_ok() {
                let ctx = rx.recv().await.unwrap();
                crate::process_request(ctx, st).await;
            }
        });
    }
    // the API call
    let api_result = Arc::new(std::sync::Mutex::new(None));
    {
        let st = state.clone();
        let res = api_result.clone();
        let call = sc.api;
        w.task(&format!("api:{:?}", call), async move {
            let (code, _body) = match call {
                Api::Live => api::live(st).await,
                Api::History => api::history(st).await,
                Api::RulesGet => api::rules_get(st).await,
                Api::RulesPost => api::rules_post(st, parse_rules(RULES).unwrap()).await,
                Api::Metrics => api::metrics().await,
                Api::Logrotate => api::logrotate(st).await,
                Api::Status => api::status(st).await,
            };
            *res.lock().unwrap() = Some(code);
        });
    }
    // a complete fresh connection: accept -> handshake -> route -> relay -> finish
    let fresh_done: Arc<std::sync::Mutex<Vec<String>>> = Default::default();
    {
        let (stream, _ep) = w.endpoint(
            "fresh",
            EpScript { inbound: vec![Msg::new(HEAD), Msg::after(b"abc", Guard::TxContains(b"200".to_vec()))], eof: true, eof_guard: Some(Guard::TxContains(b"o".to_vec())), ..Default::default() },
        );
        let st = state.clone();
        let done = fresh_done.clone();
        w.task("fresh-connection", async move {
            let ctx = st.contexts.create_context("http".into(), "10.0.0.7:1000".parse().unwrap()).await;
            ctx.write().await.set_client_stream(make_buffered_stream(stream));
            let (tx, mut rx) = tokio::sync::mpsc::channel(4);
            match h11c_handshake(ctx, tx, |_, _| async { easy_error::bail!("no") }).await {
                Ok(()) => {
                    let ctx = rx.recv().await.unwrap();
                    crate::process_request(ctx.clone(), st).await;
                    let states: Vec<String> = ctx.read().await.props().state.iter().map(|s| format!("{:?}", s).split(',').next().unwrap_or("").to_string()).collect();
                    done.lock().unwrap().push(format!("finished:{}", states.len()));
                }
                Err(e) => done.lock().unwrap().push(format!("handshake-error:{}", e)),
            }
        });
    }
    Probe { state, api_result, fresh_done }
}

#[test]
fn check() {
    let chk = Check::new("C14");
    let thorough = chk.thorough();
    let stats = Stats::default();
    let mut scenarios: Vec<Scenario> = vec![];
    let ks: Vec<usize> = if thorough { (0..HEAD.len()).collect() } else { vec![0, 1, 7, 22, 23, 24, 25, 26] };
    for &api in &APIS {
        for &k in &ks {
            scenarios.push(Scenario { stall_after: Some(k), second_stall: None, api, silent_upstream: false, gc: false });
        }
        scenarios.push(Scenario { stall_after: None, second_stall: None, api, silent_upstream: true, gc: false });
        scenarios.push(Scenario { stall_after: Some(5), second_stall: Some(0), api, silent_upstream: false, gc: false });
        scenarios.push(Scenario { stall_after: Some(3), second_stall: None, api, silent_upstream: true, gc: true });
    }
    let cfg = Config { bound: if thorough { 3 } else { 2 }, horizon: 400, max_executions: if thorough { 3_000_000 } else { 250_000 } };
    let mut samples = vec![];
    let interleaved = std::sync::atomic::AtomicU64::new(0);
    for sc in &scenarios {
        let b = |w: &mut World| build(sc, w);
        let check = |x: &Exec<Probe>| {
            stats.distinct.add(&(x.blocked.clone(), x.user.api_result.lock().unwrap().clone(), x.user.fresh_done.lock().unwrap().clone()));
            if x.trace.windows(2).any(|w| w[0].starts_with("run:") && w[1].starts_with("run:") && w[0] != w[1]) {
                interleaved.fetch_add(1, Ordering::Relaxed);
            }
            if x.horizon_hit {
                return; // counted as a cap, never as a verdict
            }
            if !x.blocked_unexpected.is_empty() {
                let victims = x.blocked_unexpected.join("+");
                let cause = if sc.silent_upstream && sc.stall_after.is_none() { "upstream-that-never-answers" } else if sc.silent_upstream { "stalled-client+silent-upstream" } else { "stalled-http-client" };
                let class = format!("{}-blocks:{}", cause, x.blocked_unexpected.iter().map(|n| if n.starts_with("api:") { n.as_str() } else { "fresh-connection" }).collect::<Vec<_>>().join("+"));
                chk.violation(
                    "dataplane.wedge",
                    &class,
                    format!("with {:?}: at quiescence {} is still blocked although only the stalled peer(s) may be (schedule {:?})", sc, victims, x.trace),
                    json!({"scenario": format!("{:?}", sc), "choices": x.points.iter().map(|p| p.chosen).collect::<Vec<_>>(), "schedule": x.trace, "blocked": x.blocked}),
                );
                return;
            }
            // liveness oracle passed; also sanity: the API answered and the fresh connection was fully served
            let api_code = *x.user.api_result.lock().unwrap();
            let fresh = x.user.fresh_done.lock().unwrap().clone();
            if api_code.is_none() || fresh.len() != 1 || !fresh[0].starts_with("finished") {
                chk.violation(
                    "dataplane.served",
                    "fresh-connection-or-api-not-served",
                    format!("with {:?}: api={:?} fresh={:?} schedule {:?}", sc, api_code, fresh, x.trace),
                    json!({"scenario": format!("{:?}", sc), "choices": x.points.iter().map(|p| p.chosen).collect::<Vec<_>>()}),
                );
            }
        };
        explore(&cfg, &b, &check, &stats);
        if samples.len() < 3 {
            let x = execute(&b, &[], &[], cfg.horizon, &stats);
            samples.push(json!({"scenario": format!("{:?}", sc), "default_schedule": x.trace}));
        }
    }
    // ownership of nondeterminism: replay the default and one deviating schedule of a few scenarios twice
    let mut replays = 0;
    for sc in scenarios.iter().step_by(scenarios.len() / 6 + 1) {
        let b = |w: &mut World| build(sc, w);
        let obs = |x: &Exec<Probe>| format!("{:?}|{:?}|{:?}|{:?}", x.blocked, x.user.api_result.lock().unwrap(), x.user.fresh_done.lock().unwrap(), x.eps.iter().map(|e| e.lock().unwrap().tx.len()).collect::<Vec<_>>());
        for choices in [vec![], vec![1], vec![0, 1], vec![0, 0, 1]] {
            if let Err(e) = replay_twice(&b, &choices, cfg.horizon, &obs) {
                if !e.contains("replay divergence") {
                    machinery(format!("nondeterminism not owned: {e}"));
                }
            }
            replays += 1;
        }
    }
    let ex = stats.executions.load(Ordering::Relaxed);
    if chk.violation_count() == 0 && (ex < 1000 || interleaved.load(Ordering::Relaxed) == 0 || stats.distinct.len() < 2) {
        machinery(format!("vacuous: executions={ex} interleaved={} distinct={}", interleaved.load(Ordering::Relaxed), stats.distinct.len()));
    }
    let coverage = json!({
        "exhaustive": !stats.capped.load(Ordering::Relaxed),
        "states": stats.distinct.len(), "transitions": stats.steps.load(Ordering::Relaxed), "traces_validated_against_impl": ex,
        "evaluations": ex, "distinct_nontrivial": interleaved.load(Ordering::Relaxed),
        "rule": "executions = complete schedules of the real futures, explored depth-first with replay, all schedules with at most `deviation_bound` departures from the default (run the current task to its next await; deliver whole messages). non-trivial = executions in which two different tasks were actually interleaved. states = distinct terminal observations (blocked set, API status, fresh-connection outcome)",
        "scenarios": scenarios.len(), "stall_offsets": ks, "api_calls": APIS.iter().map(|a| format!("{:?}", a)).collect::<Vec<_>>(),
        "deviation_bound": cfg.bound, "horizon_steps": cfg.horizon, "horizon_hits": stats.horizon_hits.load(Ordering::Relaxed),
        "execution_cap_hit": stats.capped.load(Ordering::Relaxed), "max_depth": stats.max_depth.load(Ordering::Relaxed),
        "replays_compared": replays, "divergence_retries": stats.divergence_retries.load(Ordering::Relaxed),
        "samples": samples,
    });
    chk.finish(
        "model_checking",
        coverage,
        vec![
            "writes of the handshake phase are always accepted at once (a fresh connection's socket buffer is empty); back-pressure is only explored in the relay phase (C01/C04)".into(),
            "the SOCKS and QUIC listeners' accept paths need real sockets; the same stall matrix runs against the real binary in the E4 part".into(),
            "HashMap iteration order inside get_alive is not owned: executions that diverge on replay are retried until the recorded labels match".into(),
        ],
    );
}
