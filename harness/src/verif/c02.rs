//! C02 — routing: first matching rule wins, default deny, nothing leaks on deny; request attributes; cidr_match.
use super::common::*;
use std::net::IpAddr;

/// Reference CIDR containment (bit-mask). Malformed ip or cidr => false (documented behaviour of cidr_match).
/// A cidr whose host bits are not zero is malformed for the `cidr` crate's strict parser ("standard" notation
/// names the network); a bare address is a /32 or /128.
pub fn ref_cidr_match(ip: &str, cidr: &str) -> bool {
    let ip: IpAddr = match ip.parse() {
        Ok(i) => i,
        Err(_) => return false,
    };
    if cidr == "any" {
        return true;
    }
    let (net, len) = match cidr.split_once('/') {
        Some((n, l)) => {
            let l: u32 = match l.parse() {
                Ok(l) if !l_has_sign_or_space(cidr.split_once('/').unwrap().1) => l,
                _ => return false,
            };
            (n, Some(l))
        }
        None => (cidr, None),
    };
    let net: IpAddr = match net.parse() {
        Ok(n) => n,
        Err(_) => return false,
    };
    match (ip, net) {
        (IpAddr::V4(i), IpAddr::V4(n)) => {
            let len = len.unwrap_or(32);
            if len > 32 {
                return false;
            }
            let mask: u32 = if len == 0 { 0 } else { u32::MAX << (32 - len) };
            let n = u32::from(n);
            if n & !mask != 0 {
                return false;
            }
            u32::from(i) & mask == n
        }
        (IpAddr::V6(i), IpAddr::V6(n)) => {
            let len = len.unwrap_or(128);
            if len > 128 {
                return false;
            }
            let mask: u128 = if len == 0 { 0 } else { u128::MAX << (128 - len) };
            let n = u128::from(n);
            if n & !mask != 0 {
                return false;
            }
            u128::from(i) & mask == n
        }
        // a network of the other family never contains the address
        _ => false,
    }
}
fn l_has_sign_or_space(s: &str) -> bool {
    s.is_empty() || !s.bytes().all(|b| b.is_ascii_digit())
}

// ------------------------------------------------------------------------------------------------
// Engine E2: every rule list up to length 3 (thorough 4) over 12 rule shapes x a request grid x upstream feature
// sets, through the real GlobalState::set_rules + process_request with recorder connectors, against a 6-line
// first-match reference.
use super::world::*;
use crate::context::{ContextState, Feature, TargetAddress};
use crate::rules::script_ext::create_context;
use milu::script::Evaluatable;
use serde_json::json;
use std::sync::atomic::{AtomicU64, Ordering};
use std::sync::Arc;

#[derive(Clone, Copy, Debug, PartialEq, Eq, Hash)]
enum Filt {
    Absent,
    ListenerL1,
    Port80,
    HostIsOne, // to_integer(request.target.host) == 1 : evaluation error unless the host is numeric
    /// true by its left operand alone for listener l1 - the failing right operand must not be looked at then
    L1OrHostIsOne,
    /// false by its left operand alone unless the listener is l1: `!(false && <failing>)` is true
    NotL1AndHostIsFive,
    /// connectives of different precedence without parentheses: `a || b && c` is `a || (b && c)`
    L1OrPort80AndHostAb,
}
const FILTS: [Filt; 7] = [Filt::Absent, Filt::ListenerL1, Filt::Port80, Filt::HostIsOne, Filt::L1OrHostIsOne, Filt::NotL1AndHostIsFive, Filt::L1OrPort80AndHostAb];
/// the filters every list length is built from; the short-circuit filters join lists up to length 3
const BASE_FILTS: usize = 4;
const TARGETS: [&str; 3] = ["A", "B", "deny"];

fn filt_text(f: Filt) -> Option<&'static str> {
    match f {
        Filt::Absent => None,
        Filt::ListenerL1 => Some("request.listener == \"l1\""),
        Filt::Port80 => Some("request.target.port == 80"),
        Filt::HostIsOne => Some("to_integer(request.target.host) == 1"),
        Filt::L1OrHostIsOne => Some("request.listener == \"l1\" || to_integer(request.target.host) == 1"),
        Filt::NotL1AndHostIsFive => Some("!(request.listener == \"l1\" && to_integer(request.target.host) == 5)"),
        Filt::L1OrPort80AndHostAb => Some("request.listener == \"l1\" || request.target.port == 80 && request.target.host == \"a.b\""),
    }
}

fn filt_matches(f: Filt, r: &Req) -> bool {
    match f {
        Filt::Absent => true,
        Filt::ListenerL1 => r.listener == "l1",
        Filt::Port80 => r.target.port() == 80,
        // an evaluation error (non numeric host) counts as not matching
        Filt::HostIsOne => r.target.host().parse::<i64>().map(|v| v == 1).unwrap_or(false),
        Filt::L1OrHostIsOne => r.listener == "l1" || r.target.host().parse::<i64>().map(|v| v == 1).unwrap_or(false),
        Filt::NotL1AndHostIsFive => r.listener != "l1" || r.target.host().parse::<i64>().map(|v| v != 5).unwrap_or(false),
        Filt::L1OrPort80AndHostAb => r.listener == "l1" || (r.target.port() == 80 && r.target.host() == "a.b"),
    }
}

fn requests(all: bool) -> Vec<Req> {
    let mut v = vec![];
    let targets: Vec<TargetAddress> = vec![
        TargetAddress::DomainPort("a.b".into(), 0),
        TargetAddress::DomainPort("1".into(), 0),
        TargetAddress::SocketAddr("1.2.3.4:0".parse().unwrap()),
        TargetAddress::SocketAddr("[2001:db8::1]:0".parse().unwrap()),
    ];
    for listener in ["l1", "l2"] {
        for source in ["127.0.0.1:5000", "[::1]:5000"] {
            for t in &targets {
                for port in [0u16, 80, 65535] {
                    for feature in [Feature::TcpForward, Feature::UdpForward] {
                        let target = match t {
                            TargetAddress::DomainPort(h, _) => TargetAddress::DomainPort(h.clone(), port),
                            TargetAddress::SocketAddr(a) => TargetAddress::SocketAddr(std::net::SocketAddr::new(a.ip(), port)),
                            x => x.clone(),
                        };
                        v.push(Req { listener: listener.into(), source: source.parse().unwrap(), target, feature });
                    }
                }
            }
        }
    }
    if all {
        v
    } else {
        // 12 representatives: every filter outcome combination x both features
        let pick = |l: &str, host: &str, port: u16, f: Feature| v.iter().find(|r| r.listener == l && r.target.host() == host && r.target.port() == port && r.feature == f && r.source.is_ipv4()).unwrap().clone();
        let mut out = vec![];
        for f in [Feature::TcpForward, Feature::UdpForward] {
            out.push(pick("l1", "a.b", 80, f));
            out.push(pick("l1", "1", 0, f));
            out.push(pick("l2", "a.b", 0, f));
            out.push(pick("l2", "1", 80, f));
            out.push(pick("l2", "1.2.3.4", 80, f));
            out.push(pick("l1", "2001:db8::1", 65535, f));
        }
        out
    }
}

fn lists(maxlen: usize) -> Vec<Vec<(Filt, &'static str)>> {
    let mut all: Vec<Vec<(Filt, &'static str)>> = vec![vec![]];
    let mut cur: Vec<Vec<(Filt, &'static str)>> = vec![vec![]];
    for len in 1..=maxlen {
        let filts = if len <= 3 { &FILTS[..] } else { &FILTS[..BASE_FILTS] };
        let shapes: Vec<(Filt, &'static str)> = filts.iter().flat_map(|f| TARGETS.iter().map(move |t| (*f, *t))).collect();
        if len == 4 {
            // length 4 over the base filters only
            cur.retain(|l| l.iter().all(|(f, _)| FILTS[..BASE_FILTS].contains(f)));
        }
        let mut next = vec![];
        for l in &cur {
            for s in &shapes {
                let mut n = l.clone();
                n.push(*s);
                next.push(n);
            }
        }
        all.extend(next.iter().cloned());
        cur = next;
    }
    all
}

fn rules_json(list: &[(Filt, &'static str)]) -> String {
    let v: Vec<serde_json::Value> = list
        .iter()
        .map(|(f, t)| match filt_text(*f) {
            Some(txt) => json!({"filter": txt, "target": t}),
            None => json!({"target": t}),
        })
        .collect();
    serde_json::to_string(&v).unwrap()
}

/// reference decision: Some(connector name) or None (refused)
fn decide(list: &[(Filt, &'static str)], r: &Req, feats: &std::collections::HashMap<&str, Vec<Feature>>) -> Option<String> {
    let (_, target) = list.iter().find(|(f, _)| filt_matches(*f, r))?;
    if *target == "deny" {
        return None;
    }
    if !feats[target].contains(&r.feature) {
        return None;
    }
    Some(target.to_string())
}

#[test]
fn check() {
    let chk = Check::new("C02");
    let thorough = chk.thorough();
    let runs = AtomicU64::new(0);
    let nontrivial = AtomicU64::new(0);
    let outcomes = Distinct::default();

    // ---- routing decisions
    let featsets: Vec<(Vec<Feature>, Vec<Feature>)> = vec![
        (vec![Feature::TcpForward], vec![Feature::TcpForward, Feature::UdpForward]),
        (vec![Feature::TcpForward, Feature::UdpForward], vec![Feature::TcpForward]),
    ];
    let plan: Vec<(usize, bool)> = if thorough { vec![(3, true), (4, false)] } else { vec![(3, false)] };
    for (maxlen, all_reqs) in plan {
        let ls = lists(maxlen);
        let reqs = requests(all_reqs);
        par_for(ls.len(), |li| {
            let list = &ls[li];
            if maxlen == 4 && list.len() < 4 {
                return; // shorter lists were done with the full request grid
            }
            // the list is installed on a fresh state, and on a state that already carried another list: the same
            // filters with every target rotated (A->B->deny->A), or the list reversed - whatever was in force before
            // must not show through
            let rotated: Vec<(Filt, &'static str)> = list.iter().map(|(f, t)| (*f, match *t { "A" => "B", "B" => "deny", _ => "A" })).collect();
            let reversed: Vec<(Filt, &'static str)> = list.iter().rev().cloned().collect();
            let prevs: Vec<Option<&Vec<(Filt, &'static str)>>> = if list.is_empty() || maxlen == 4 { vec![None] } else { vec![None, Some(&rotated), Some(&reversed)] };
            for (prev, (fa, fb)) in prevs.iter().flat_map(|p| featsets.iter().map(move |f| (p, f))) {
                let log: Log = Default::default();
                let a = Recorder::new("A", fa, Upstream::Ok { origin_sends: b"o".to_vec() }, log.clone());
                let b = Recorder::new("B", fb, Upstream::Ok { origin_sends: b"o".to_vec() }, log.clone());
                let state = make_state(vec![a.clone(), b.clone()], 0);
                if let Some(p) = prev {
                    let rules = parse_rules(&rules_json(p)).expect("rules parse");
                    if let Err(e) = block_on(state.set_rules(rules)) {
                        machinery(format!("set_rules failed for a valid list {:?}: {}", p, e));
                    }
                }
                let rules = parse_rules(&rules_json(list)).expect("rules parse");
                if let Err(e) = block_on(state.set_rules(rules)) {
                    machinery(format!("set_rules failed for a valid list {:?}: {}", list, e));
                }
                let mut feats = std::collections::HashMap::new();
                feats.insert("A", fa.clone());
                feats.insert("B", fb.clone());
                for r in &reqs {
                    runs.fetch_add(1, Ordering::Relaxed);
                    log.lock().unwrap().clear();
                    a.origin_rx.lock().unwrap().clear();
                    b.origin_rx.lock().unwrap().clear();
                    let cb: Log = Default::default();
                    let expect = decide(list, r, &feats);
                    // non-trivial: a later rule (or dropping the feature gate) would give a different answer
                    let alt1 = decide(&list[list.len().min(1)..], r, &feats);
                    if alt1 != expect || list.iter().filter(|(f, _)| filt_matches(*f, r)).count() > 1 {
                        nontrivial.fetch_add(1, Ordering::Relaxed);
                    }
                    let res = catch(|| {
                        block_on_timeout(30, async {
                            let (ctx, client_rx) = make_request(&state, r, b"abc", cb.clone()).await;
                            crate::process_request(ctx.clone(), state.clone()).await;
                            let props = ctx.read().await.props().clone();
                            (props, client_rx)
                        })
                    });
                    let replay = json!({"installed_before": prev.map(|p| serde_json::from_str::<serde_json::Value>(&rules_json(p)).unwrap()), "rules": serde_json::from_str::<serde_json::Value>(&rules_json(list)).unwrap(), "request": format!("{:?}", r), "features": {"A": format!("{:?}", fa), "B": format!("{:?}", fb)}, "expected": expect});
                    let (props, _client_rx) = match res {
                        Err(p) => {
                            chk.violation("process_request", "panic", format!("{:?} {:?}: {p}", list, r), replay);
                            continue;
                        }
                        Ok(None) => {
                            chk.violation("process_request", "hang", format!("{:?} {:?}: did not finish within 30 virtual seconds", list, r), replay);
                            continue;
                        }
                        Ok(Some(x)) => x,
                    };
                    let calls: Vec<String> = log.lock().unwrap().clone();
                    let cbs: Vec<String> = cb.lock().unwrap().clone();
                    let origin_bytes: Vec<u8> = a.origin_rx.lock().unwrap().iter().chain(b.origin_rx.lock().unwrap().iter()).flat_map(|x| x.lock().unwrap().clone()).collect();
                    outcomes.add(&(calls.clone(), cbs.iter().map(|c| c.split(':').next().unwrap().to_string()).collect::<Vec<_>>(), props.connector.clone()));
                    let class_of = |what: &str| {
                        // class = what went wrong + the shape of the deciding situation
                        let first = list.iter().position(|(f, _)| filt_matches(*f, r));
                        let sit = match first {
                            None => "no-rule-matches".to_string(),
                            Some(i) => format!(
                                "first-match:{}{}",
                                if list[i].1 == "deny" { "deny" } else if !feats[list[i].1].contains(&r.feature) { "feature-missing" } else { "allow" },
                                if list[..i].iter().any(|(f, _)| *f == Filt::HostIsOne && r.target.host().parse::<i64>().is_err()) { "+earlier-filter-errors" } else { "" }
                            ),
                        };
                        format!("{what}|{sit}")
                    };
                    match &expect {
                        Some(name) => {
                            let ok_calls = calls == vec![format!("connect:{}", name)];
                            if !ok_calls {
                                chk.violation("routing.decision", &class_of("wrong-upstream"), format!("rules {:?} request {:?}: expected exactly one connect to {name}, saw {:?}", list, r, calls), replay.clone());
                            } else if props.connector.as_deref() != Some(name.as_str()) {
                                chk.violation("routing.record", &class_of("recorded-connector-differs"), format!("used {name} but recorded {:?}", props.connector), replay.clone());
                            } else if !cbs.iter().any(|c| c == "on_connect") || cbs.iter().any(|c| c.starts_with("on_error")) {
                                chk.violation("routing.callback", &class_of("no-success-callback"), format!("callbacks {:?}", cbs), replay.clone());
                            } else if origin_bytes != b"abc" {
                                chk.violation("routing.payload", &class_of("early-payload-not-forwarded"), format!("origin received {:?}", origin_bytes), replay.clone());
                            }
                        }
                        None => {
                            if !calls.is_empty() {
                                chk.violation("routing.decision", &class_of("upstream-opened-on-refusal"), format!("rules {:?} request {:?}: must be refused, but saw {:?}", list, r, calls), replay.clone());
                            } else if !origin_bytes.is_empty() {
                                chk.violation("routing.payload", &class_of("payload-leaked-on-refusal"), format!("origin received {:?}", origin_bytes), replay.clone());
                            } else if !cbs.iter().any(|c| c.starts_with("on_error")) || cbs.iter().any(|c| c == "on_connect") {
                                chk.violation("routing.callback", &class_of("client-not-refused"), format!("callbacks {:?}", cbs), replay.clone());
                            } else if props.state.last().map(|s| format!("{:?}", s).contains("ErrorOccured")) != Some(true) {
                                chk.violation("routing.record", &class_of("refusal-not-recorded"), format!("states {:?}", props.state), replay.clone());
                            }
                        }
                    }
                }
            }
        });
    }

    // ---- request attributes visible to filters equal the connection's values
    let mut attr_cases = 0u64;
    for r in requests(true) {
        let props = Arc::new(crate::context::ContextProps { listener: r.listener.clone(), source: r.source, target: r.target.clone(), request_feature: r.feature, ..Default::default() });
        let expect: Vec<(&str, String)> = vec![
            ("request.listener", r.listener.clone()),
            ("request.feature", format!("{:?}", r.feature)),
            ("request.source", r.source.to_string()),
            ("request.source.host", r.source.ip().to_string()),
            ("to_string(request.source.port)", r.source.port().to_string()),
            ("request.source.type", if r.source.is_ipv4() { "ipv4" } else { "ipv6" }.to_string()),
            ("request.target", r.target.to_string()),
            ("request.target.host", r.target.host()),
            ("to_string(request.target.port)", r.target.port().to_string()),
            ("request.target.type", r.target.r#type().to_string()),
        ];
        for (expr, want) in expect {
            attr_cases += 1;
            let got = catch(|| {
                let v = milu::parser::parse(expr).map_err(|e| e.to_string())?;
                let ctx = Arc::new(create_context(props.clone()));
                v.real_value_of(ctx).map_err(|e| e.to_string())
            });
            let ok = matches!(&got, Ok(Ok(milu::script::Value::String(s))) if *s == want);
            if !ok {
                chk.violation("filter.attributes", &format!("attribute:{}", expr), format!("{expr} for {:?}: got {:?}, connection value {want}", r, got.map(|x| x.map(|v| v.to_string()))), json!({"expr": expr, "request": format!("{:?}", r)}));
            }
        }
    }

    // ---- cidr_match vs bit-mask reference
    let mut cidr_cases = 0u64;
    {
        let ctx = Arc::new(create_context(Default::default()));
        let mut probe = |ip: String, cidr: String| {
            cidr_cases += 1;
            let expr = format!("cidr_match({:?}, {:?})", ip, cidr);
            let got = catch(|| milu::parser::parse(&expr).map_err(|e| e.to_string()).and_then(|v| v.value_of(ctx.clone()).map_err(|e| e.to_string())));
            let want = ref_cidr_match(&ip, &cidr);
            let ok = matches!(&got, Ok(Ok(milu::script::Value::Boolean(b))) if *b == want);
            if !ok {
                let fam = if cidr.contains(':') { "ipv6" } else { "ipv4" };
                chk.violation("cidr_match", &format!("disagrees-with-containment:{fam}"), format!("{expr}: got {:?}, standard containment says {want}", got.map(|x| x.map(|v| v.to_string()))), json!({"ip": ip, "cidr": cidr}));
            }
        };
        for base in [0u32, 0x01020304, 0x0a000000, 0x7f000001, 0xc0a80101, 0xffffffff] {
            for len in 0..=32u32 {
                let mask: u32 = if len == 0 { 0 } else { u32::MAX << (32 - len) };
                let net = base & mask;
                let last = net | !mask;
                let cidr = format!("{}/{}", std::net::Ipv4Addr::from(net), len);
                for ip in [net.wrapping_sub(1), net, last, last.wrapping_add(1), base] {
                    probe(std::net::Ipv4Addr::from(ip).to_string(), cidr.clone());
                }
                // host bits set in the network part, and an IPv6 address against an IPv4 network
                probe(std::net::Ipv4Addr::from(base).to_string(), format!("{}/{}", std::net::Ipv4Addr::from(base), len));
                probe("::1".to_string(), cidr.clone());
            }
        }
        for base in [0u128, 1, 0x20010db8_00000000_00000000_00000001, 0xfe800000_00000000_00000000_00000001, u128::MAX] {
            for len in 0..=128u32 {
                let mask: u128 = if len == 0 { 0 } else { u128::MAX << (128 - len) };
                let net = base & mask;
                let last = net | !mask;
                let cidr = format!("{}/{}", std::net::Ipv6Addr::from(net), len);
                for ip in [net.wrapping_sub(1), net, last, last.wrapping_add(1), base] {
                    probe(std::net::Ipv6Addr::from(ip).to_string(), cidr.clone());
                }
                probe("1.2.3.4".to_string(), cidr.clone());
            }
        }
        for (ip, cidr) in [("1.2.3.4", "1.2.3.4"), ("1.2.3.4", "1.2.3.4/33"), ("1.2.3.4", "1.2.3.0/-1"), ("1.2.3.4", ""), ("", "1.2.3.0/24"), ("a.b", "0.0.0.0/0"), ("1.2.3.4", "0.0.0.0/0"), ("::1", "::/0"), ("1.2.3.4", "1.2.3.0/24 "), ("::ffff:1.2.3.4", "1.2.3.0/24"), ("1.2.3.4", "::ffff:1.2.3.0/120"), ("::1", "::1/129"), ("::1", "::1")] {
            probe(ip.to_string(), cidr.to_string());
        }
    }

    let n = runs.load(Ordering::Relaxed);
    let nt = nontrivial.load(Ordering::Relaxed);
    if chk.violation_count() == 0 && (n < 20_000 || nt < 1000 || outcomes.len() < 3) {
        machinery(format!("vacuous: runs={n} nontrivial={nt} outcomes={}", outcomes.len()));
    }
    let coverage = json!({
        "exhaustive": true,
        "states": outcomes.len(), "transitions": n, "traces_validated_against_impl": n,
        "evaluations": n + attr_cases + cidr_cases, "distinct_nontrivial": nt,
        "rule": "all rule lists of length 0..3 (thorough: + all of length 4) over 21 shapes (7 filters incl. one mixing || and && without parentheses, one that fails to evaluate and two that are decided by their left operand while the right one fails x targets A,B,deny; length 4 over the 12 base shapes) x request grid (quick 12 representatives, thorough 96: listener x source family x target kind x port x feature) x 2 upstream feature sets, each through the real set_rules + process_request with recorder connectors, on a fresh state and on a state that carried the same filters with rotated targets / the reversed list before. non-trivial = more than one rule matches or removing the first rule changes the decision (counted per run). states = distinct (connect calls, callbacks, recorded connector) observations",
        "process_request_runs": n, "attribute_cases": attr_cases, "cidr_cases": cidr_cases,
        "samples": [
            {"rules": [{"filter": "to_integer(request.target.host) == 1", "target": "A"}, {"filter": "request.listener == \"l1\"", "target": "deny"}, {"target": "B"}], "request": "l1 127.0.0.1 -> a.b:80 UdpForward", "expected": "refused"},
            {"cidr": "cidr_match(\"10.255.255.255\", \"10.0.0.0/8\")"}
        ],
    });
    chk.finish(
        "model_checking",
        coverage,
        vec![
            "upstreams are recorder connectors installed in the real GlobalState.connectors map; the real load balancer's feature set is covered under C17".into(),
            "filters beyond the four classes are C08's subject; rule lists longer than 4 are not enumerated".into(),
        ],
    );
}
