//! C02 — routing: first matching rule wins, default deny, nothing leaks on deny; request attributes; cidr_match.
use super::common::*;
use std::net::IpAddr;

/// Reference CIDR containment (bit-mask). Malformed ip or cidr => false (documented behaviour of cidr_match).
/// A cidr whose host bits are not zero is malformed for the `cidr` crate's strict parser ("standard" notation
/// names the network); a bare address is a /32 or /128.
pub fn ref_cidr_match(ip: &str, cidr: &str) -> bool {
    let ip: IpAddr = match ip.parse() {
        Ok(i) => i,
        Err(_) => return false,
    };
    if cidr == "any" {
        return true;
    }
    let (net, len) = match cidr.split_once('/') {
        Some((n, l)) => {
            let l: u32 = match l.parse() {
                Ok(l) if !l_has_sign_or_space(cidr.split_once('/').unwrap().1) => l,
                _ => return false,
            };
            (n, Some(l))
        }
        None => (cidr, None),
    };
    let net: IpAddr = match net.parse() {
        Ok(n) => n,
        Err(_) => return false,
    };
    match (ip, net) {
        (IpAddr::V4(i), IpAddr::V4(n)) => {
            let len = len.unwrap_or(32);
            if len > 32 {
                return false;
            }
            let mask: u32 = if len == 0 { 0 } else { u32::MAX << (32 - len) };
            let n = u32::from(n);
            if n & !mask != 0 {
                return false;
            }
            u32::from(i) & mask == n
        }
        (IpAddr::V6(i), IpAddr::V6(n)) => {
            let len = len.unwrap_or(128);
            if len > 128 {
                return false;
            }
            let mask: u128 = if len == 0 { 0 } else { u128::MAX << (128 - len) };
            let n = u128::from(n);
            if n & !mask != 0 {
                return false;
            }
            u128::from(i) & mask == n
        }
        // a network of the other family never contains the address
        _ => false,
    }
}
fn l_has_sign_or_space(s: &str) -> bool {
    s.is_empty() || !s.bytes().all(|b| b.is_ascii_digit())
}
