//! C06 — the client is told 'established' iff the upstream is; failures get one complete reply.
//! Engine E1 (HTTP CONNECT side, in memory): outcome class x upstream codec, every schedule within the deviation
//! bound; the client's byte stream is parsed by a strict HTTP/1.1 response reader. The SOCKS listener's replies are
//! checked on real sockets (E4 part).
use super::common::*;
use super::relay::*;
use super::xsched::*;
use serde_json::json;
use std::sync::atomic::{AtomicU64, Ordering};

#[derive(Clone, Copy, Debug, PartialEq, Eq, Hash)]
enum Req {
    Ok,
    Denied,
    NoRule,
    UnsupportedFeature,
    BadMethod,
    BadProtocol,
    BadTarget,
}

/// strict parse of the client-side byte stream into responses: (status, headers, body)
fn parse_responses(mut b: &[u8]) -> Result<Vec<(u16, Vec<(String, String)>, Vec<u8>)>, String> {
    let mut out = vec![];
    while !b.is_empty() {
        let end = b.windows(4).position(|w| w == b"\r\n\r\n").ok_or_else(|| format!("incomplete head: {:?}", String::from_utf8_lossy(b)))?;
        let head = std::str::from_utf8(&b[..end]).map_err(|_| "non-utf8 head".to_string())?;
        let mut lines = head.split("\r\n");
        let status = lines.next().unwrap();
        let mut sp = status.splitn(3, ' ');
        let ver = sp.next().unwrap_or("");
        let code: u16 = sp.next().unwrap_or("").parse().map_err(|_| format!("bad status line {status:?}"))?;
        if !ver.starts_with("HTTP/1.") {
            return Err(format!("bad status line {status:?}"));
        }
        let mut headers = vec![];
        for l in lines {
            let (k, v) = l.split_once(": ").ok_or_else(|| format!("bad header line {l:?}"))?;
            headers.push((k.to_string(), v.to_string()));
        }
        b = &b[end + 4..];
        let cl = headers.iter().find(|(k, _)| k.eq_ignore_ascii_case("content-length")).map(|(_, v)| v.parse::<usize>());
        let body = match cl {
            Some(Ok(n)) => {
                if b.len() < n {
                    return Err(format!("status {code}: Content-Length {n} but only {} body byte(s) before the connection ended", b.len()));
                }
                let body = b[..n].to_vec();
                b = &b[n..];
                body
            }
            Some(Err(_)) => return Err("bad Content-Length".into()),
            None => {
                if (200..300).contains(&code) {
                    // a 2xx reply to CONNECT has no body: what follows is tunnel payload
                    out.push((code, headers, vec![]));
                    return Ok(out);
                }
                let body = b.to_vec();
                b = &[];
                body
            }
        };
        out.push((code, headers, body));
    }
    Ok(out)
}

/// frame endpoint scripted by the harness: reads yield the queued results, then block for ever (or end / fail)
struct ScriptedFrames {
    reads: std::collections::VecDeque<std::io::Result<Option<crate::common::frames::Frame>>>,
    then_pending: bool,
    write_fails: bool,
}
#[async_trait::async_trait]
impl crate::common::frames::FrameReader for ScriptedFrames {
    async fn read(&mut self) -> std::io::Result<Option<crate::common::frames::Frame>> {
        match self.reads.pop_front() {
            Some(r) => r,
            None if self.then_pending => std::future::pending().await,
            None => Ok(None),
        }
    }
}
struct ScriptedWriter {
    fails: bool,
}
#[async_trait::async_trait]
impl crate::common::frames::FrameWriter for ScriptedWriter {
    async fn write(&mut self, frame: crate::common::frames::Frame) -> std::io::Result<usize> {
        if self.fails {
            Err(std::io::Error::new(std::io::ErrorKind::ConnectionRefused, "refused"))
        } else {
            Ok(frame.len())
        }
    }
    async fn shutdown(&mut self) -> std::io::Result<()> {
        Ok(())
    }
}

/// connector that serves a UDP request with harness frames
struct FrameConnector {
    name: String,
    ending: &'static str,
}
#[async_trait::async_trait]
impl crate::connectors::Connector for FrameConnector {
    fn name(&self) -> &str {
        &self.name
    }
    fn features(&self) -> &[crate::context::Feature] {
        &[crate::context::Feature::TcpForward, crate::context::Feature::UdpForward, crate::context::Feature::UdpBind]
    }
    async fn init(&mut self) -> Result<(), easy_error::Error> {
        Ok(())
    }
    async fn connect(self: std::sync::Arc<Self>, _state: std::sync::Arc<crate::GlobalState>, ctx: crate::context::ContextRef) -> Result<(), easy_error::Error> {
        let mut reads = std::collections::VecDeque::new();
        let (then_pending, write_fails) = match self.ending {
            "origin-read-error" => {
                reads.push_back(Err(std::io::Error::new(std::io::ErrorKind::ConnectionRefused, "refused")));
                (true, false)
            }
            "origin-write-error" => (true, true),
            "origin-ends" => (false, false),
            _ => (true, false), // idle timeout
        };
        let r = ScriptedFrames { reads, then_pending, write_fails };
        ctx.write().await.set_server_frames((Box::new(r), Box::new(ScriptedWriter { fails: write_fails })));
        Ok(())
    }
}

fn datagram_channel_sessions(chk: &Check) -> usize {
    use super::io::ChunkStream;
    use super::world::*;
    use crate::common::frames::Frame;
    use crate::common::h11c::h11c_handshake;
    use crate::context::{make_buffered_stream, TargetAddress};
    let mut n = 0;
    for channel in ["quic-datagrams", "inline"] {
        for ending in ["origin-read-error", "origin-write-error"] {
            for client_sends_frame in [false, true] {
                // (endings by idle timeout run on the wall clock and are exercised on real sockets, E4 part)
                if ending == "origin-write-error" && (!client_sends_frame || channel == "inline") {
                    continue; // (inline: the client's frames travel in the request stream, scripted frames are not used)
                }
                n += 1;
                let res = catch(|| {
                    block_on_timeout(60, async move {
                        let conn: std::sync::Arc<dyn crate::connectors::Connector> = std::sync::Arc::new(FrameConnector { name: "up".into(), ending });
                        let state = make_state(vec![conn], 0);
                        state.set_rules(parse_rules("[{\"target\":\"up\"}]").unwrap()).await.unwrap();
                        let ctx = state.contexts.create_context("q".into(), "127.0.0.1:9".parse().unwrap()).await;
                        let head = format!("CONNECT 10.1.2.3:53 HTTP/1.1\r\nProxy-Protocol: udp\r\nProxy-Channel: {channel}\r\n\r\n");
                        let mut s = ChunkStream::new(vec![head.into_bytes()]);
                        s.eof = false; // the request stream stays open
                        let client_rx = s.written.clone();
                        ctx.write().await.set_client_stream(make_buffered_stream(s)).set_idle_timeout(2);
                        let (tx, mut rx) = tokio::sync::mpsc::channel(4);
                        let frames_fn = move |_ch: &str, _id: u32| async move {
                            let mut reads = std::collections::VecDeque::new();
                            if client_sends_frame {
                                let mut f = Frame::from_body(bytes::Bytes::from_static(b"dgram"));
                                f.addr = Some(TargetAddress::SocketAddr("10.1.2.3:53".parse().unwrap()));
                                reads.push_back(Ok(Some(f)));
                            }
                            let r: crate::common::frames::FrameIO = (Box::new(ScriptedFrames { reads, then_pending: true, write_fails: false }), Box::new(ScriptedWriter { fails: false }));
                            Ok(r)
                        };
                        let hs = h11c_handshake(ctx.clone(), tx, frames_fn).await;
                        if hs.is_ok() {
                            if let Ok(c) = rx.try_recv() {
                                crate::process_request(c, state.clone()).await;
                            }
                        }
                        drop(ctx);
                        let bytes = client_rx.lock().unwrap().clone();
                        bytes
                    })
                });
                let what = format!("channel {channel}, {ending}, client {}", if client_sends_frame { "sends a datagram" } else { "is silent" });
                match res {
                    Err(p) => chk.violation("reply.once", "panic:udp-datagram-channel", format!("{what}: {p}"), json!({"channel": channel, "ending": ending})),
                    Ok(None) => chk.violation("reply.once", "hang:udp-datagram-channel", format!("{what}: session did not end within 60 virtual seconds"), json!({"channel": channel, "ending": ending})),
                    Ok(Some(bytes)) => {
                        // inline: after the 200 the stream carries frames (binary); only look at what precedes them
                        let text = String::from_utf8_lossy(&bytes).to_string();
                        let statuses = text.matches("HTTP/1.1 ").count();
                        if !text.starts_with("HTTP/1.1 200") {
                            chk.violation("reply.iff", &format!("udp-session-not-established:{channel}"), format!("{what}: first reply {:?}", &text[..text.len().min(60)]), json!({"channel": channel, "ending": ending}));
                        } else if statuses != 1 {
                            chk.violation("reply.once", &format!("second-reply-after-success:udp-{channel}:{ending}"), format!("{what}: the request stream carries {statuses} status lines: {:?}", &text[..text.len().min(200)]), json!({"channel": channel, "ending": ending, "client_sends_frame": client_sends_frame}));
                        }
                    }
                }
            }
        }
    }
    n
}

#[test]
fn check() {
    let chk = Check::new("C06");
    let thorough = chk.thorough();
    let stats = Stats::default();
    let cfg = Config { bound: if thorough { 3 } else { 2 }, horizon: 400, max_executions: 3_000_000 };
    let mut scs: Vec<(Req, RelaySc)> = vec![];
    for up in UPS {
        for mode in [UpMode::Accept, UpMode::ConnectError, UpMode::ProxySaysNo, UpMode::ClosesMidHandshake] {
            let mut sc = RelaySc::basic(up);
            sc.mode = mode;
            sc.o_msgs = vec![b"o".to_vec()];
            sc.c_msgs = vec![b"c".to_vec()];
            sc.segment = vec![1];
            scs.push((Req::Ok, sc));
        }
        for (req, rules, head) in [
            (Req::Denied, r#"[{"target":"deny"}]"#, &b"CONNECT a.b:80 HTTP/1.1\r\n\r\n"[..]),
            (Req::NoRule, r#"[{"filter":"request.listener == \"nope\"","target":"up"}]"#, &b"CONNECT a.b:80 HTTP/1.1\r\n\r\n"[..]),
            (Req::NoRule, r#"[]"#, &b"CONNECT a.b:80 HTTP/1.1\r\n\r\n"[..]),
            (Req::UnsupportedFeature, r#"[{"target":"up"}]"#, &b"CONNECT a.b:80 HTTP/1.1\r\nProxy-Protocol: udp\r\n\r\n"[..]),
            (Req::BadMethod, r#"[{"target":"up"}]"#, &b"GET / HTTP/1.1\r\n\r\n"[..]),
            (Req::BadProtocol, r#"[{"target":"up"}]"#, &b"CONNECT a.b:80 HTTP/1.1\r\nProxy-Protocol: sctp\r\n\r\n"[..]),
            (Req::BadTarget, r#"[{"target":"up"}]"#, &b"CONNECT nohostport HTTP/1.1\r\n\r\n"[..]),
        ] {
            if up != Up::Direct && !thorough {
                continue;
            }
            let mut sc = RelaySc::basic(up);
            sc.rules = rules;
            sc.head = head.to_vec();
            sc.early = b"E".to_vec();
            scs.push((req, sc));
        }
    }
    let interesting = AtomicU64::new(0);
    par_for(scs.len(), |i| {
        let (req, sc) = &scs[i];
        let b = |w: &mut World| add_tunnel(w, sc);
        let check = |x: &Exec<Tunnel>| {
            if x.horizon_hit {
                return;
            }
            let client_tx = x.user.client.lock().unwrap().tx.clone();
            let origin_tx = x.user.origin.lock().unwrap().tx.clone();
            let client_dropped = x.user.client.lock().unwrap().dropped;
            let established = x.user.log.lock().unwrap().iter().any(|l| l == "connect:established");
            let contacted = x.user.log.lock().unwrap().iter().any(|l| l == "connect:begin");
            let parsed = parse_responses(&client_tx);
            stats.distinct.add(&(format!("{:?}", req), sc.up, format!("{:?}", sc.mode), parsed.as_ref().map(|p| p.iter().map(|r| r.0).collect::<Vec<_>>()).map_err(|e| e.len()), established));
            let outcome = format!("{:?}/{:?}/{:?}", req, sc.up, sc.mode);
            let replay = json!({"request": format!("{:?}", req), "scenario": format!("{:?}", sc), "choices": x.points.iter().map(|p| p.chosen).collect::<Vec<_>>(), "schedule": x.trace, "client_received": String::from_utf8_lossy(&client_tx)});
            if !x.blocked.is_empty() {
                chk.violation("reply.progress", &format!("connection-never-ends:{:?}/{:?}", req, sc.mode), format!("{outcome}: blocked {:?} (schedule {:?})", x.blocked, x.trace), replay);
                return;
            }
            interesting.fetch_add(1, Ordering::Relaxed);
            let should_succeed = *req == Req::Ok && sc.mode == UpMode::Accept;
            let resp = match parsed {
                Err(e) => {
                    chk.violation("reply.wellformed", &format!("incomplete-or-malformed-reply:{}", if should_succeed { "success" } else { "failure" }), format!("{outcome}: {e}"), replay);
                    return;
                }
                Ok(r) => r,
            };
            let n2xx = resp.iter().filter(|r| (200..300).contains(&r.0)).count();
            if resp.len() > 1 {
                chk.violation("reply.count", "more-than-one-reply", format!("{outcome}: statuses {:?}", resp.iter().map(|r| r.0).collect::<Vec<_>>()), replay);
                return;
            }
            if should_succeed {
                if n2xx != 1 {
                    chk.violation("reply.iff", "upstream-established-but-client-not-told", format!("{outcome}: upstream established={established}, client got {:?}", resp.iter().map(|r| r.0).collect::<Vec<_>>()), replay);
                }
            } else {
                if n2xx > 0 {
                    chk.violation("reply.iff", "told-established-without-upstream", format!("{outcome}: client got 200 although the upstream leg is not established (established={established})"), replay);
                } else if resp.is_empty() {
                    chk.violation("reply.wellformed", "no-reply-before-close", format!("{outcome}: the connection was closed without any reply"), replay);
                } else if !client_dropped {
                    chk.violation("reply.close", "connection-not-closed-after-failure", format!("{outcome}"), replay);
                }
                if matches!(req, Req::Denied | Req::NoRule | Req::UnsupportedFeature | Req::BadMethod | Req::BadProtocol | Req::BadTarget) && (contacted || !origin_tx.is_empty()) {
                    chk.violation("reply.iff", "upstream-contacted-for-refused-request", format!("{outcome}: contacted={contacted} origin bytes {}", origin_tx.len()), json!({}));
                }
            }
        };
        explore(&cfg, &b, &check, &stats);
    });
    // ---- UDP sessions on a datagram channel (what the QUIC listener offers): request stream + separate frame channel.
    //      After the 200 the session ends in one of several ways; the request stream must carry exactly one reply.
    let dg = datagram_channel_sessions(&chk);

    let ex = stats.executions.load(Ordering::Relaxed);
    if chk.violation_count() == 0 && (ex < 300 || stats.distinct.len() < 8) {
        machinery(format!("vacuous: executions={ex} distinct={}", stats.distinct.len()));
    }
    let coverage = json!({
        "exhaustive": !stats.capped.load(Ordering::Relaxed),
        "states": stats.distinct.len(), "transitions": stats.steps.load(Ordering::Relaxed), "traces_validated_against_impl": ex,
        "evaluations": ex, "distinct_nontrivial": stats.distinct.len(),
        "rule": "scenarios = {request ok x upstream codec {direct,http,socks5,socks4} x upstream behaviour {accept, connect error, proxy says no, closes mid-handshake}} + {denied, no rule (2 forms), unsupported feature, bad method, bad protocol, bad target}; every schedule within the deviation bound (2, thorough 3) incl. 1-byte segmentation; the complete client-side byte stream is parsed by a strict response reader. states = distinct (request, upstream, behaviour, status list, established) observations",
        "datagram_channel_sessions": dg, "scenarios": scs.len(), "deviation_bound": cfg.bound, "horizon_hits": stats.horizon_hits.load(Ordering::Relaxed), "judged_executions": interesting.load(Ordering::Relaxed),
        "samples": [{"request": "Ok", "upstream": "Socks5", "behaviour": "ProxySaysNo", "expected": "exactly one non-2xx reply with complete body, then close"}],
    });
    chk.finish(
        "model_checking",
        coverage,
        vec![
            "client side = HTTP CONNECT through the real h11c_handshake and ConnectCallback; the SOCKS4/5 listener replies and the real connectors against refusing upstreams are the E4 part".into(),
            "the strict reader accepts a close-delimited body only when no Content-Length is advertised".into(),
        ],
    );
}
