//! Building blocks shared by the checks that drive the real `process_request` / `GlobalState`:
//! recorder connectors, callback recorders, state and request builders.
use super::io::ChunkStream;
use crate::config::{IoParams, Timeouts};
use crate::connectors::Connector;
use crate::context::{make_buffered_stream, Context, ContextCallback, ContextRef, Feature, GlobalState as Contexts, TargetAddress};
use crate::rules::Rule;
use crate::GlobalState;
use async_trait::async_trait;
use easy_error::{err_msg, Error};
use std::collections::HashMap;
use std::net::SocketAddr;
use std::sync::{Arc, Mutex};

pub type Log = Arc<Mutex<Vec<String>>>;

/// What a recorder connector does when asked to connect.
#[derive(Clone, Debug, PartialEq, Eq, Hash)]
pub enum Upstream {
    /// succeeds and installs an in-memory origin endpoint that sends `origin_sends` then EOF
    Ok { origin_sends: Vec<u8> },
    /// connect fails
    Refuse,
}

pub struct Recorder {
    pub name: String,
    pub features: Vec<Feature>,
    pub behaviour: Upstream,
    pub log: Log,
    /// bytes the origin endpoint received, per connect call
    pub origin_rx: Arc<Mutex<Vec<Arc<Mutex<Vec<u8>>>>>>,
}

impl Recorder {
    pub fn new(name: &str, features: &[Feature], behaviour: Upstream, log: Log) -> Arc<Recorder> {
        Arc::new(Recorder { name: name.to_string(), features: features.to_vec(), behaviour, log, origin_rx: Default::default() })
    }
}

#[async_trait]
impl Connector for Recorder {
    async fn connect(self: Arc<Self>, _state: Arc<GlobalState>, ctx: ContextRef) -> Result<(), Error> {
        self.log.lock().unwrap().push(format!("connect:{}", self.name));
        match &self.behaviour {
            Upstream::Refuse => Err(err_msg("recorder: connection refused")),
            Upstream::Ok { origin_sends } => {
                let s = ChunkStream::new(vec![origin_sends.clone()]);
                self.origin_rx.lock().unwrap().push(s.written.clone());
                let a: SocketAddr = "127.0.0.9:9".parse().unwrap();
                ctx.write().await.set_server_stream(make_buffered_stream(s)).set_local_addr(a).set_server_addr(a);
                Ok(())
            }
        }
    }
    fn name(&self) -> &str {
        &self.name
    }
    fn features(&self) -> &[Feature] {
        &self.features
    }
}

/// Client-side callback that records which of on_connect / on_error / on_finish ran.
pub struct CbRecorder(pub Log);
#[async_trait]
impl ContextCallback for CbRecorder {
    async fn on_connect(&self, _ctx: &mut Context) {
        self.0.lock().unwrap().push("on_connect".into());
    }
    async fn on_error(&self, _ctx: &mut Context, e: Error) {
        self.0.lock().unwrap().push(format!("on_error:{}", e));
    }
    async fn on_finish(&self, _ctx: &mut Context) {
        self.0.lock().unwrap().push("on_finish".into());
    }
}

pub fn make_state(connectors: Vec<Arc<dyn Connector>>, history_size: usize) -> Arc<GlobalState> {
    make_state_with(connectors, history_size, None)
}

pub fn make_state_with(connectors: Vec<Arc<dyn Connector>>, history_size: usize, access_log: Option<crate::access_log::AccessLog>) -> Arc<GlobalState> {
    let mut map: HashMap<String, Arc<dyn Connector>> = HashMap::new();
    for c in connectors {
        map.insert(c.name().to_string(), c);
    }
    let mut contexts = Contexts::default();
    contexts.history_size = history_size;
    contexts.default_timeout = 600;
    contexts.access_log = access_log;
    Arc::new(GlobalState {
        rules: Default::default(),
        listeners: Default::default(),
        connectors: map,
        contexts: Arc::new(contexts),
        timeouts: Timeouts::default(),
        #[cfg(feature = "metrics")]
        metrics: None,
        io_params: IoParams { buffer_size: 16, use_splice: false },
    })
}

pub fn parse_rules(json: &str) -> Result<Vec<Arc<Rule>>, String> {
    serde_json::from_str::<Vec<Arc<Rule>>>(json).map_err(|e| e.to_string())
}

#[derive(Clone, Debug, PartialEq, Eq)]
pub struct Req {
    pub listener: String,
    pub source: SocketAddr,
    pub target: TargetAddress,
    pub feature: Feature,
}

/// create a context through the real registry, as a listener would after its handshake
pub async fn make_request(state: &Arc<GlobalState>, r: &Req, client_sends: &[u8], cb: Log) -> (ContextRef, Arc<Mutex<Vec<u8>>>) {
    let ctx = state.contexts.create_context(r.listener.clone(), r.source).await;
    let s = ChunkStream::new(vec![client_sends.to_vec()]);
    let client_rx = s.written.clone();
    ctx.write()
        .await
        .set_target(r.target.clone())
        .set_feature(r.feature)
        .set_callback(CbRecorder(cb))
        .set_client_stream(make_buffered_stream(s));
    (ctx, client_rx)
}

thread_local! {
    static RT: tokio::runtime::Runtime = tokio::runtime::Builder::new_current_thread().enable_all().start_paused(true).build().unwrap();
}

/// run a future to completion on this thread's paused-clock runtime (in-memory streams only, so it never waits for I/O)
pub fn block_on<F: std::future::Future>(f: F) -> F::Output {
    RT.with(|rt| rt.block_on(f))
}

/// like block_on but gives up after `secs` of *virtual* time (the paused clock auto-advances when everything is idle)
pub fn block_on_timeout<F: std::future::Future>(secs: u64, f: F) -> Option<F::Output> {
    RT.with(|rt| rt.block_on(async { tokio::time::timeout(std::time::Duration::from_secs(secs), f).await.ok() }))
}

/// Drive a future that depends on tokio's blocking pool (file I/O) to completion from synchronous code that already
/// runs inside a runtime context: poll, and between polls give the pool's real threads time.
pub fn spin_ready<F: std::future::Future>(fut: F) -> F::Output {
    use std::task::{Context, Poll, Wake, Waker};
    struct Noop;
    impl Wake for Noop {
        fn wake(self: Arc<Self>) {}
    }
    let waker = Waker::from(Arc::new(Noop));
    let mut cx = Context::from_waker(&waker);
    let mut fut = Box::pin(fut);
    for _ in 0..20_000 {
        if let Poll::Ready(v) = fut.as_mut().poll(&mut cx) {
            return v;
        }
        std::thread::sleep(std::time::Duration::from_micros(200));
    }
    super::common::machinery("spin_ready: future did not complete");
}
