//! C09 — the rule-language parser accepts the documented grammar and precedence.
//! Engine E2: bounded-exhaustive enumeration of operator chains / token-boundary fillers, run on the real
//! `milu::parser::parse`, compared against a precedence-climbing reference whose table is read from milu/readme.md.
use super::common::*;
use milu::parser::parse;
use milu::script::stdlib::*;
use milu::script::{Call, Value};
use serde_json::json;
use std::sync::Arc;

#[derive(Clone, Debug)]
struct BinOp {
    sym: String,   // spelling as written in source text
    canon: String, // canonical symbol (and -> &&)
    prec: f64,
    right: bool,
}

#[derive(Clone, Debug)]
enum E {
    Id(String),
    Int(i64),
    Un(String, Box<E>),
    Bin(String, Box<E>, Box<E>),
    Tern(Box<E>, Box<E>, Box<E>),
    Access(Box<E>, String),
    Index(Box<E>, Box<E>),
    CallF(Box<E>, Vec<E>),
    Let(String, Box<E>, Box<E>),
}

fn bin_value(canon: &str, a: Value, b: Value) -> Value {
    match canon {
        "*" => Multiply::make_call(a, b).into(),
        "/" => Divide::make_call(a, b).into(),
        "%" => Mod::make_call(a, b).into(),
        "+" => Plus::make_call(a, b).into(),
        "-" => Minus::make_call(a, b).into(),
        "<<" => ShiftLeft::make_call(a, b).into(),
        ">>" => ShiftRight::make_call(a, b).into(),
        ">>>" => ShiftRightUnsigned::make_call(a, b).into(),
        ">" => Greater::make_call(a, b).into(),
        ">=" => GreaterOrEqual::make_call(a, b).into(),
        "<" => Lesser::make_call(a, b).into(),
        "<=" => LesserOrEqual::make_call(a, b).into(),
        "==" => Equal::make_call(a, b).into(),
        "!=" => NotEqual::make_call(a, b).into(),
        "=~" => Like::make_call(a, b).into(),
        "!~" => NotLike::make_call(a, b).into(),
        "_:" => IsMemberOf::make_call(a, b).into(),
        "&" => BitAnd::make_call(a, b).into(),
        "^" => BitXor::make_call(a, b).into(),
        "|" => BitOr::make_call(a, b).into(),
        "&&" => And::make_call(a, b).into(),
        "^^" => Xor::make_call(a, b).into(),
        "||" => Or::make_call(a, b).into(),
        x => machinery(format!("C09: no constructor for operator {x}")),
    }
}

fn to_value(e: &E) -> Value {
    match e {
        E::Id(s) => Value::Identifier(s.clone()),
        E::Int(i) => Value::Integer(*i),
        E::Un(op, a) => {
            let a = to_value(a);
            match op.as_str() {
                "!" => Not::make_call(a).into(),
                "~" => BitNot::make_call(a).into(),
                "-" => Negative::make_call(a).into(),
                x => machinery(format!("C09: unary {x}")),
            }
        }
        E::Bin(op, a, b) => bin_value(op, to_value(a), to_value(b)),
        E::Tern(c, y, n) => If::make_call(to_value(c), to_value(y), to_value(n)).into(),
        E::Access(o, f) => {
            let idx = match f.parse::<i64>() {
                Ok(i) => Value::Integer(i),
                Err(_) => Value::Identifier(f.clone()),
            };
            Access::make_call(to_value(o), idx).into()
        }
        E::Index(o, i) => Index::make_call(to_value(o), to_value(i)).into(),
        E::CallF(f, args) => {
            let mut v = vec![to_value(f)];
            v.extend(args.iter().map(to_value));
            Call::new(v).into()
        }
        E::Let(name, val, body) => {
            let binding = Value::Tuple(Arc::new(vec![Value::Identifier(name.clone()), to_value(val)]));
            Scope::make_call(Value::Array(Arc::new(vec![binding])), to_value(body)).into()
        }
    }
}

/// Fully parenthesised text of an expression (every composite node wrapped).
fn full_text(e: &E, spell: &dyn Fn(&str) -> String) -> String {
    match e {
        E::Id(s) => s.clone(),
        E::Int(i) => i.to_string(),
        E::Un(op, a) => format!("({} {})", op, full_text(a, spell)),
        E::Bin(op, a, b) => format!("({} {} {})", full_text(a, spell), spell(op), full_text(b, spell)),
        E::Tern(c, y, n) => format!(
            "({} ? {} : {})",
            full_text(c, spell),
            full_text(y, spell),
            full_text(n, spell)
        ),
        E::Access(o, f) => format!("({}.{})", full_text(o, spell), f),
        E::Index(o, i) => format!("({}[{}])", full_text(o, spell), full_text(i, spell)),
        E::CallF(f, args) => format!(
            "({}({}))",
            full_text(f, spell),
            args.iter().map(|a| full_text(a, spell)).collect::<Vec<_>>().join(", ")
        ),
        E::Let(name, val, body) => format!("(let {} = {} in {})", name, full_text(val, spell), full_text(body, spell)),
    }
}

/// Reads the operator table from milu/readme.md (the documented grammar) at run time.
struct Table {
    bins: Vec<BinOp>,
    unaries: Vec<(String, f64)>,
    rows: usize,
}

fn read_table() -> Table {
    let text = std::fs::read_to_string("/repo/milu/readme.md")
        .unwrap_or_else(|e| machinery(format!("cannot read milu/readme.md: {e}")));
    let mut bins = vec![];
    let mut unaries = vec![];
    let mut rows = 0;
    for line in text.lines() {
        let line = line.replace("\\|", "\u{1}");
        let cols: Vec<&str> = line.split('|').collect();
        if cols.len() < 5 {
            continue;
        }
        let prec: f64 = match cols[1].trim().parse() {
            Ok(p) => p,
            Err(_) => continue,
        };
        rows += 1;
        let assoc_right = cols[3].trim() == "right-to-left";
        let syntax = cols[4].replace('\u{1}', "|");
        // every `…`-quoted form in the syntax column
        let forms: Vec<&str> = syntax.split('`').enumerate().filter(|(i, _)| i % 2 == 1).map(|(_, s)| s).collect();
        let mut canon: Option<String> = None;
        for f in forms {
            let toks: Vec<&str> = f.split_whitespace().collect();
            if toks.len() == 3 && toks[0] == "…" && toks[2] == "…" && toks[1] != "." {
                let sym = toks[1].to_string();
                let c = canon.get_or_insert(sym.clone()).clone();
                bins.push(BinOp { sym, canon: c, prec, right: assoc_right });
            } else if toks.len() == 2 && toks[1] == "…" {
                unaries.push((toks[0].to_string(), prec));
            }
        }
    }
    Table { bins, unaries, rows }
}

fn climb(atoms: &[E], ops: &[&BinOp]) -> E {
    // standard precedence climbing over a flat chain atoms[0] ops[0] atoms[1] ...
    fn go(atoms: &[E], ops: &[&BinOp], pos: &mut usize, min_prec: f64) -> E {
        let mut lhs = atoms[*pos].clone();
        while *pos < ops.len() {
            let op = ops[*pos];
            if op.prec < min_prec {
                break;
            }
            *pos += 1;
            let next_min = if op.right { op.prec } else { op.prec + 1e-6 };
            let rhs = go(atoms, ops, pos, next_min);
            lhs = E::Bin(op.canon.clone(), Box::new(lhs), Box::new(rhs));
        }
        lhs
    }
    let mut pos = 0;
    go(atoms, ops, &mut pos, -1.0)
}

struct Stats {
    parses: std::sync::atomic::AtomicU64,
    trees: Distinct,
}

fn check_text(chk: &Check, st: &Stats, text: &str, expected: &Value, site: &str, class: &str, kind: &str) -> bool {
    st.parses.fetch_add(1, std::sync::atomic::Ordering::Relaxed);
    match catch(|| parse(text)) {
        Err(p) => {
            chk.violation(site, class, format!("parser panicked on {text:?}: {p}"), json!({"text": text, "kind": kind}));
            false
        }
        Ok(Err(e)) => {
            chk.violation(
                site,
                class,
                format!("documented syntax rejected ({kind}): {text:?}"),
                json!({"text": text, "kind": kind, "error": truncate(&e.to_string(), 300)}),
            );
            false
        }
        Ok(Ok(v)) => {
            st.trees.add(&v);
            if &v != expected {
                chk.violation(
                    site,
                    class,
                    format!("wrong tree ({kind}) for {text:?}: got {v} expected {expected}"),
                    json!({"text": text, "kind": kind, "got": v.to_string(), "expected": expected.to_string()}),
                );
                false
            } else {
                true
            }
        }
    }
}

#[test]
fn check() {
    let chk = Check::new("C09");
    let table = read_table();
    // vacuity / transcription guard: the README table as shipped has 35 rows, 23 binary operators (+3 keyword spellings), 3 unary.
    let canon_count = table.bins.iter().map(|b| b.canon.clone()).collect::<std::collections::BTreeSet<_>>().len();
    if table.rows < 30 || canon_count < 20 || table.unaries.len() < 3 {
        machinery(format!(
            "README table not understood: rows={} binary={} unary={}",
            table.rows,
            canon_count,
            table.unaries.len()
        ));
    }
    let st = Stats { parses: Default::default(), trees: Default::default() };
    let ids: Vec<E> = ["a", "b", "c", "d", "e"].iter().map(|s| E::Id(s.to_string())).collect();
    let mut samples: Vec<String> = vec![];
    let mut cases = 0u64;

    // ---- 1. every operator alone, every documented spelling
    let mut broken_alone: std::collections::BTreeSet<String> = Default::default();
    for op in &table.bins {
        let text = format!("a {} b", op.sym);
        let exp = to_value(&climb(&ids[..2], &[op]));
        cases += 1;
        if !check_text(&chk, &st, &text, &exp, "parser.binary", &format!("op:{}", op.sym), "operator alone") {
            broken_alone.insert(op.sym.clone());
        }
    }
    for (u, _) in &table.unaries {
        let text = format!("{} a", u);
        let exp = to_value(&E::Un(u.clone(), Box::new(ids[0].clone())));
        cases += 1;
        check_text(&chk, &st, &text, &exp, "parser.unary", &format!("op:{}", u), "operator alone");
        let text = format!("{}a", u);
        check_text(&chk, &st, &text, &exp, "parser.unary", &format!("op:{}", u), "operator alone");
    }
    // postfix / grouping / conditional / let constructs of the table
    let a = || Box::new(ids[0].clone());
    let b = || Box::new(ids[1].clone());
    let c = || Box::new(ids[2].clone());
    let constructs: Vec<(&str, String, Value)> = vec![
        ("access", "a.b".into(), to_value(&E::Access(a(), "b".into()))),
        ("access", "a.b.c".into(), to_value(&E::Access(Box::new(E::Access(a(), "b".into())), "c".into()))),
        ("access", "a.0".into(), to_value(&E::Access(a(), "0".into()))),
        ("index", "a[b]".into(), to_value(&E::Index(a(), b()))),
        ("index", "a[b][c]".into(), to_value(&E::Index(Box::new(E::Index(a(), b())), c()))),
        ("call", "a(b)".into(), to_value(&E::CallF(a(), vec![ids[1].clone()]))),
        ("call", "a(b, c)".into(), to_value(&E::CallF(a(), vec![ids[1].clone(), ids[2].clone()]))),
        ("call", "a(b)(c)".into(), to_value(&E::CallF(Box::new(E::CallF(a(), vec![ids[1].clone()])), vec![ids[2].clone()]))),
        ("postfix-mix", "a.b[c](d)".into(), to_value(&E::CallF(Box::new(E::Index(Box::new(E::Access(a(), "b".into())), c())), vec![ids[3].clone()]))),
        ("grouping", "(a)".into(), to_value(&ids[0])),
        ("grouping", "((a))".into(), to_value(&ids[0])),
        ("ternary", "a ? b : c".into(), to_value(&E::Tern(a(), b(), c()))),
        ("if", "if a then b else c".into(), to_value(&E::Tern(a(), b(), c()))),
        (
            "let",
            "let x = a in x".into(),
            Scope::make_call(
                vec![Value::Tuple(Arc::new(vec![Value::Identifier("x".into()), to_value(&ids[0])]))].into(),
                Value::Identifier("x".into()),
            )
            .into(),
        ),
        (
            "let",
            "let x = a; y = b in x".into(),
            Scope::make_call(
                vec![
                    Value::Tuple(Arc::new(vec![Value::Identifier("x".into()), to_value(&ids[0])])),
                    Value::Tuple(Arc::new(vec![Value::Identifier("y".into()), to_value(&ids[1])])),
                ]
                .into(),
                Value::Identifier("x".into()),
            )
            .into(),
        ),
    ];
    for (name, text, exp) in &constructs {
        cases += 1;
        check_text(&chk, &st, text, exp, "parser.construct", name, "construct alone");
    }
    samples.push("a >= b".into());
    samples.push("a.b[c](d)".into());

    // ---- 2. every ordered pair / triple (/ 4-chain) of binary operators: minimal vs fully parenthesised vs reference
    let spell_of = |ops: &[&BinOp]| {
        let m: Vec<(String, String)> = ops.iter().map(|o| (o.canon.clone(), o.sym.clone())).collect();
        move |c: &str| m.iter().find(|(cc, _)| cc == c).map(|(_, s)| s.clone()).unwrap_or(c.to_string())
    };
    let nb = table.bins.len();
    let mut chains = 0u64;
    let mut run_chain = |opsel: &[usize]| {
        let ops: Vec<&BinOp> = opsel.iter().map(|&i| &table.bins[i]).collect();
        // if an operator of the chain is unparsable alone, the defect is already reported under its own signature
        if ops.iter().any(|o| broken_alone.contains(&o.sym)) {
            return;
        }
        let n = ops.len();
        let mut text = String::from("a");
        for (i, o) in ops.iter().enumerate() {
            text += &format!(" {} {}", o.sym, ["b", "c", "d", "e"][i]);
        }
        let tree = climb(&ids[..n + 1], &ops);
        let exp = to_value(&tree);
        let class = format!("prec:{}", ops.iter().map(|o| o.sym.as_str()).collect::<Vec<_>>().join(","));
        check_text(&chk, &st, &text, &exp, "parser.precedence", &class, "minimal parentheses");
        // full parenthesisation: keyword spellings are preserved when all ops with that canon use the same spelling
        let sp = spell_of(&ops);
        let full = full_text(&tree, &sp);
        check_text(&chk, &st, &full, &exp, "parser.precedence", &class, "fully parenthesised");
    };
    for i in 0..nb {
        for j in 0..nb {
            run_chain(&[i, j]);
            chains += 1;
        }
    }
    // triples: canonical spellings exhaustively (keyword spellings covered by pairs)
    let canon_idx: Vec<usize> = (0..nb).filter(|&i| table.bins[i].sym == table.bins[i].canon).collect();
    for &i in &canon_idx {
        for &j in &canon_idx {
            for &k in &canon_idx {
                run_chain(&[i, j, k]);
                chains += 1;
            }
        }
    }
    if chk.thorough() {
        for &i in &canon_idx {
            for &j in &canon_idx {
                for &k in &canon_idx {
                    for &l in &canon_idx {
                        run_chain(&[i, j, k, l]);
                        chains += 1;
                    }
                }
            }
        }
    }
    cases += chains;
    samples.push("a + b * c << d".into());

    // ---- 3. unary x binary, binary x postfix, unary x postfix, unary x unary, conditional nesting
    for (u, _) in &table.unaries {
        for op in &table.bins {
            if broken_alone.contains(&op.sym) {
                continue;
            }
            // u a op b  ==> (u a) op b   (unary binds tighter than every binary operator of the table)
            let text = format!("{}a {} b", u, op.sym);
            let tree = E::Bin(op.canon.clone(), Box::new(E::Un(u.clone(), a())), b());
            cases += 1;
            check_text(&chk, &st, &text, &to_value(&tree), "parser.precedence", &format!("unary:{},{}", u, op.sym), "unary then binary");
            // a op u b ==> a op (u b)
            let text = format!("a {} {}b", op.sym, u);
            let tree = E::Bin(op.canon.clone(), a(), Box::new(E::Un(u.clone(), b())));
            cases += 1;
            check_text(&chk, &st, &text, &to_value(&tree), "parser.precedence", &format!("unary:{},{}", op.sym, u), "binary then unary");
        }
        for (u2, _) in &table.unaries {
            let text = format!("{} {} a", u, u2);
            let tree = E::Un(u.clone(), Box::new(E::Un(u2.clone(), a())));
            cases += 1;
            check_text(&chk, &st, &text, &to_value(&tree), "parser.precedence", &format!("unary:{},{}", u, u2), "unary chain");
        }
        // postfix binds tighter than unary
        for (pname, ptext, ptree) in [
            ("access", "a.b", E::Access(a(), "b".into())),
            ("index", "a[b]", E::Index(a(), b())),
            ("call", "a(b)", E::CallF(a(), vec![ids[1].clone()])),
        ] {
            let text = format!("{}{}", u, ptext);
            let tree = E::Un(u.clone(), Box::new(ptree));
            cases += 1;
            check_text(&chk, &st, &text, &to_value(&tree), "parser.precedence", &format!("unary:{},{}", u, pname), "unary then postfix");
        }
    }
    for op in &table.bins {
        if broken_alone.contains(&op.sym) {
            continue;
        }
        for (pname, ptext, ptree) in [
            ("access", "b.c", E::Access(b(), "c".into())),
            ("index", "b[c]", E::Index(b(), c())),
            ("call", "b(c)", E::CallF(b(), vec![ids[2].clone()])),
        ] {
            let text = format!("a {} {}", op.sym, ptext);
            let tree = E::Bin(op.canon.clone(), a(), Box::new(ptree));
            cases += 1;
            check_text(&chk, &st, &text, &to_value(&tree), "parser.precedence", &format!("postfix:{},{}", op.sym, pname), "binary then postfix");
        }
        // conditional has the lowest precedence: a op b ? c : d  ==> (a op b) ? c : d ; a ? b : c op d ==> a ? b : (c op d)
        let t1 = E::Tern(Box::new(E::Bin(op.canon.clone(), a(), b())), c(), Box::new(ids[3].clone()));
        cases += 1;
        check_text(&chk, &st, &format!("a {} b ? c : d", op.sym), &to_value(&t1), "parser.precedence", &format!("ternary:{}", op.sym), "binary in condition");
        let t2 = E::Tern(a(), b(), Box::new(E::Bin(op.canon.clone(), c(), Box::new(ids[3].clone()))));
        cases += 1;
        check_text(&chk, &st, &format!("a ? b : c {} d", op.sym), &to_value(&t2), "parser.precedence", &format!("ternary:{}", op.sym), "binary in else");
        let t3 = E::Tern(a(), Box::new(E::Bin(op.canon.clone(), b(), c())), Box::new(ids[3].clone()));
        cases += 1;
        check_text(&chk, &st, &format!("a ? b {} c : d", op.sym), &to_value(&t3), "parser.precedence", &format!("ternary:{}", op.sym), "binary in then");
    }
    // ?: is right-to-left
    let d = || Box::new(ids[3].clone());
    let e = || Box::new(ids[4].clone());
    let t = E::Tern(a(), b(), Box::new(E::Tern(c(), d(), e())));
    cases += 1;
    check_text(&chk, &st, "a ? b : c ? d : e", &to_value(&t), "parser.precedence", "ternary:right-assoc", "ternary chain");
    let t = E::Tern(a(), Box::new(E::Tern(b(), c(), d())), e());
    cases += 1;
    check_text(&chk, &st, "a ? b ? c : d : e", &to_value(&t), "parser.precedence", "ternary:nested-then", "ternary chain");
    let t = E::Tern(a(), b(), Box::new(E::Tern(c(), d(), e())));
    cases += 1;
    check_text(&chk, &st, "if a then b else if c then d else e", &to_value(&t), "parser.precedence", "if:else-if", "if chain");

    // ---- 3b. the constructs of precedence 0 (let, if-then-else, ?:) inside each other without parentheses: each of them
    //      extends as far to the right as it can, and ends where a delimiter of the enclosing construct begins
    {
        let id = |s: &str| Box::new(E::Id(s.to_string()));
        // inner constructs: (name, text, tree)
        let inners: Vec<(&str, String, E)> = vec![
            ("let", "let p = q in p + r".into(), E::Let("p".into(), id("q"), Box::new(E::Bin("+".into(), id("p"), id("r"))))),
            ("if", "if q then r else s".into(), E::Tern(id("q"), id("r"), id("s"))),
            ("ternary", "q ? r : s".into(), E::Tern(id("q"), id("r"), id("s"))),
            ("binary", "q + r".into(), E::Bin("+".into(), id("q"), id("r"))),
            ("let-let", "let p = q in let t = p in t".into(), E::Let("p".into(), id("q"), Box::new(E::Let("t".into(), id("p"), id("t"))))),
        ];
        for (iname, itext, itree) in &inners {
            let it = || Box::new(itree.clone());
            let mut holes: Vec<(&str, String, E)> = vec![
                ("let-body", format!("let x = a in {itext}"), E::Let("x".into(), id("a"), it())),
                ("let-value", format!("let x = {itext} in x"), E::Let("x".into(), it(), id("x"))),
                ("if-cond", format!("if {itext} then b else c"), E::Tern(it(), id("b"), id("c"))),
                ("if-then", format!("if a then {itext} else c"), E::Tern(id("a"), it(), id("c"))),
                ("if-else", format!("if a then b else {itext}"), E::Tern(id("a"), id("b"), it())),
                ("ternary-else", format!("a ? b : {itext}"), E::Tern(id("a"), id("b"), it())),
                ("let-body-of-let-body", format!("let x = a in let y = x in {itext}"), E::Let("x".into(), id("a"), Box::new(E::Let("y".into(), id("x"), it())))),
                ("array-member", format!("[ {itext} , z ]"), E::Id("unused".into())),
            ];
            holes.retain(|h| h.0 != "array-member");
            if *iname != "ternary" {
                // (a ternary in the condition of a ternary would need a rule for `a ? b : c ? d : e`, covered above)
                holes.push(("ternary-then", format!("a ? {itext} : c"), E::Tern(id("a"), it(), id("c"))));
            }
            for (hname, text, tree) in holes {
                cases += 1;
                check_text(&chk, &st, &text, &to_value(&tree), "parser.precedence", &format!("nesting:{iname}-in-{hname}"), "precedence-0 construct inside another");
            }
        }
    }

    // ---- 4. whitespace / comments at every token boundary never change the tree
    let fillers: Vec<(&str, &str)> = vec![
        ("space", " "),
        ("tab", "\t"),
        ("lf", "\n"),
        ("crlf", "\r\n"),
        ("two-spaces", "  "),
        ("inline-comment-empty", "/**/"),
        ("inline-comment", " /* x */ "),
        ("eol-comment", " # c\n"),
        ("eol-comment-empty", " #\n"),
        // every kind of line break is a line break: alone, and as the end of a comment
        ("cr", "\r"),
        ("eol-comment-crlf", " # c\r\n"),
        ("eol-comment-cr", " # c\r"),
        ("eol-comment-empty-cr", "#\r"),
        ("two-eol-comments-cr", " #a\r#b\r"),
        ("eol-comment-holding-an-inline-one", " # /* c\n"),
        ("inline-comment-holding-a-hash", "/* # */"),
        ("inline-comment-over-lines", "/* a\n b\r c */"),
    ];
    let mut basis: Vec<Vec<String>> = vec![];
    let tk = |s: &str| s.split(' ').map(|x| x.to_string()).collect::<Vec<String>>();
    for op in &table.bins {
        if !broken_alone.contains(&op.sym) {
            basis.push(tk(&format!("a {} b", op.sym)));
        }
    }
    for s in [
        "! a", "~ a", "- a", "a . b", "a [ b ]", "a ( b , c )", "a ( )", "( a )", "a ? b : c", "if a then b else c",
        "let x = a in x", "let x = a ; y = b in x + y", "[ a , b ]", "[ ]", "( a , b )", "1 + 0x10", "\"s\" == a",
        "a . b . c == \"x\" && ! d", "f ( a ) [ 0 ] . c", "true || false", "`t${a}` == b", "a _: [ 1 , 2 ]",
    ] {
        basis.push(tk(s));
    }
    let mut boundary_cases = 0u64;
    for toks in &basis {
        let base = toks.join(" ");
        let base_tree = match catch(|| parse(&base)) {
            Ok(Ok(v)) => v,
            other => {
                chk.violation(
                    "parser.construct",
                    &format!("basis:{}", base),
                    format!("documented syntax rejected: {base:?} ({:?})", other.map(|r| r.map(|_| ()).map_err(|e| truncate(&e.to_string(), 200)))),
                    json!({"text": base}),
                );
                continue;
            }
        };
        for (fname, f) in &fillers {
            // boundary 0 = leading filler, boundary i = between token i-1 and i
            for bnd in 0..toks.len() {
                let mut text = String::new();
                for (i, t) in toks.iter().enumerate() {
                    if i == bnd {
                        text += f;
                    } else if i > 0 {
                        text += " ";
                    }
                    text += t;
                }
                boundary_cases += 1;
                check_text(&chk, &st, &text, &base_tree, "parser.blank", &format!("filler:{}", fname), "filler at token boundary");
            }
        }
    }
    // template elements: blanks between `${`, the expression and `}` (tokens of the embedded expression)
    if let Ok(Ok(base_tree)) = catch(|| parse("`t${a}` == b")) {
        for (fname, f) in &fillers {
            let _ = fname;
            for (pos, text) in [("after-open", format!("`t${{{}a}}` == b", f)), ("before-close", format!("`t${{a{}}}` == b", f))] {
                boundary_cases += 1;
                check_text(&chk, &st, &text, &base_tree, "parser.template", &format!("filler-in-element:{}", pos), "filler inside template element");
            }
        }
    }
    cases += boundary_cases;
    samples.push("a /* x */ + b".into());
    samples.push("let x = a ; y = b in x + y".into());


    // ---- 5. names that begin with (or are followed by the letters of) a word of the language are names: a token
    //         ends where its characters end, not where a keyword could be cut out of it
    let mut word_cases = 0u64;
    {
        let id = |s: &str| Box::new(E::Id(s.to_string()));
        let words = ["true", "false", "if", "then", "else", "let", "in", "and", "or", "xor", "not"];
        let tails = ["st", "_1", "X", "9", "and"];
        for w in words {
            for t in tails {
                let name = format!("{w}{t}");
                let n = || E::Id(name.clone());
                let cases_: Vec<(String, E)> = vec![
                    (name.clone(), n()),
                    (format!("{name} + b"), E::Bin("+".into(), Box::new(n()), id("b"))),
                    (format!("a + {name}"), E::Bin("+".into(), id("a"), Box::new(n()))),
                    (format!("a && {name} || b"), E::Bin("||".into(), Box::new(E::Bin("&&".into(), id("a"), Box::new(n()))), id("b"))),
                    (format!("!{name}"), E::Un("!".into(), Box::new(n()))),
                    (format!("({name})"), n()),
                    (format!("{name} ? a : b"), E::Tern(Box::new(n()), id("a"), id("b"))),
                    (format!("if {name} then a else b"), E::Tern(Box::new(n()), id("a"), id("b"))),
                    (format!("if a then {name} else b"), E::Tern(id("a"), Box::new(n()), id("b"))),
                    (format!("if a then b else {name}"), E::Tern(id("a"), id("b"), Box::new(n()))),
                    (format!("let {name} = a in {name} + b"), E::Let(name.clone(), id("a"), Box::new(E::Bin("+".into(), Box::new(n()), id("b"))))),
                    (format!("let x = {name} in x"), E::Let("x".into(), Box::new(n()), id("x"))),
                    (format!("{name}.port"), E::Access(Box::new(n()), "port".into())),
                    (format!("{name}[a]"), E::Index(Box::new(n()), id("a"))),
                ];
                for (text, tree) in cases_ {
                    word_cases += 1;
                    check_text(&chk, &st, &text, &to_value(&tree), "parser.names", &format!("name-begins-with-word:{w}"), "a name that begins with a word of the language");
                }
            }
        }
    }
    cases += word_cases;
    samples.push("let truest = a in truest + b".into());

    let parses = st.parses.load(std::sync::atomic::Ordering::Relaxed);
    let distinct = st.trees.len() as u64;
    if chk.violation_count() == 0 && (distinct < 100) {
        machinery(format!("vacuous: only {distinct} distinct trees"));
    }
    chk.note(format!(
        "operators unparsable on their own (chains containing them are skipped, the operator itself is the finding): {:?}",
        broken_alone
    ));
    let coverage = json!({
        "exhaustive": true,
        "states": distinct, "transitions": parses, "traces_validated_against_impl": parses,
        "evaluations": parses, "distinct_nontrivial": distinct,
        "rule": "every binary spelling alone; all ordered pairs of the 26 spellings; all ordered triples (thorough: 4-chains) of the 23 canonical binary operators, minimal and fully parenthesised text vs precedence-climbing reference built from milu/readme.md; unary x binary, binary x postfix, ternary nesting; 17 fillers (blanks, LF / CRLF / lone CR, inline and end-of-line comments ended by each kind of line break) at every token boundary of a basis of expressions. distinct = distinct parse trees produced by the real parser",
        "cases": cases, "operator_chains": chains, "boundary_cases": boundary_cases,
        "readme_rows": table.rows, "binary_spellings": table.bins.len(), "unary": table.unaries.len(),
        "samples": samples,
    });
    chk.finish(
        "model_checking",
        coverage,
        vec![
            "the README table is the specification; symbol -> stdlib constructor mapping is transcribed in the harness".into(),
            "fillers are inserted between tokens and before the first token only (trailing comments are not demanded by the statement)".into(),
            "chains longer than 4 operators and trees deeper than the listed shapes are not explored".into(),
        ],
    );
}
