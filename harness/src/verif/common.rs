//! Shared plumbing: tiers, evidence files, known-findings matching, replay artefacts, parallel map.
use serde_json::{json, Value as J};
use std::collections::BTreeMap;
use std::panic::{catch_unwind, AssertUnwindSafe};
use std::sync::Mutex;
use std::time::Instant;

pub const VERIF_DIR: &str = "/verif";

#[derive(Clone, Copy, PartialEq, Eq, Debug)]
pub enum Tier {
    Quick,
    Thorough,
}

pub fn tier() -> Tier {
    match std::env::var("VERIF_TIER").as_deref() {
        Ok("thorough") => Tier::Thorough,
        _ => Tier::Quick,
    }
}

pub fn seed() -> u64 {
    std::env::var("VERIF_SEED")
        .ok()
        .and_then(|s| s.parse::<i64>().ok())
        .map(|v| v as u64)
        .unwrap_or(0)
}

#[derive(Clone, Debug)]
struct Known {
    property: String,
    status: String,
    site: String,
    class: String,
    text: String,
}

fn load_known() -> Vec<Known> {
    let p = format!("{}/known_findings.json", VERIF_DIR);
    let s = match std::fs::read_to_string(&p) {
        Ok(s) => s,
        Err(_) => return vec![],
    };
    let v: J = serde_json::from_str(&s).expect("known_findings.json must be valid JSON");
    v["findings"]
        .as_array()
        .cloned()
        .unwrap_or_default()
        .into_iter()
        .map(|e| Known {
            property: e["property"].as_str().unwrap_or("").to_string(),
            status: e["status"].as_str().unwrap_or("").to_string(),
            site: e["site"].as_str().unwrap_or("").to_string(),
            class: e["class"].as_str().unwrap_or("").to_string(),
            text: e["text"].as_str().unwrap_or("").to_string(),
        })
        .collect()
}

struct Sig {
    count: u64,
    first_detail: String,
    replay: J,
    known: Option<String>,
}

/// One running check of one property.
pub struct Check {
    pub id: &'static str,
    pub tier: Tier,
    pub seed: u64,
    start: Instant,
    known: Vec<Known>,
    sigs: Mutex<BTreeMap<(String, String), Sig>>,
    notes: Mutex<Vec<String>>,
}

impl Check {
    pub fn new(id: &'static str) -> Self {
        silence_panics();
        Check {
            id,
            tier: tier(),
            seed: seed(),
            start: Instant::now(),
            known: load_known(),
            sigs: Mutex::new(BTreeMap::new()),
            notes: Mutex::new(vec![]),
        }
    }
    pub fn thorough(&self) -> bool {
        self.tier == Tier::Thorough
    }
    pub fn note(&self, s: impl Into<String>) {
        self.notes.lock().unwrap().push(s.into());
    }
    /// Report a property violation with a canonical signature (site, class) computed from the failing case.
    pub fn violation(&self, site: &str, class: &str, detail: impl Into<String>, replay: J) {
        let mut sigs = self.sigs.lock().unwrap();
        let key = (site.to_string(), class.to_string());
        let e = sigs.entry(key).or_insert_with(|| {
            let known = self
                .known
                .iter()
                .find(|k| {
                    k.property == self.id && k.status == "known" && k.site == site && k.class == class
                })
                .map(|k| k.text.clone());
            Sig {
                count: 0,
                first_detail: detail.into(),
                replay,
                known,
            }
        });
        e.count += 1;
    }
    pub fn violation_count(&self) -> usize {
        self.sigs
            .lock()
            .unwrap()
            .values()
            .filter(|s| s.known.is_none())
            .count()
    }
    pub fn has_sig(&self, site: &str, class: &str) -> bool {
        self.sigs
            .lock()
            .unwrap()
            .contains_key(&(site.to_string(), class.to_string()))
    }

    /// Write evidence, print KNOWN-FINDING / VIOLATION lines, and fail the libtest test if any unlisted violation exists.
    pub fn finish(self, level: &str, mut coverage: J, assumptions: Vec<String>) {
        let wall = self.start.elapsed().as_secs_f64();
        let sigs = self.sigs.into_inner().unwrap();
        let mut n_viol = 0;
        let mut known_lines = vec![];
        let mut viol_lines = vec![];
        let dir = format!("{}/replays/{}", VERIF_DIR, self.id);
        for ((site, class), s) in sigs.iter() {
            if let Some(text) = &s.known {
                known_lines.push(format!(
                    "KNOWN-FINDING: property={} site={} class={} cases={} :: {}",
                    self.id, site, class, s.count, text
                ));
            } else {
                n_viol += 1;
                let _ = std::fs::create_dir_all(&dir);
                let fname = format!("{}/{}__{}.json", dir, sanitize(site), sanitize(class));
                let doc = json!({"property": self.id, "site": site, "class": class, "cases": s.count,
                    "detail": s.first_detail, "replay": s.replay});
                let _ = std::fs::write(&fname, serde_json::to_string_pretty(&doc).unwrap());
                viol_lines.push(format!(
                    "VIOLATION property={} replay={}  # site={} class={} cases={} :: {}",
                    self.id,
                    fname,
                    site,
                    class,
                    s.count,
                    truncate(&s.first_detail, 400)
                ));
            }
        }
        if let Some(obj) = coverage.as_object_mut() {
            obj.insert(
                "known_findings_reproduced".into(),
                json!(known_lines.len()),
            );
            let notes = self.notes.into_inner().unwrap();
            if !notes.is_empty() {
                obj.insert("notes".into(), json!(notes));
            }
        }
        let ev = json!({
            "property_id": self.id,
            "tier": if self.tier == Tier::Thorough {"thorough"} else {"quick"},
            "seed": self.seed as i64,
            "level": level,
            "coverage": coverage,
            "assumptions": assumptions,
            "wall_s": wall,
            "violations": n_viol,
        });
        let _ = std::fs::create_dir_all(format!("{}/evidence", VERIF_DIR));
        let target = std::env::var("VERIF_EVIDENCE_FILE")
            .unwrap_or_else(|_| format!("{}/evidence/{}.json", VERIF_DIR, self.id));
        std::fs::write(&target, serde_json::to_string_pretty(&ev).unwrap()).expect("write evidence");
        for l in &known_lines {
            println!("{}", l);
        }
        for l in &viol_lines {
            println!("{}", l);
        }
        println!(
            "CHECK-DONE property={} tier={:?} violations={} known={} wall_s={:.1}",
            self.id,
            self.tier,
            n_viol,
            known_lines.len(),
            wall
        );
        if n_viol > 0 {
            panic!("{} unlisted violation signature(s)", n_viol);
        }
    }
}

pub fn sanitize(s: &str) -> String {
    let mut o = String::new();
    for c in s.chars() {
        if c.is_ascii_alphanumeric() || c == '.' || c == '-' {
            o.push(c)
        } else {
            o += &format!("_{:02x}", c as u32)
        }
    }
    o.truncate(120);
    o
}
pub fn truncate(s: &str, n: usize) -> String {
    if s.len() <= n {
        s.to_string()
    } else {
        let mut e = n;
        while !s.is_char_boundary(e) {
            e -= 1;
        }
        format!("{}…", &s[..e])
    }
}

/// Machinery failure (never a verdict): message + exit code 2 through a distinctive panic text.
pub fn machinery(msg: impl AsRef<str>) -> ! {
    println!("MACHINERY: {}", msg.as_ref());
    panic!("MACHINERY: {}", msg.as_ref());
}

thread_local! {
    static QUIET: std::cell::Cell<bool> = std::cell::Cell::new(false);
}

/// Install (once) a panic hook that stays silent for panics caught on purpose by `catch`.
pub fn silence_panics() {
    use std::sync::Once;
    static ONCE: Once = Once::new();
    ONCE.call_once(|| {
        let prev = std::panic::take_hook();
        std::panic::set_hook(Box::new(move |info| {
            let quiet = QUIET.with(|q| q.get());
            if !quiet {
                prev(info);
            }
        }));
    });
}

/// Run `f`, turning a panic into Err(message). In the shipped binary (panic=abort) such a panic kills the process.
pub fn catch<T>(f: impl FnOnce() -> T) -> Result<T, String> {
    QUIET.with(|q| q.set(true));
    let r = catch_unwind(AssertUnwindSafe(f));
    QUIET.with(|q| q.set(false));
    r.map_err(|e| {
        if let Some(s) = e.downcast_ref::<&str>() {
            s.to_string()
        } else if let Some(s) = e.downcast_ref::<String>() {
            s.clone()
        } else {
            "panic (non-string payload)".to_string()
        }
    })
}

/// Parallel for over 0..n with `threads` workers; `f(i)` must be thread-safe.
pub fn par_for(n: usize, f: impl Fn(usize) + Sync) {
    let threads = std::thread::available_parallelism().map(|x| x.get()).unwrap_or(8).min(16);
    let next = std::sync::atomic::AtomicUsize::new(0);
    std::thread::scope(|s| {
        for _ in 0..threads {
            s.spawn(|| loop {
                let i = next.fetch_add(1, std::sync::atomic::Ordering::Relaxed);
                if i >= n {
                    break;
                }
                f(i);
            });
        }
    });
}

/// Minimal single-future executor for code that never needs a reactor (scripted in-memory streams).
/// Returns None if the future is still pending after `max_polls` polls with no wake-up (i.e. it waits for input that will never come).
pub fn run_ready<F: std::future::Future>(fut: F, max_polls: usize) -> Option<F::Output> {
    use std::sync::atomic::{AtomicBool, Ordering};
    use std::sync::Arc;
    use std::task::{Context, Poll, Wake, Waker};
    struct W(AtomicBool);
    impl Wake for W {
        fn wake(self: Arc<Self>) {
            self.0.store(true, Ordering::SeqCst)
        }
        fn wake_by_ref(self: &Arc<Self>) {
            self.0.store(true, Ordering::SeqCst)
        }
    }
    let w = Arc::new(W(AtomicBool::new(true)));
    let waker = Waker::from(w.clone());
    let mut cx = Context::from_waker(&waker);
    let mut fut = Box::pin(fut);
    for _ in 0..max_polls {
        if !w.0.swap(false, Ordering::SeqCst) {
            return None;
        }
        if let Poll::Ready(v) = fut.as_mut().poll(&mut cx) {
            return Some(v);
        }
    }
    None
}

pub fn hex(b: &[u8]) -> String {
    b.iter().map(|x| format!("{:02x}", x)).collect::<Vec<_>>().join("")
}

/// Distinct-outcome counter helper.
#[derive(Default)]
pub struct Distinct(Mutex<std::collections::HashSet<u64>>);
impl Distinct {
    pub fn add<T: std::hash::Hash>(&self, t: &T) {
        use std::hash::Hasher;
        let mut h = std::collections::hash_map::DefaultHasher::new();
        t.hash(&mut h);
        self.0.lock().unwrap().insert(h.finish());
    }
    pub fn len(&self) -> usize {
        self.0.lock().unwrap().len()
    }
}
