//! C15 — rule hot-reload is atomic and all-or-nothing.
//! (a) E2 explicit-state BFS over replacement histories: state = rule list as returned by the real GET handler;
//!     from every reachable state every event (POST of each valid list, of each list broken at each position by a
//!     syntax error / type error / unknown target, the empty list, GET-then-POST-back) is taken.
//! (b) E1: set_rules callers racing process_request tasks whose decision differs between old and new list at every
//!     rule position, all schedules within the deviation bound; a request that starts after the POST returned.
use super::common::*;
use super::world::*;
use super::xsched::*;
use crate::context::{Feature, TargetAddress};
use crate::metrics::verif_hooks as api;
use crate::GlobalState;
use serde_json::{json, Value as J};
use std::collections::{BTreeMap, HashSet, VecDeque};
use std::sync::atomic::{AtomicBool, Ordering};
use std::sync::Arc;

const CONNS: [&str; 4] = ["A", "B", "C", "D"];

fn state_with_recorders(log: &Log) -> Arc<GlobalState> {
    let cs: Vec<Arc<dyn crate::connectors::Connector>> = CONNS
        .iter()
        .map(|n| Recorder::new(n, &[Feature::TcpForward], Upstream::Ok { origin_sends: vec![] }, log.clone()) as Arc<dyn crate::connectors::Connector>)
        .collect();
    make_state(cs, 0)
}

fn probes() -> Vec<Req> {
    let mut v = vec![];
    for l in ["l1", "l2"] {
        for (h, p) in [("a.b", 80u16), ("a.b", 443), ("x.y", 80)] {
            v.push(Req { listener: l.into(), source: "127.0.0.1:9".parse().unwrap(), target: TargetAddress::DomainPort(h.into(), p), feature: Feature::TcpForward });
        }
    }
    v
}

/// rule = (filter text or None, target)
type RuleSpec = (Option<&'static str>, &'static str);

fn lists() -> Vec<(&'static str, Vec<RuleSpec>)> {
    vec![
        ("L0", vec![(Some("request.listener == \"l1\""), "A"), (None, "B")]),
        ("L1", vec![(Some("request.target.port == 80"), "C"), (Some("request.listener == \"l1\""), "deny"), (None, "D")]),
        ("L2", vec![(Some("request.target.host == \"x.y\""), "B"), (Some("request.target.port != 80"), "A"), (None, "deny")]),
        ("EMPTY", vec![]),
        // a rule without a filter that is not the last one: what stands behind it is never reached by a request, but it is
        // part of the list all the same (and must compile, type-check and name an upstream)
        ("L4", vec![(Some("request.listener == \"l1\""), "A"), (None, "B"), (Some("request.target.port == 80"), "C"), (Some("request.target.host == \"x.y\""), "D")]),
        // filters in which the layout matters: two blanks inside a string literal, a line comment in the middle of a
        // filter that spans two lines (read back through GET and posted again they must mean the same)
        ("L3", vec![(Some("request.target.host == \"x.y\" && \"a  b\" != \"a b\""), "A"), (Some("request.target.port == 80 # web\n|| request.listener == \"l1\""), "B"), (None, "deny")]),
    ]
}

fn matches(f: Option<&str>, r: &Req) -> bool {
    match f {
        None => true,
        Some("request.listener == \"l1\"") => r.listener == "l1",
        Some("request.target.port == 80") => r.target.port() == 80,
        Some("request.target.host == \"x.y\"") => r.target.host() == "x.y",
        Some("request.target.port != 80") => r.target.port() != 80,
        Some("request.target.host == \"x.y\" && \"a  b\" != \"a b\"") => r.target.host() == "x.y",
        Some("request.target.port == 80 # web\n|| request.listener == \"l1\"") => r.target.port() == 80 || r.listener == "l1",
        Some(x) => machinery(format!("reference does not know filter {x}")),
    }
}

fn decide(list: &[RuleSpec], r: &Req) -> Option<String> {
    let (_, t) = list.iter().find(|(f, _)| matches(*f, r))?;
    if *t == "deny" {
        None
    } else {
        Some(t.to_string())
    }
}

fn to_json(list: &[(Option<String>, String)]) -> String {
    let v: Vec<J> = list
        .iter()
        .map(|(f, t)| match f {
            Some(f) => json!({"filter": f, "target": t}),
            None => json!({"target": t}),
        })
        .collect();
    serde_json::to_string(&v).unwrap()
}

fn owned(list: &[RuleSpec]) -> Vec<(Option<String>, String)> {
    list.iter().map(|(f, t)| (f.map(|x| x.to_string()), t.to_string())).collect()
}

#[derive(Clone, Debug)]
enum Event {
    PostValid(&'static str),
    PostBroken { base: &'static str, pos: usize, kind: &'static str },
    GetThenPostBack,
}

/// canonical form of the rule list as the real GET handler reports it (statistics stripped)
fn get_canon(state: &Arc<GlobalState>) -> Result<String, String> {
    let (code, body) = block_on(api::rules_get(state.clone()));
    if code != 200 {
        return Err(format!("GET /rules -> {code}"));
    }
    let v: J = serde_json::from_slice(&body).map_err(|e| e.to_string())?;
    let arr = v.as_array().ok_or("GET /rules: not an array")?;
    let c: Vec<J> = arr.iter().map(|r| json!({"filter": r.get("filter").cloned().unwrap_or(J::Null), "target": r["target"].clone()})).collect();
    Ok(serde_json::to_string(&c).unwrap())
}

fn decisions(state: &Arc<GlobalState>, log: &Log) -> Vec<Option<String>> {
    probes()
        .iter()
        .map(|r| {
            log.lock().unwrap().clear();
            block_on_timeout(30, async {
                let (ctx, _) = make_request(state, r, b"", Default::default()).await;
                crate::process_request(ctx.clone(), state.clone()).await;
            });
            let l = log.lock().unwrap();
            l.first().map(|c| c.trim_start_matches("connect:").to_string())
        })
        .collect()
}

fn ref_decisions(list: &[RuleSpec]) -> Vec<Option<String>> {
    probes().iter().map(|r| decide(list, r)).collect()
}

/// Rebuild a fresh real state by replaying a history of events; returns (state, log, name of the list in force)
fn replay(history: &[Event]) -> Result<(Arc<GlobalState>, Log, &'static str), String> {
    let log: Log = Default::default();
    let state = state_with_recorders(&log);
    let all = lists();
    let l0 = &all[0].1;
    block_on(state.set_rules(parse_rules(&to_json(&owned(l0))).unwrap())).map_err(|e| e.to_string())?;
    let mut current = "L0";
    for ev in history {
        let (_, now) = apply(&state, ev, current)?;
        current = now;
    }
    Ok((state, log, current))
}

/// apply one event to the real state; returns (http status, name of the list that must be in force afterwards)
fn apply(state: &Arc<GlobalState>, ev: &Event, current: &'static str) -> Result<(u16, &'static str), String> {
    let all = lists();
    match ev {
        Event::PostValid(name) => {
            let l = &all.iter().find(|(n, _)| n == name).unwrap().1;
            let rules = parse_rules(&to_json(&owned(l))).map_err(|e| format!("valid list does not deserialize: {e}"))?;
            let (code, _) = block_on(api::rules_post(state.clone(), rules));
            Ok((code, if code == 200 { name } else { current }))
        }
        Event::PostBroken { base, pos, kind } => {
            let mut l = owned(&all.iter().find(|(n, _)| n == base).unwrap().1);
            match *kind {
                "syntax" => l[*pos].0 = Some("request.listener == ".into()),
                "type" => l[*pos].0 = Some("request.target.port + 1".into()),
                "unknown-target" => l[*pos].1 = "nosuch".into(),
                _ => unreachable!(),
            }
            match parse_rules(&to_json(&l)) {
                Err(_) => Ok((400, current)), // rejected by the deserializer already
                Ok(rules) => {
                    let (code, _) = block_on(api::rules_post(state.clone(), rules));
                    Ok((code, current))
                }
            }
        }
        Event::GetThenPostBack => {
            let (code, body) = block_on(api::rules_get(state.clone()));
            if code != 200 {
                return Err(format!("GET -> {code}"));
            }
            let rules = parse_rules(std::str::from_utf8(&body).unwrap()).map_err(|e| format!("the GET output does not deserialize as a rule list: {e}"))?;
            let (code, _) = block_on(api::rules_post(state.clone(), rules));
            Ok((code, current))
        }
    }
}

fn events() -> Vec<Event> {
    let mut v = vec![];
    for (name, l) in lists() {
        v.push(Event::PostValid(name));
        for pos in 0..l.len() {
            for kind in ["syntax", "type", "unknown-target"] {
                v.push(Event::PostBroken { base: name, pos, kind });
            }
        }
    }
    v.push(Event::GetThenPostBack);
    v
}

fn histories_part(chk: &Check) -> (usize, u64, u64) {
    // BFS over the real state graph; a state is identified by the canonical GET output
    let evs = events();
    let all = lists();
    let max_depth = if chk.thorough() { 4 } else { 3 };
    let mut seen: HashSet<String> = HashSet::new();
    let mut frontier: VecDeque<Vec<Event>> = VecDeque::new();
    frontier.push_back(vec![]);
    let mut transitions = 0u64;
    let mut replays = 0u64;
    let (s0, _, _) = replay(&[]).unwrap_or_else(|e| machinery(format!("initial state: {e}")));
    seen.insert(get_canon(&s0).unwrap());
    while let Some(hist) = frontier.pop_front() {
        if hist.len() >= max_depth {
            continue;
        }
        for ev in &evs {
            transitions += 1;
            replays += 1;
            let (state, log, current) = match replay(&hist) {
                Ok(x) => x,
                Err(e) => machinery(format!("replaying {:?}: {e}", hist)),
            };
            let before_canon = get_canon(&state).unwrap();
            let before_dec = decisions(&state, &log);
            let res = catch(|| apply(&state, ev, current));
            let replay_doc = json!({"history": hist.iter().map(|e| format!("{:?}", e)).collect::<Vec<_>>(), "event": format!("{:?}", ev)});
            let (code, expect_name) = match res {
                Err(p) => {
                    chk.violation("rules.reload", "panic", format!("after {:?}, event {:?}: {p}", hist, ev), replay_doc);
                    continue;
                }
                Ok(Err(e)) => {
                    chk.violation("rules.reload", "roundtrip-output-not-postable", format!("after {:?}, event {:?}: {e}", hist, ev), replay_doc);
                    continue;
                }
                Ok(Ok(x)) => x,
            };
            let after_canon = get_canon(&state).unwrap();
            let after_dec = decisions(&state, &log);
            let expect_list = &all.iter().find(|(n, _)| *n == expect_name).unwrap().1;
            let want_dec = ref_decisions(expect_list);
            match ev {
                Event::PostValid(name) => {
                    if code != 200 {
                        chk.violation("rules.reload", "valid-list-rejected", format!("POST {name} after {:?} -> {code}", hist), replay_doc.clone());
                    } else if after_dec != want_dec {
                        chk.violation("rules.reload", "new-list-not-in-force", format!("POST {name} ok but decisions are {:?}, the new list gives {:?}", after_dec, want_dec), replay_doc.clone());
                    }
                }
                Event::PostBroken { kind, pos, base } => {
                    if code == 200 {
                        chk.violation("rules.reload", &format!("invalid-list-accepted:{kind}"), format!("POST {base} broken at {pos} ({kind}) -> 200"), replay_doc.clone());
                    } else if after_canon != before_canon || after_dec != before_dec {
                        chk.violation("rules.reload", &format!("failed-reload-changed-behaviour:{kind}@{pos}"), format!("POST {base} broken at {pos} ({kind}) -> {code}, but the list in force changed: {} -> {} / decisions {:?} -> {:?}", before_canon, after_canon, before_dec, after_dec), replay_doc.clone());
                    }
                }
                Event::GetThenPostBack => {
                    if code != 200 {
                        chk.violation("rules.reload", "roundtrip-rejected", format!("posting back the GET output -> {code}"), replay_doc.clone());
                    } else if after_dec != before_dec || after_canon != before_canon {
                        chk.violation("rules.reload", "roundtrip-changed-behaviour", format!("decisions {:?} -> {:?}", before_dec, after_dec), replay_doc.clone());
                    }
                }
            }
            // whatever happened, behaviour must equal the reference for the list that should be in force
            if after_dec != want_dec && !chk.has_sig("rules.reload", "new-list-not-in-force") {
                chk.violation("rules.reload", "behaviour-differs-from-list-in-force", format!("after {:?} + {:?}: decisions {:?}, list {expect_name} gives {:?}", hist, ev, after_dec, want_dec), replay_doc);
            }
            if seen.insert(after_canon) || hist.len() + 1 < max_depth {
                // new state (or depth budget left: explore from a non-initial history as well)
                let mut h = hist.clone();
                h.push(ev.clone());
                if h.len() < max_depth && matches!(ev, Event::PostValid(_) | Event::GetThenPostBack) || h.len() < 2 {
                    frontier.push_back(h);
                }
            }
        }
    }
    (seen.len(), transitions, replays)
}

// ------------------------------------------------------------------ concurrency (E1)

struct RaceProbe {
    results: Arc<std::sync::Mutex<BTreeMap<String, Option<String>>>>,
    post_codes: Arc<std::sync::Mutex<Vec<u16>>>,
}

/// old = [F -> A, true -> B], new = [not F -> C, true -> D]: a decision that mixes rules of both lists gives a
/// connector that neither list alone would give (for one of the two request kinds)
const OLD: &str = r#"[{"filter":"request.listener == \"l1\"","target":"A"},{"target":"B"}]"#;
const NEW: &str = r#"[{"filter":"request.listener != \"l1\"","target":"C"},{"target":"D"}]"#;
const NEW_BROKEN: &str = r#"[{"filter":"request.listener != \"l1\"","target":"C"},{"target":"nosuch"}]"#;

fn race_build(w: &mut World, posts: &[&'static str], late_request: bool) -> RaceProbe {
    let log: Log = Default::default();
    let state = state_with_recorders(&log);
    run_ready(state.set_rules(parse_rules(OLD).unwrap()), 100).unwrap().unwrap();
    let results: Arc<std::sync::Mutex<BTreeMap<String, Option<String>>>> = Default::default();
    let post_codes: Arc<std::sync::Mutex<Vec<u16>>> = Default::default();
    let post_done = Arc::new(AtomicBool::new(false));
    let notify = Arc::new(tokio::sync::Notify::new());
    // a reader that keeps the rules read lock until the explorer opens a gate (a slow evaluation on another worker):
    // with the no-op writer queued behind it, later lock acquisitions of the tasks below become scheduling points
    {
        let (mut gate, _ep) = w.endpoint("gate", EpScript { inbound: vec![Msg::new(b"g")], ..Default::default() });
        let st = state.clone();
        w.task("read-holder", async move {
            use tokio::io::AsyncReadExt;
            let g = st.rules.read().await;
            let mut b = [0u8; 1];
            let _ = gate.read(&mut b).await;
            drop(g);
        });
    }
    {
        let st = state.clone();
        w.task("noop-writer", async move {
            for _ in 0..2 {
                let g = st.rules.write().await;
                drop(g);
                yield_once().await;
            }
        });
    }
    for (i, body) in posts.iter().enumerate() {
        let (st, codes, done, nf) = (state.clone(), post_codes.clone(), post_done.clone(), notify.clone());
        let body = *body;
        w.task(&format!("post{}", i), async move {
            let (code, _) = api::rules_post(st, parse_rules(body).unwrap()).await;
            codes.lock().unwrap().push(code);
            done.store(true, Ordering::SeqCst);
            nf.notify_waiters();
        });
    }
    for (name, listener) in [("req-l1", "l1"), ("req-l2", "l2")] {
        let (st, res) = (state.clone(), results.clone());
        let r = Req { listener: listener.into(), source: "127.0.0.1:9".parse().unwrap(), target: TargetAddress::DomainPort("a".into(), 1), feature: Feature::TcpForward };
        w.task(name, async move {
            let (ctx, _) = make_request(&st, &r, b"", Default::default()).await;
            crate::process_request(ctx.clone(), st.clone()).await;
            let c = ctx.read().await.props().connector.clone();
            res.lock().unwrap().insert(name.to_string(), c);
        });
    }
    if late_request {
        let (st, res, done, nf) = (state.clone(), results.clone(), post_done.clone(), notify.clone());
        let r = Req { listener: "l2".into(), source: "127.0.0.1:9".parse().unwrap(), target: TargetAddress::DomainPort("a".into(), 1), feature: Feature::TcpForward };
        w.task("req-after-post-returned", async move {
            while !done.load(Ordering::SeqCst) {
                nf.notified().await;
            }
            let (ctx, _) = make_request(&st, &r, b"", Default::default()).await;
            crate::process_request(ctx.clone(), st.clone()).await;
            let c = ctx.read().await.props().connector.clone();
            res.lock().unwrap().insert("late".to_string(), c);
        });
    }
    RaceProbe { results, post_codes }
}

fn race_part(chk: &Check, stats: &Stats) -> u64 {
    let cfg = Config { bound: if chk.thorough() { 4 } else { 3 }, horizon: 300, max_executions: 2_000_000 };
    let interleaved = std::sync::atomic::AtomicU64::new(0);
    // (posts, late request, which answers are allowed for l1 / l2 / late)
    let scenarios: Vec<(Vec<&'static str>, bool, [&'static [&'static str]; 3])> = vec![
        (vec![NEW], true, [&["A", "D"], &["B", "C"], &["C"]]),
        (vec![NEW_BROKEN], true, [&["A"], &["B"], &["B"]]),
        (vec![NEW, OLD], false, [&["A", "D"], &["B", "C"], &[]]),
        (vec![NEW_BROKEN, NEW], false, [&["A", "D"], &["B", "C"], &[]]),
    ];
    for (posts, late, allowed) in &scenarios {
        let b = |w: &mut World| race_build(w, posts, *late);
        let check = |x: &Exec<RaceProbe>| {
            if x.trace.windows(2).any(|w| w[0] != w[1]) {
                interleaved.fetch_add(1, Ordering::Relaxed);
            }
            let res = x.user.results.lock().unwrap().clone();
            stats.distinct.add(&(posts.clone(), res.clone()));
            let replay = json!({"posts": posts, "choices": x.points.iter().map(|p| p.chosen).collect::<Vec<_>>(), "schedule": x.trace, "results": format!("{:?}", res)});
            if !x.blocked.is_empty() || x.horizon_hit {
                chk.violation("rules.race", "task-never-finishes", format!("blocked {:?} (schedule {:?})", x.blocked, x.trace), replay);
                return;
            }
            for (name, idx) in [("req-l1", 0usize), ("req-l2", 1), ("late", 2)] {
                if let Some(got) = res.get(name) {
                    let got = got.clone().unwrap_or("refused".into());
                    if !allowed[idx].contains(&got.as_str()) {
                        let class = if name == "late" { "request-after-reload-decided-by-old-list" } else { "decision-mixes-old-and-new-list" };
                        chk.violation("rules.race", class, format!("posts {:?}: {name} was served by {got}, allowed {:?} (schedule {:?})", posts, allowed[idx], x.trace), replay.clone());
                    }
                }
            }
        };
        explore(&cfg, &b, &check, stats);
    }
    interleaved.load(Ordering::Relaxed)
}

#[test]
fn check() {
    let chk = Check::new("C15");
    let (states, transitions, replays) = histories_part(&chk);
    let stats = Stats::default();
    let interleaved = race_part(&chk, &stats);
    let ex = stats.executions.load(Ordering::Relaxed);
    if chk.violation_count() == 0 && (states < 4 || transitions < 100 || ex < 200 || interleaved == 0) {
        machinery(format!("vacuous: states={states} transitions={transitions} executions={ex} interleaved={interleaved}"));
    }
    let coverage = json!({
        "exhaustive": !stats.capped.load(Ordering::Relaxed),
        "states": states, "transitions": transitions + stats.steps.load(Ordering::Relaxed), "traces_validated_against_impl": replays + ex,
        "evaluations": transitions + ex, "distinct_nontrivial": states as u64 + stats.distinct.len() as u64,
        "rule": "histories: BFS over event histories on the real state (state id = canonical GET /rules output); every event (6 valid lists, one with rules behind a catch-all, one of them with layout-sensitive filters, each list broken at each position by syntax/type/unknown-target, GET-then-POST-back) from every reachable state and from non-initial histories up to the depth bound; 6 probe requests decided by the real process_request after every event. race: schedules of 1-2 rules_post callers + 2-3 process_request tasks, deviation bound 3 (thorough 4)",
        "history_states": states, "history_transitions": transitions, "race_executions": ex, "race_interleaved": interleaved,
        "race_distinct_outcomes": stats.distinct.len(), "deviation_bound": if chk.thorough() {4} else {3},
        "samples": [{"history": ["PostValid(L1)", "PostBroken{base:L2,pos:1,kind:type}"], "expect": "500, list L1 still in force"}, {"race": "post NEW || req-l1 || req-l2, then a request that starts after the POST returned"}],
    });
    chk.finish(
        "model_checking",
        coverage,
        vec![
            "the JSON body is deserialized with the same serde deserializer the axum extractor uses; the HTTP layer itself and main()'s dispatch loop are exercised by the real-binary part".into(),
            "rule pool of 4 lists / 3 kinds of breakage; histories deeper than the bound are not explored".into(),
        ],
    );
}
