//! E1 `xsched` — stateless, deviation-bounded exploration of async task schedules and scripted environment answers.
//!
//! The code under test is async Rust polled on one thread: the only nondeterminism is which ready future is polled
//! next and what the environment answers to each I/O poll. The explorer owns both. Every execution rebuilds fresh
//! real objects inside a paused-clock current-thread tokio runtime; tasks are real futures polled with per-task
//! wakers; endpoints are `ScriptedStream`s; an execution is the list of choices; exploration is DFS with replay from
//! scratch, bounded by the number of deviations from the default choice (iterative context bounding).
use super::common::*;
use std::collections::VecDeque;
use std::future::Future;
use std::pin::Pin;
use std::sync::atomic::{AtomicBool, AtomicU64, Ordering};
use std::sync::{Arc, Mutex};
use std::task::{Context as TaskCx, Poll, Wake, Waker};
use std::time::Duration;
use tokio::io::{AsyncRead, AsyncWrite, ReadBuf};

// ------------------------------------------------------------------ scripted endpoints

#[derive(Clone, Debug)]
pub enum Guard {
    Always,
    /// enabled once the code under test has written something containing these bytes
    TxContains(Vec<u8>),
    /// enabled once at least n bytes have been written by the code under test
    TxLen(usize),
    /// enabled once the flag is set (by the scenario)
    Flag(Arc<AtomicBool>),
    /// enabled once the code under test has shut down its sending direction towards this endpoint
    Shutdown,
}

#[derive(Clone, Debug)]
pub struct Msg {
    pub bytes: Vec<u8>,
    pub guard: Guard,
}
impl Msg {
    pub fn new(b: &[u8]) -> Msg {
        Msg { bytes: b.to_vec(), guard: Guard::Always }
    }
    pub fn after(b: &[u8], g: Guard) -> Msg {
        Msg { bytes: b.to_vec(), guard: g }
    }
}

#[derive(Clone, Debug, Default)]
pub struct EpScript {
    pub inbound: Vec<Msg>,
    /// deliver end-of-stream after the last message (as an explicit event)
    pub eof: bool,
    /// guard for the eof event
    pub eof_guard: Option<Guard>,
    /// the peer may also reset the connection at any time (deviation)
    pub allow_reset: bool,
    /// messages may arrive in pieces (deviation): sizes to try besides "whole message"
    pub segment_sizes: Vec<usize>,
    /// Some(steps): writes are only accepted when the explorer opens the window by one of these amounts
    pub write_window: Option<Vec<usize>>,
    /// the stall position: never deliver more than this many bytes in total (models a client that stops sending)
    pub stall_after: Option<usize>,
}

#[derive(Default)]
pub struct EpState {
    pub name: String,
    script: EpScript,
    next_msg: usize,
    msg_off: usize,
    delivered: usize,
    rx: VecDeque<u8>,
    rx_eof: bool,
    rx_reset: bool,
    eof_sent: bool,
    pub tx: Vec<u8>,
    window: usize,
    read_waker: Option<Waker>,
    write_waker: Option<Waker>,
    pub shutdown: bool,
    pub dropped: bool,
    pub rx_consumed: usize,
    /// global sequence numbers of notable events: (seq, what)
    pub events: Vec<(u64, String)>,
}

impl EpState {
    /// the peer aborts the connection now (used by scenarios that decide the abort point themselves)
    pub fn force_reset(&mut self) {
        self.rx_reset = true;
        if let Some(w) = self.read_waker.take() {
            w.wake();
        }
        if let Some(w) = self.write_waker.take() {
            w.wake();
        }
    }
}

pub type Ep = Arc<Mutex<EpState>>;

pub struct ScriptedStream {
    st: Ep,
    seq: Arc<AtomicU64>,
}

impl Drop for ScriptedStream {
    fn drop(&mut self) {
        let mut s = self.st.lock().unwrap();
        s.dropped = true;
        let n = self.seq.fetch_add(1, Ordering::SeqCst);
        s.events.push((n, "drop".into()));
    }
}

impl AsyncRead for ScriptedStream {
    fn poll_read(self: Pin<&mut Self>, cx: &mut TaskCx<'_>, buf: &mut ReadBuf<'_>) -> Poll<std::io::Result<()>> {
        let mut s = self.st.lock().unwrap();
        if !s.rx.is_empty() {
            let n = s.rx.len().min(buf.remaining());
            for _ in 0..n {
                let b = s.rx.pop_front().unwrap();
                buf.put_slice(&[b]);
            }
            s.rx_consumed += n;
            return Poll::Ready(Ok(()));
        }
        if s.rx_reset {
            return Poll::Ready(Err(std::io::Error::new(std::io::ErrorKind::ConnectionReset, "scripted reset")));
        }
        if s.rx_eof {
            let n = self.seq.fetch_add(1, Ordering::SeqCst);
            s.events.push((n, "read-eof".into()));
            return Poll::Ready(Ok(()));
        }
        s.read_waker = Some(cx.waker().clone());
        Poll::Pending
    }
}

impl AsyncWrite for ScriptedStream {
    fn poll_write(self: Pin<&mut Self>, cx: &mut TaskCx<'_>, buf: &[u8]) -> Poll<std::io::Result<usize>> {
        let mut s = self.st.lock().unwrap();
        if s.rx_reset {
            return Poll::Ready(Err(std::io::Error::new(std::io::ErrorKind::BrokenPipe, "scripted reset")));
        }
        if s.script.write_window.is_some() {
            if s.window == 0 {
                s.write_waker = Some(cx.waker().clone());
                return Poll::Pending;
            }
            let n = s.window.min(buf.len());
            s.window -= n;
            s.tx.extend_from_slice(&buf[..n]);
            let q = self.seq.fetch_add(1, Ordering::SeqCst);
            s.events.push((q, format!("write:{}", n)));
            return Poll::Ready(Ok(n));
        }
        s.tx.extend_from_slice(buf);
        let q = self.seq.fetch_add(1, Ordering::SeqCst);
        s.events.push((q, format!("write:{}", buf.len())));
        Poll::Ready(Ok(buf.len()))
    }
    fn poll_flush(self: Pin<&mut Self>, _cx: &mut TaskCx<'_>) -> Poll<std::io::Result<()>> {
        Poll::Ready(Ok(()))
    }
    fn poll_shutdown(self: Pin<&mut Self>, _cx: &mut TaskCx<'_>) -> Poll<std::io::Result<()>> {
        let mut s = self.st.lock().unwrap();
        if !s.shutdown {
            s.shutdown = true;
            let q = self.seq.fetch_add(1, Ordering::SeqCst);
            s.events.push((q, "shutdown".into()));
        }
        Poll::Ready(Ok(()))
    }
}

fn guard_ok(g: &Guard, s: &EpState) -> bool {
    match g {
        Guard::Always => true,
        Guard::TxContains(b) => s.tx.windows(b.len().max(1)).any(|w| w == &b[..]),
        Guard::TxLen(n) => s.tx.len() >= *n,
        Guard::Flag(f) => f.load(Ordering::SeqCst),
        Guard::Shutdown => s.shutdown,
    }
}

// ------------------------------------------------------------------ world of one execution

struct TaskSlot {
    name: String,
    fut: Option<Pin<Box<dyn Future<Output = ()>>>>,
    flag: Arc<WakeFlag>,
    /// a task that is expected to stay blocked forever (e.g. the stalled client's own handshake)
    may_block: bool,
}

struct WakeFlag(AtomicBool);
impl Wake for WakeFlag {
    fn wake(self: Arc<Self>) {
        self.0.store(true, Ordering::SeqCst)
    }
    fn wake_by_ref(self: &Arc<Self>) {
        self.0.store(true, Ordering::SeqCst)
    }
}

pub struct World {
    tasks: Vec<TaskSlot>,
    pub eps: Vec<Ep>,
    seq: Arc<AtomicU64>,
    pub advances: Vec<Duration>,
    pub max_advances: usize,
    /// let tokio-spawned background tasks of the code under test run after every step
    pub background: bool,
    pub log: Arc<Mutex<Vec<String>>>,
    /// once set (by a scenario task), later choice points are still executed with the default choice but are not
    /// branched on: used for a closing phase whose step count depends on real threads (blocking file I/O)
    pub freeze: Arc<AtomicBool>,
}

impl World {
    pub fn endpoint(&mut self, name: &str, script: EpScript) -> (ScriptedStream, Ep) {
        let st: Ep = Arc::new(Mutex::new(EpState { name: name.to_string(), script, ..Default::default() }));
        self.eps.push(st.clone());
        (ScriptedStream { st: st.clone(), seq: self.seq.clone() }, st)
    }
    pub fn task(&mut self, name: &str, fut: impl Future<Output = ()> + 'static) {
        self.tasks.push(TaskSlot { name: name.to_string(), fut: Some(Box::pin(fut)), flag: Arc::new(WakeFlag(AtomicBool::new(true))), may_block: false });
    }
    pub fn task_may_block(&mut self, name: &str, fut: impl Future<Output = ()> + 'static) {
        self.task(name, fut);
        self.tasks.last_mut().unwrap().may_block = true;
    }
    pub fn note(&self, s: impl Into<String>) {
        self.log.lock().unwrap().push(s.into());
    }
}

#[derive(Clone, Debug, PartialEq, Eq)]
enum Action {
    Run(usize),
    Arrive(usize, usize),
    Eof(usize),
    Reset(usize),
    Window(usize, usize),
    Advance(usize),
}

#[derive(Clone, Debug)]
pub struct Point {
    pub frozen: bool,
    pub n: usize,
    pub chosen: usize,
    pub label: String,
    pub labels: Vec<String>,
}

pub struct Exec<S> {
    pub points: Vec<Point>,
    pub trace: Vec<String>,
    pub blocked: Vec<String>,
    pub blocked_unexpected: Vec<String>,
    pub horizon_hit: bool,
    pub eps: Vec<Ep>,
    pub log: Vec<String>,
    pub user: S,
    pub steps: usize,
}

fn enabled(w: &World, last: Option<usize>, advances_used: usize) -> Vec<(Action, String)> {
    let mut out: Vec<(Action, String)> = vec![];
    // tasks: the one that just ran first (continuing it is the default), then ascending
    let mut order: Vec<usize> = vec![];
    if let Some(l) = last {
        order.push(l);
    }
    for i in 0..w.tasks.len() {
        if Some(i) != last {
            order.push(i);
        }
    }
    for i in order {
        let t = &w.tasks[i];
        if t.fut.is_some() && t.flag.0.load(Ordering::SeqCst) {
            out.push((Action::Run(i), format!("run:{}", t.name)));
        }
    }
    for (ei, ep) in w.eps.iter().enumerate() {
        let s = ep.lock().unwrap();
        if s.dropped && s.rx_eof {
            continue;
        }
        if !s.rx_eof && !s.rx_reset {
            if let Some(m) = s.script.inbound.get(s.next_msg) {
                let remaining_msg = m.bytes.len() - s.msg_off;
                let budget = s.script.stall_after.map(|k| k.saturating_sub(s.delivered)).unwrap_or(usize::MAX);
                let can = remaining_msg.min(budget);
                if can > 0 && guard_ok(&m.guard, &s) {
                    out.push((Action::Arrive(ei, can), format!("arrive:{}:{}", s.name, can)));
                    for &k in &s.script.segment_sizes {
                        if k < can {
                            out.push((Action::Arrive(ei, k), format!("arrive:{}:{}", s.name, k)));
                        }
                    }
                }
            } else if s.script.eof && !s.eof_sent && s.script.stall_after.is_none() && s.script.eof_guard.as_ref().map(|g| guard_ok(g, &s)).unwrap_or(true) {
                out.push((Action::Eof(ei), format!("eof:{}", s.name)));
            }
            if s.script.allow_reset && !s.dropped {
                out.push((Action::Reset(ei), format!("reset:{}", s.name)));
            }
        }
        if let Some(steps) = &s.script.write_window {
            if s.write_waker.is_some() && s.window == 0 && !s.dropped {
                for &k in steps {
                    out.push((Action::Window(ei, k), format!("window:{}:{}", s.name, k)));
                }
            }
        }
    }
    if advances_used < w.max_advances || (w.freeze.load(Ordering::SeqCst) && !w.advances.is_empty() && out.is_empty() && w.tasks.iter().any(|t| t.fut.is_some() && !t.may_block)) {
        for (i, d) in w.advances.iter().enumerate() {
            out.push((Action::Advance(i), format!("advance:{}ms", d.as_millis())));
        }
    }
    out
}

async fn settle(background: bool) {
    if background {
        for _ in 0..3 {
            tokio::task::yield_now().await;
        }
    }
}

/// Run one execution following `prefix`, then default choices. Err = replay divergence (machinery).
async fn run_one<S>(build: &(dyn Fn(&mut World) -> S + Sync), prefix: &[usize], expect_labels: &[String], horizon: usize) -> Result<Exec<S>, String> {
    let mut w = World { tasks: vec![], eps: vec![], seq: Arc::new(AtomicU64::new(0)), advances: vec![], max_advances: 0, background: false, log: Default::default(), freeze: Default::default() };
    let user = build(&mut w);
    let mut points: Vec<Point> = vec![];
    let mut trace = vec![];
    let mut last: Option<usize> = None;
    let mut advances_used = 0;
    let mut steps = 0;
    let mut horizon_hit = false;
    settle(w.background).await;
    loop {
        let opts = enabled(&w, last, advances_used);
        if opts.is_empty() {
            break;
        }
        if steps >= horizon {
            horizon_hit = true;
            break;
        }
        let idx = if points.len() < prefix.len() { prefix[points.len()] } else { 0 };
        if idx >= opts.len() {
            return Err(format!("replay divergence at point {}: choice {} of {} options {:?}", points.len(), idx, opts.len(), opts.iter().map(|o| o.1.clone()).collect::<Vec<_>>()));
        }
        if points.len() < expect_labels.len() && expect_labels[points.len()] != opts[idx].1 {
            return Err(format!("replay divergence at point {}: expected {} got {}", points.len(), expect_labels[points.len()], opts[idx].1));
        }
        let (act, label) = opts[idx].clone();
        points.push(Point { frozen: w.freeze.load(Ordering::SeqCst), n: opts.len(), chosen: idx, label: label.clone(), labels: opts.iter().map(|o| o.1.clone()).collect() });
        trace.push(label);
        steps += 1;
        match act {
            Action::Run(i) => {
                let t = &mut w.tasks[i];
                t.flag.0.store(false, Ordering::SeqCst);
                let waker = Waker::from(t.flag.clone());
                let mut cx = TaskCx::from_waker(&waker);
                let done = t.fut.as_mut().unwrap().as_mut().poll(&mut cx).is_ready();
                if done {
                    t.fut = None;
                    last = None;
                } else {
                    last = Some(i);
                }
            }
            Action::Arrive(e, n) => {
                let mut s = w.eps[e].lock().unwrap();
                let off = s.msg_off;
                let bytes: Vec<u8> = s.script.inbound[s.next_msg].bytes[off..off + n].to_vec();
                s.rx.extend(bytes);
                s.msg_off += n;
                s.delivered += n;
                if s.msg_off == s.script.inbound[s.next_msg].bytes.len() {
                    s.next_msg += 1;
                    s.msg_off = 0;
                }
                if let Some(wk) = s.read_waker.take() {
                    wk.wake();
                }
            }
            Action::Eof(e) => {
                let mut s = w.eps[e].lock().unwrap();
                s.rx_eof = true;
                s.eof_sent = true;
                if let Some(wk) = s.read_waker.take() {
                    wk.wake();
                }
            }
            Action::Reset(e) => {
                let mut s = w.eps[e].lock().unwrap();
                s.rx_reset = true;
                if let Some(wk) = s.read_waker.take() {
                    wk.wake();
                }
                if let Some(wk) = s.write_waker.take() {
                    wk.wake();
                }
            }
            Action::Window(e, k) => {
                let mut s = w.eps[e].lock().unwrap();
                s.window += k;
                if let Some(wk) = s.write_waker.take() {
                    wk.wake();
                }
            }
            Action::Advance(i) => {
                advances_used += 1;
                tokio::time::advance(w.advances[i]).await;
                tokio::task::yield_now().await;
            }
        }
        settle(w.background).await;
    }
    let blocked: Vec<String> = w.tasks.iter().filter(|t| t.fut.is_some()).map(|t| t.name.clone()).collect();
    let blocked_unexpected: Vec<String> = w.tasks.iter().filter(|t| t.fut.is_some() && !t.may_block).map(|t| t.name.clone()).collect();
    let log = w.log.lock().unwrap().clone();
    // drop the futures inside the runtime context (they may own tokio resources)
    let eps = w.eps.clone();
    drop(w);
    Ok(Exec { points, trace, blocked, blocked_unexpected, horizon_hit, eps, log, user, steps })
}

pub struct Config {
    pub bound: usize,
    pub horizon: usize,
    pub max_executions: u64,
}

#[derive(Default)]
pub struct Stats {
    pub executions: AtomicU64,
    pub steps: AtomicU64,
    pub horizon_hits: AtomicU64,
    pub capped: AtomicBool,
    pub divergence_retries: AtomicU64,
    pub max_depth: AtomicU64,
    pub distinct: Distinct,
}

fn new_rt() -> tokio::runtime::Runtime {
    tokio::runtime::Builder::new_current_thread().enable_all().start_paused(true).build().unwrap()
}

/// Execute one choice vector (with retry on divergence caused by un-owned nondeterminism such as HashMap order).
pub fn execute<S>(build: &(dyn Fn(&mut World) -> S + Sync), prefix: &[usize], labels: &[String], horizon: usize, stats: &Stats) -> Exec<S> {
    let mut last_err = String::new();
    for attempt in 0..40 {
        let rt = new_rt();
        let r = rt.block_on(run_one(build, prefix, labels, horizon));
        drop(rt);
        match r {
            Ok(x) => return x,
            Err(e) => {
                last_err = e;
                if attempt > 0 {
                    stats.divergence_retries.fetch_add(1, Ordering::Relaxed);
                }
            }
        }
    }
    machinery(format!("replay keeps diverging: {last_err}"));
}

/// Depth-first exploration below `prefix` with `budget` deviations left.
fn dfs<S>(build: &(dyn Fn(&mut World) -> S + Sync), check: &(dyn Fn(&Exec<S>) + Sync), prefix: Vec<usize>, labels: Vec<String>, budget: usize, cfg: &Config, stats: &Stats) {
    if stats.executions.load(Ordering::Relaxed) >= cfg.max_executions {
        stats.capped.store(true, Ordering::Relaxed);
        return;
    }
    let x = execute(build, &prefix, &labels, cfg.horizon, stats);
    stats.executions.fetch_add(1, Ordering::Relaxed);
    stats.steps.fetch_add(x.steps as u64, Ordering::Relaxed);
    stats.max_depth.fetch_max(x.points.len() as u64, Ordering::Relaxed);
    if x.horizon_hit {
        stats.horizon_hits.fetch_add(1, Ordering::Relaxed);
    }
    check(&x);
    if budget == 0 {
        return;
    }
    for i in prefix.len()..x.points.len() {
        if x.points[i].frozen {
            break;
        }
        for alt in 1..x.points[i].n {
            let mut p: Vec<usize> = x.points[..i].iter().map(|pt| pt.chosen).collect();
            p.push(alt);
            let mut l: Vec<String> = x.points[..i].iter().map(|pt| pt.label.clone()).collect();
            l.push(x.points[i].labels[alt].clone());
            dfs(build, check, p, l, budget - 1, cfg, stats);
        }
    }
}

/// Explore all executions with at most `cfg.bound` deviations; first-level alternatives are spread over threads.
pub fn explore<S>(cfg: &Config, build: &(dyn Fn(&mut World) -> S + Sync), check: &(dyn Fn(&Exec<S>) + Sync), stats: &Stats) {
    let root = execute(build, &[], &[], cfg.horizon, stats);
    stats.executions.fetch_add(1, Ordering::Relaxed);
    stats.steps.fetch_add(root.steps as u64, Ordering::Relaxed);
    stats.max_depth.fetch_max(root.points.len() as u64, Ordering::Relaxed);
    if root.horizon_hit {
        stats.horizon_hits.fetch_add(1, Ordering::Relaxed);
    }
    check(&root);
    if cfg.bound == 0 {
        return;
    }
    let mut work: Vec<(Vec<usize>, Vec<String>)> = vec![];
    for i in 0..root.points.len() {
        if root.points[i].frozen {
            break;
        }
        for alt in 1..root.points[i].n {
            let mut p: Vec<usize> = root.points[..i].iter().map(|pt| pt.chosen).collect();
            p.push(alt);
            let mut l: Vec<String> = root.points[..i].iter().map(|pt| pt.label.clone()).collect();
            l.push(root.points[i].labels[alt].clone());
            work.push((p, l));
        }
    }
    par_for(work.len(), |i| {
        let (p, l) = work[i].clone();
        dfs(build, check, p, l, cfg.bound - 1, cfg, stats);
    });
}

/// Replays one choice vector twice and asserts identical observations (ownership of nondeterminism).
pub fn replay_twice<S>(build: &(dyn Fn(&mut World) -> S + Sync), choices: &[usize], horizon: usize, obs: &dyn Fn(&Exec<S>) -> String) -> Result<(), String> {
    let st = Stats::default();
    // the choice vector may not denote a schedule of this scenario at all: that is not a finding
    {
        let rt = new_rt();
        if let Err(e) = rt.block_on(run_one(build, choices, &[], horizon)) {
            return Err(format!("replay divergence (not a schedule): {e}"));
        }
    }
    let a = execute(build, choices, &[], horizon, &st);
    let b = execute(build, choices, &a.points.iter().map(|p| p.label.clone()).collect::<Vec<_>>(), horizon, &st);
    let (oa, ob) = (obs(&a), obs(&b));
    if oa != ob || a.trace != b.trace {
        return Err(format!("same schedule, different observations:\n{oa}\n{ob}"));
    }
    Ok(())
}

/// Suspend the calling task once (it stays runnable): a scheduling point that does not depend on the runtime.
pub async fn yield_once() {
    struct Y(bool);
    impl Future for Y {
        type Output = ();
        fn poll(mut self: Pin<&mut Self>, cx: &mut TaskCx<'_>) -> Poll<()> {
            if self.0 {
                Poll::Ready(())
            } else {
                self.0 = true;
                cx.waker().wake_by_ref();
                Poll::Pending
            }
        }
    }
    Y(false).await
}
