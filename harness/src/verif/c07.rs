//! C07 — configured peer authentication is enforced (verdict-cache part).
//! Engine E2: all histories up to length 4 (thorough 5) over {check(u1,p1), check(u1,p2), check(u2,p1),
//! flip the backend's verdict for (u1,p1), wait 0.4 s, wait 1.3 s, runtime busy for 1.3 s} against the real AuthData (external command =
//! plus the refresh family (accept, revoke, then all sequences over {check, wait 0.4, wait 0.7}: a verdict in constant use still expires);
//! a shell script that consults a verdict file and logs every invocation; cache.timeout = 1 s) on the real clock.
//! Reference: a map of (user, pass) -> (verdict, time). Histories whose measured ages come within 150 ms of the
//! timeout are discarded, never judged. SOCKS negotiation and the TLS grids are the real-socket part.
use super::common::*;
use crate::common::auth::AuthData;
use serde_json::json;
use std::collections::HashMap;
use std::sync::atomic::{AtomicU64, Ordering};
use std::time::{Duration, Instant};

/// "busy1.3": the runtime thread is kept busy for 1.3 s (no task can run: the schedule in which the cache's own
/// clean-up has not been scheduled yet although the deadline has passed); "wait1.3": it is idle for 1.3 s.
const EVENTS: [&str; 8] = ["check(u1,p1)", "check(u1,p2)", "check(u2,p1)", "flip(u1,p1)", "wait0.4", "wait1.3", "busy1.3", "wait0.7"];
/// the alphabet of the exhaustive histories; "wait0.7" only occurs in the refresh family
const MAIN_EVENTS: usize = 7;

struct Outcome {
    hist: Vec<usize>,
    verdict: Result<(), (String, String)>, // Err((class, detail))
    ambiguous: bool,
    backend_calls: usize,
    cache_hits: usize,
}

async fn run_history(dir: String, idx: usize, hist: Vec<usize>) -> Outcome {
    let base = format!("{}/h{}", dir, idx);
    let _ = std::fs::create_dir_all(&base);
    let script = format!("{}/auth.sh", base);
    let logf = format!("{}/calls.log", base);
    let okf = format!("{}/ok", base);
    // backend: u1/p1 is accepted iff the file `ok` exists; everything else is refused
    std::fs::write(&script, format!("#!/bin/sh\necho \"$1 $2\" >> {logf}\n[ \"$1\" = u1 ] && [ \"$2\" = p1 ] && [ -e {okf} ]\n")).unwrap();
    std::fs::write(&okf, "").unwrap();
    let yaml = format!("required: true\ncmd: [\"/bin/sh\", \"{script}\", \"#USER#\", \"#PASS#\"]\ncache:\n  timeout: 1\n");
    let mut auth: AuthData = serde_yaml::from_str(&yaml).expect("auth config");
    auth.init().await.expect("init");
    let timeout = Duration::from_secs(1);
    let slack = Duration::from_millis(150);
    // reference cache: pair -> (verdict, window in which it was stored)
    let mut cache: HashMap<(String, String), (bool, Instant, Instant)> = HashMap::new();
    let mut backend_ok = true;
    let mut calls_expected = 0usize;
    let mut hits = 0usize;
    let mut ambiguous = false;
    let mut verdict = Ok(());
    let calls = |f: &str| std::fs::read_to_string(f).map(|s| s.lines().map(|l| l.to_string()).collect::<Vec<_>>()).unwrap_or_default();
    for (step, &e) in hist.iter().enumerate() {
        match e {
            0 | 1 | 2 => {
                let (u, p) = [("u1", "p1"), ("u1", "p2"), ("u2", "p1")][e];
                let key = (u.to_string(), p.to_string());
                let before = calls(&logf).len();
                let t0 = Instant::now();
                let got = auth.check(&Some(key.clone())).await;
                let t1 = Instant::now();
                let after = calls(&logf);
                let invoked = after.len() - before;
                // what may the reference answer?
                let backend_verdict = u == "u1" && p == "p1" && backend_ok;
                let cached = cache.get(&key).cloned();
                let (must_be_cached, must_be_fresh) = match cached {
                    Some((_, s0, s1)) => {
                        let surely_valid = t1.duration_since(s0) + slack < timeout;
                        let surely_expired = t0.duration_since(s1) > timeout + slack;
                        if !surely_valid && !surely_expired {
                            ambiguous = true;
                            break;
                        }
                        (surely_valid, surely_expired)
                    }
                    None => (false, true),
                };
                let _ = must_be_fresh;
                if must_be_cached {
                    hits += 1;
                    let (cv, _, _) = cached.unwrap();
                    if invoked != 0 || got != cv {
                        verdict = Err(("cached-verdict-not-reused".to_string(), format!("step {step} {}: cached {cv}, got {got}, backend invoked {invoked}x", EVENTS[e])));
                        break;
                    }
                } else {
                    calls_expected += 1;
                    if invoked != 1 || after.last().map(|l| l.as_str()) != Some(&format!("{} {}", u, p)) {
                        // the verdict came from somewhere else than the backend: which cached entry could it be?
                        let class = if cached.is_some() { "verdict-reused-after-expiry" } else if cache.keys().any(|k| k.0 == u && k.1 != p) { "verdict-reused-for-another-password" } else { "backend-not-consulted" };
                        verdict = Err((class.to_string(), format!("step {step} {}: no valid cache entry for this pair, but the backend was invoked {invoked}x (last call {:?}); answer {got}", EVENTS[e], after.last())));
                        break;
                    }
                    if got != backend_verdict {
                        verdict = Err(("wrong-verdict".to_string(), format!("step {step} {}: backend says {backend_verdict}, check() says {got}", EVENTS[e])));
                        break;
                    }
                    cache.insert(key, (backend_verdict, t0, t1));
                }
            }
            3 => {
                backend_ok = !backend_ok;
                if backend_ok {
                    std::fs::write(&okf, "").unwrap();
                } else {
                    let _ = std::fs::remove_file(&okf);
                }
            }
            4 => tokio::time::sleep(Duration::from_millis(400)).await,
            5 => tokio::time::sleep(Duration::from_millis(1300)).await,
            7 => tokio::time::sleep(Duration::from_millis(700)).await,
            _ => std::thread::sleep(Duration::from_millis(1300)),
        }
    }
    let _ = std::fs::remove_dir_all(&base);
    Outcome { hist, verdict, ambiguous, backend_calls: calls_expected, cache_hits: hits }
}

/// Placeholder substitution: the external command must receive exactly the user name and the password the peer
/// presented, whatever they contain (including the placeholders themselves).
fn substitution_grid(chk: &Check) -> usize {
    let dir = format!("{}/target/c07-subst-{}", VERIF_DIR, std::process::id());
    let _ = std::fs::create_dir_all(&dir);
    let pairs: Vec<(&str, &str)> = vec![
        ("u", "p"),
        ("#PASS#", "x"),
        ("a#PASS#b", "x"),
        ("#USER#", "x"),
        ("u", "#USER#"),
        ("u", "#PASS#"),
        ("#USER##PASS#", "#PASS##USER#"),
        ("#PASS", "S#"),
        ("", ""),
        ("u v", "p q"),
    ];
    let rt = tokio::runtime::Builder::new_current_thread().enable_all().build().unwrap();
    for (i, (u, p)) in pairs.iter().enumerate() {
        let script = format!("{dir}/s{i}.sh");
        let logf = format!("{dir}/l{i}.log");
        std::fs::write(&script, format!("#!/bin/sh\nprintf '%s|%s\\n' \"$1\" \"$2\" >> {logf}\nexit 1\n")).unwrap();
        let yaml = format!("required: true\ncmd: [\"/bin/sh\", \"{script}\", \"#USER#\", \"#PASS#\"]\ncache:\n  timeout: 0\n");
        let got = rt.block_on(async {
            let mut auth: AuthData = serde_yaml::from_str(&yaml).expect("auth config");
            auth.init().await.expect("init");
            auth.check(&Some((u.to_string(), p.to_string()))).await
        });
        let seen = std::fs::read_to_string(&logf).unwrap_or_default();
        let want = format!("{}|{}\n", u, p);
        if seen != want || got {
            let class = if seen.is_empty() { "backend-not-consulted" } else { "backend-asked-about-other-credentials" };
            chk.violation("auth.command", class, format!("peer presented user {:?} password {:?}; the command received {:?} (accepted: {got})", u, p, seen.trim_end()), json!({"user": u, "password": p, "received": seen}));
        }
    }
    let _ = std::fs::remove_dir_all(&dir);
    pairs.len()
}

/// Trust anchors a TLS connector ends up with, for every kind of `ca` setting. Only an absent `ca` may mean "the
/// public roots" (that is the documented default); a configured file must contribute exactly its certificates or be
/// refused - otherwise upstreams are accepted whose certificate does not chain to the configured CA.
fn trust_anchor_grid(chk: &Check) -> Vec<serde_json::Value> {
    use crate::common::tls::TlsClientConfig;
    let dir = format!("{}/target/c07-ca-{}", VERIF_DIR, std::process::id());
    let _ = std::fs::create_dir_all(&dir);
    let certs = format!("{}/target/certs", VERIF_DIR);
    let ca_pem = std::fs::read_to_string(format!("{certs}/ca.crt")).unwrap_or_default();
    let key_pem = std::fs::read_to_string(format!("{certs}/server.key")).unwrap_or_default();
    if !ca_pem.contains("BEGIN CERTIFICATE") {
        machinery(format!("test CA missing in {certs} (bin/setup creates it)"));
    }
    let public = webpki_roots::TLS_SERVER_ROOTS.0.len();
    let files: Vec<(&str, Option<String>, Option<usize>)> = vec![
        // (kind, file content, number of anchors expected: None = must be refused)
        ("ca absent", None, Some(public)),
        ("ca = the test CA", Some(ca_pem.clone()), Some(1)),
        ("ca = the test CA twice", Some(format!("{ca_pem}{ca_pem}")), Some(2)),
        ("ca = empty file", Some(String::new()), None),
        ("ca = a private key only", Some(key_pem.clone()), None),
        ("ca = text without PEM block", Some("not a certificate\n".to_string()), None),
        ("ca = key followed by the test CA", Some(format!("{key_pem}{ca_pem}")), Some(1)),
    ];
    let mut out = vec![];
    for (i, (kind, content, want)) in files.iter().enumerate() {
        let yaml = match content {
            None => "insecure: false\n".to_string(),
            Some(c) => {
                let f = format!("{dir}/ca{i}.pem");
                std::fs::write(&f, c).unwrap();
                format!("ca: {f}\ninsecure: false\n")
            }
        };
        let cfg: TlsClientConfig = serde_yaml::from_str(&yaml).expect("tls client config");
        let got = catch(|| cfg.root_store().map(|s| s.roots.len()).map_err(|e| e.to_string()));
        let shown = format!("{:?}", got);
        match (got, want) {
            (Err(p), _) => chk.violation("tls.trust", "panic", format!("{kind}: {p}"), json!({"ca": kind})),
            (Ok(Ok(n)), Some(w)) if n == *w => {}
            (Ok(Err(_)), None) => {}
            (Ok(Ok(n)), None) => chk.violation(
                "tls.trust",
                if n == public { "configured-ca-without-certificate-falls-back-to-public-roots" } else { "configured-ca-without-certificate-accepted" },
                format!("{kind}: the connector would trust {n} anchors ({public} = the bundled public roots); an upstream certified by any of them is accepted although it does not chain to the configured CA"),
                json!({"ca": kind, "anchors": n}),
            ),
            (Ok(r), Some(w)) => chk.violation("tls.trust", "wrong-trust-anchors", format!("{kind}: expected {w} anchors, got {:?}", r), json!({"ca": kind})),
        }
        out.push(json!({"ca": kind, "trust_anchors": shown}));
    }
    let _ = std::fs::remove_dir_all(&dir);
    out
}

/// Every way the external command can end: only "exited with status 0" is an acceptance. A helper that is killed by a
/// signal, cannot be started, or exits with any other status has not accepted anything.
fn outcome_grid(chk: &Check) -> usize {
    let dir = format!("{}/target/c07-outcome-{}", VERIF_DIR, std::process::id());
    let _ = std::fs::create_dir_all(&dir);
    // (name, script body, accepts?)
    let outcomes: Vec<(&str, String, bool)> = vec![
        ("exit 0", "exit 0".into(), true),
        ("exit 1", "exit 1".into(), false),
        ("exit 2", "exit 2".into(), false),
        ("exit 126", "exit 126".into(), false),
        ("exit 127", "exit 127".into(), false),
        ("exit 255", "exit 255".into(), false),
        ("exit 256 (wraps to 0 in the shell)", "exit 256".into(), true),
        ("killed by SIGKILL", "kill -KILL $$".into(), false),
        ("killed by SIGABRT", "kill -ABRT $$".into(), false),
        ("killed by SIGSEGV", "kill -SEGV $$".into(), false),
        ("killed by SIGTERM", "kill -TERM $$".into(), false),
        ("prints yes, exits 1", "echo yes; exit 1".into(), false),
        ("prints no, exits 0", "echo no; exit 0".into(), true),
    ];
    let rt = tokio::runtime::Builder::new_current_thread().enable_all().build().unwrap();
    let mut n = 0;
    for (i, (name, body, accepts)) in outcomes.iter().enumerate() {
        let script = format!("{dir}/o{i}.sh");
        std::fs::write(&script, format!("#!/bin/sh\n{body}\n")).unwrap();
        for cmd in [format!("[\"/bin/sh\", \"{script}\", \"#USER#\", \"#PASS#\"]")] {
            let yaml = format!("required: true\ncmd: {cmd}\ncache:\n  timeout: 60\n");
            // asked twice: the second answer comes from the cache and must be the same verdict
            let got = rt.block_on(async {
                let mut auth: AuthData = serde_yaml::from_str(&yaml).expect("auth config");
                auth.init().await.expect("init");
                let a = auth.check(&Some(("u".to_string(), "p".to_string()))).await;
                let b = auth.check(&Some(("u".to_string(), "p".to_string()))).await;
                (a, b)
            });
            n += 1;
            if got != (*accepts, *accepts) {
                chk.violation("auth.command", &format!("command-outcome-misread:{}", name.split(' ').take(3).collect::<Vec<_>>().join(" ")), format!("the command ends with: {name}; check() says {:?} (first, cached), expected {accepts}", got), json!({"outcome": name, "script": body}));
            }
        }
    }
    // a command that cannot be started at all
    let yaml = "required: true\ncmd: [\"/nonexistent/helper\", \"#USER#\", \"#PASS#\"]\ncache:\n  timeout: 60\n";
    let got = rt.block_on(async {
        let mut auth: AuthData = serde_yaml::from_str(yaml).expect("auth config");
        auth.init().await.expect("init");
        auth.check(&Some(("u".to_string(), "p".to_string()))).await
    });
    n += 1;
    if got {
        chk.violation("auth.command", "command-outcome-misread:cannot be started", "the command does not exist; check() says true".to_string(), json!({"outcome": "spawn failure"}));
    }
    let _ = std::fs::remove_dir_all(&dir);
    n
}

#[test]
fn check() {
    let chk = Check::new("C07");
    let trust = trust_anchor_grid(&chk);
    let subst = substitution_grid(&chk) + outcome_grid(&chk);
    let maxlen = if chk.thorough() { 5 } else { 4 };
    let mut hists: Vec<Vec<usize>> = vec![];
    let mut cur: Vec<Vec<usize>> = vec![vec![]];
    for _ in 0..maxlen {
        let mut next = vec![];
        for h in &cur {
            for e in 0..MAIN_EVENTS {
                let mut n = h.clone();
                n.push(e);
                next.push(n);
            }
        }
        // keep histories that end in a check and contain at least two checks
        hists.extend(next.iter().filter(|h| *h.last().unwrap() < 3 && h.iter().filter(|&&e| e < 3).count() >= 2).cloned());
        cur = next;
    }
    // refresh family: a verdict that is used again and again inside its validity must still expire when its time is up
    // (counted from when the backend gave it, not from its last use): accept, revoke in the backend, then every
    // sequence of length 4 (thorough 5) over {check(u1,p1), wait 0.4, wait 0.7} that ends in a check
    {
        let alpha = [0usize, 4, 7];
        let flen = if chk.thorough() { 5 } else { 4 };
        let mut cur: Vec<Vec<usize>> = vec![vec![0, 3]];
        for _ in 0..flen {
            cur = cur.iter().flat_map(|h| alpha.iter().map(move |&e| { let mut n = h.clone(); n.push(e); n })).collect();
        }
        hists.extend(cur.into_iter().filter(|h| *h.last().unwrap() == 0));
    }
    let dir = format!("{}/target/c07-scratch-{}", VERIF_DIR, std::process::id());
    let _ = std::fs::remove_dir_all(&dir);
    std::fs::create_dir_all(&dir).unwrap();
    // every history on its own single-threaded runtime (the "busy" event must stop that history's tasks, and only those)
    let next = std::sync::atomic::AtomicUsize::new(0);
    let results: std::sync::Mutex<Vec<(usize, Outcome)>> = Default::default();
    std::thread::scope(|sc| {
        for _ in 0..48 {
            sc.spawn(|| loop {
                let i = next.fetch_add(1, Ordering::Relaxed);
                if i >= hists.len() {
                    break;
                }
                let rt = tokio::runtime::Builder::new_current_thread().enable_all().build().unwrap();
                let o = rt.block_on(run_history(dir.clone(), i, hists[i].clone()));
                results.lock().unwrap().push((i, o));
            });
        }
    });
    let mut results = results.into_inner().unwrap();
    results.sort_by_key(|r| r.0);
    let outcomes: Vec<Outcome> = results.into_iter().map(|r| r.1).collect();
    let _ = std::fs::remove_dir_all(&dir);
    let n = outcomes.len() as u64;
    let ambiguous = outcomes.iter().filter(|o| o.ambiguous).count() as u64;
    let hits: u64 = outcomes.iter().map(|o| o.cache_hits as u64).sum();
    let calls: u64 = outcomes.iter().map(|o| o.backend_calls as u64).sum();
    let distinct = Distinct::default();
    for o in &outcomes {
        distinct.add(&(o.backend_calls, o.cache_hits, o.verdict.is_ok()));
        if let Err((class, detail)) = &o.verdict {
            let names: Vec<&str> = o.hist.iter().map(|&e| EVENTS[e]).collect();
            chk.violation("auth.cache", class, format!("history {:?}: {detail}", names), json!({"history": names, "cache_timeout_s": 1}));
        }
    }
    if chk.violation_count() == 0 && (n < 500 || hits < 100 || calls < 500 || ambiguous * 4 > n) {
        machinery(format!("vacuous or too noisy: histories={n} cache-hits={hits} backend-calls={calls} ambiguous={ambiguous}"));
    }
    let coverage = json!({
        "exhaustive": true,
        "states": distinct.len(), "transitions": outcomes.iter().map(|o| o.hist.len() as u64).sum::<u64>(), "traces_validated_against_impl": n - ambiguous,
        "evaluations": n, "distinct_nontrivial": hits,
        "rule": format!("all event histories of length <= {} over {:?} that end in a check and contain >= 2 checks, each on a fresh real AuthData with an external command backend and cache.timeout = 1 s (real clock). non-trivial = checks answered from the cache. states = distinct (backend calls, cache hits, ok) triples", maxlen, EVENTS),
        "trust_anchor_grid": trust, "placeholder_substitution_pairs": subst, "histories": n, "cache_hits": hits, "backend_calls": calls, "discarded_for_timing": ambiguous,
        "samples": [{"history": ["check(u1,p1)", "check(u1,p2)"], "expect": "second check reaches the backend and is refused"}, {"history": ["check(u1,p1)", "flip(u1,p1)", "wait1.3", "check(u1,p1)"], "expect": "backend asked again after expiry: refused"}],
    });
    chk.finish(
        "model_checking",
        coverage,
        vec![
            "real clock (the cache uses tokio timers and a child process): measured ages within 150 ms of the timeout are discarded and never judged".into(),
            "in-process part covers the verdict cache; negotiation and TLS policies are checked on real sockets".into(),
        ],
    );
}
