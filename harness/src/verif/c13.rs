//! C13 — idle tunnels are closed after the configured timeout, and only then (relay semantics part).
//! All traffic patterns over 8 half-second slots with alphabet {silent, client byte, origin byte}, each preceded by
//! {nothing, client half-close, origin half-close}, for T in {0, 1, 2} s, run concurrently on the real copy_bidi
//! over in-memory duplex pipes with the REAL clock (ContextStatistics stamps with SystemTime::now()).
//! Oracle from the harness' own timestamps; slack is one-sided so load can only delay a verdict, not fabricate one.
use super::common::*;
use crate::config::IoParams;
use crate::context::{make_buffered_stream, GlobalState as Contexts};
use crate::copy::copy_bidi;
use serde_json::json;
use std::sync::atomic::{AtomicU64, Ordering};
use std::sync::Arc;
use std::time::{Duration, Instant};
use tokio::io::{AsyncReadExt, AsyncWriteExt};

#[derive(Debug, Clone)]
struct Outcome {
    pattern: Vec<u8>,
    pre: u8,
    t: u64,
    /// seconds since start at which copy_bidi returned, and how
    closed_at: Option<f64>,
    result: String,
    /// send times (seconds since start)
    sends: Vec<f64>,
}

async fn run_pattern(contexts: Arc<Contexts>, pattern: Vec<u8>, pre: u8, t: u64, slot: Duration, horizon: Duration, msg_len: usize) -> Outcome {
    // the connection's clock starts when its context is created (that is where the proxy stamps "last data"):
    // take the harness' zero before that, or a busy scheduler between the two makes a correct close look early
    let start = Instant::now();
    let ctx = contexts.create_context("l".into(), "127.0.0.1:1".parse().unwrap()).await;
    let (c_proxy, mut c_peer) = tokio::io::duplex(4096);
    let (s_proxy, mut s_peer) = tokio::io::duplex(4096);
    ctx.write().await.set_client_stream(make_buffered_stream(c_proxy)).set_server_stream(make_buffered_stream(s_proxy)).set_connector("up".into()).set_idle_timeout(t);
    let params = IoParams { buffer_size: 64, use_splice: false };
    let ctx2 = ctx.clone();
    let relay = tokio::spawn(async move {
        let r = copy_bidi(ctx2, &params).await;
        (Instant::now(), r.map_err(|e| e.to_string()))
    });
    let mut sends = vec![];
    let mut c_open = true;
    let mut s_open = true;
    if pre == 1 {
        let _ = c_peer.shutdown().await;
        c_open = false;
    } else if pre == 2 {
        let _ = s_peer.shutdown().await;
        s_open = false;
    }
    let mut buf = [0u8; 256];
    let cmsg = vec![b'c'; msg_len];
    let smsg = vec![b's'; msg_len];
    for (i, &ev) in pattern.iter().enumerate() {
        // slot i begins at i*slot
        let due = start + slot * i as u32;
        tokio::time::sleep_until(due.into()).await;
        if relay.is_finished() {
            break;
        }
        match ev {
            1 if c_open => {
                let at = start.elapsed().as_secs_f64();
                if c_peer.write_all(&cmsg).await.is_ok() {
                    sends.push(at);
                    let _ = tokio::time::timeout(Duration::from_millis(400), s_peer.read(&mut buf)).await;
                }
            }
            2 if s_open => {
                let at = start.elapsed().as_secs_f64();
                if s_peer.write_all(&smsg).await.is_ok() {
                    sends.push(at);
                    let _ = tokio::time::timeout(Duration::from_millis(400), c_peer.read(&mut buf)).await;
                }
            }
            _ => {}
        }
    }
    let res = tokio::time::timeout_at((start + horizon).into(), relay).await;
    let (closed_at, result) = match res {
        Ok(Ok((at, r))) => (Some(at.duration_since(start).as_secs_f64()), match r {
            Ok(()) => "ok".to_string(),
            Err(e) => e,
        }),
        Ok(Err(e)) => (None, format!("join error {e}")),
        Err(_) => (None, "still-open".to_string()),
    };
    drop(c_peer);
    drop(s_peer);
    Outcome { pattern, pre, t, closed_at, result, sends }
}

#[test]
fn check() {
    let chk = Check::new("C13");
    let slots = if chk.thorough() { 8 } else { 7 };
    let slot = Duration::from_millis(500);
    let mut patterns: Vec<Vec<u8>> = vec![vec![]];
    for _ in 0..slots {
        let mut n = vec![];
        for p in &patterns {
            for e in 0..3u8 {
                let mut q = p.clone();
                q.push(e);
                n.push(q);
            }
        }
        patterns = n;
    }
    // T = 4 is there for the late bound: the check runs on a 1 s ticker, so "late" must be told apart from
    // "one tick late" by a period that is large against the ticker (a ticker as long as the period closes a tunnel
    // up to 2T after its last byte: with T <= 2 that hides inside the slack)
    let ts: Vec<u64> = vec![0, 1, 2, 4];
    let horizon = slot * slots as u32 + Duration::from_millis(4000 + 1000 + 2500);
    let rt = tokio::runtime::Builder::new_multi_thread().worker_threads(12).enable_all().build().unwrap();
    // how late does this runtime run its timers? (a loaded machine delays the relay's ticker and the observation alike:
    // the late bound, a deadline, is extended by what was measured; the early bound needs no such allowance)
    let max_lag_ms = Arc::new(AtomicU64::new(0));
    let lag = max_lag_ms.clone();
    let outcomes: Vec<Outcome> = rt.block_on(async {
        tokio::spawn(async move {
            loop {
                let t0 = Instant::now();
                tokio::time::sleep(Duration::from_millis(20)).await;
                let over = t0.elapsed().as_millis().saturating_sub(20) as u64;
                lag.fetch_max(over, Ordering::Relaxed);
            }
        });
        let contexts: Arc<Contexts> = Default::default();
        let mut todo = vec![];
        for &t in &ts {
            for pre in 0..3u8 {
                for p in &patterns {
                    // thin the T=0 and half-closed families in the quick tier
                    if !chk.thorough() && (t == 0 || pre != 0) && p.iter().enumerate().any(|(i, &e)| e != 0 && i % 2 == 1) {
                        continue;
                    }
                    // T = 4: patterns with at most two bytes (thorough: three)
                    if t == 4 && (pre != 0 || p.iter().filter(|&&e| e != 0).count() > if chk.thorough() { 3 } else { 2 }) {
                        continue;
                    }
                    todo.push((p.clone(), pre, t, 1usize));
                    // the same traffic in messages that fill the relay's buffer exactly (every read of the relay is a full
                    // one): activity is activity whatever the size of the reads
                    if pre == 0 && (t == 1 || t == 2) && (chk.thorough() || p.iter().enumerate().all(|(i, &e)| e == 0 || i % 2 == 0)) {
                        todo.push((p.clone(), pre, t, 64usize));
                    }
                }
            }
        }
        // in batches: tens of thousands of tunnels at once make the runtime itself late (each has a 1 s ticker), and a
        // deadline verdict must not measure the harness
        let mut out = vec![];
        for batch in todo.chunks(6000) {
            let hs: Vec<_> = batch.iter().map(|(p, pre, t, ml)| tokio::spawn(run_pattern(contexts.clone(), p.clone(), *pre, *t, slot, horizon, *ml))).collect();
            for h in hs {
                out.push(h.await.expect("pattern task"));
            }
        }
        out
    });
    let n = outcomes.len() as u64;
    let closed_idle = AtomicU64::new(0);
    let distinct = Distinct::default();
    let eps = 0.010;
    for o in &outcomes {
        let pre_name = ["none", "client-half-closed", "origin-half-closed"][o.pre as usize];
        let replay = json!({"T": o.t, "slot_ms": 500, "pre": pre_name, "pattern": o.pattern, "sends_s": o.sends, "closed_at_s": o.closed_at, "result": o.result});
        distinct.add(&(o.t, o.pre, o.result.clone(), o.closed_at.map(|c| (c * 2.0) as u64)));
        let idle_close = o.result.contains("idle timeout");
        if o.t == 0 {
            if idle_close {
                chk.violation("idle.disabled", "closed-although-timeout-is-0", format!("T=0 {pre_name} pattern {:?}: closed at {:?}", o.pattern, o.closed_at), replay);
            }
            continue;
        }
        let t = o.t as f64;
        if idle_close {
            closed_idle.fetch_add(1, Ordering::Relaxed);
            let at = o.closed_at.unwrap();
            // never closed for idleness while a byte was sent less than T before
            // a byte written within 100 ms of the close may simply not have reached the relay yet: it does not count
            if let Some(&s) = o.sends.iter().filter(|&&s| s <= at - 0.1).last() {
                if at - s < t - eps {
                    let class = if o.pre != 0 { "closed-while-live-direction-carried-data:half-closed-tunnel" } else { "closed-while-data-was-recent" };
                    chk.violation("idle.early", class, format!("T={} {pre_name} pattern {:?}: closed at {:.3}s, last byte sent at {:.3}s ({:.3}s before)", o.t, o.pattern, at, s, at - s), replay.clone());
                }
            } else if at < t - eps {
                chk.violation("idle.early", "closed-before-period-elapsed", format!("T={} pattern {:?}: closed at {:.3}s without any traffic", o.t, o.pattern, at), replay.clone());
            }
        }
        // closed no later than T + ticker (1 s) + slack after the last byte (the horizon leaves room for it)
        let last = o.sends.last().cloned().unwrap_or(0.0);
        let deadline = last + 0.4 + t + 1.0 + 1.5 + 2.0 * max_lag_ms.load(Ordering::Relaxed) as f64 / 1000.0;
        match o.closed_at {
            Some(at) if idle_close && at > deadline => chk.violation("idle.late", "closed-too-late", format!("T={} {pre_name} pattern {:?}: last byte {:.3}s, closed {:.3}s", o.t, o.pattern, last, at), replay),
            None if horizon.as_secs_f64() > deadline + 0.2 => chk.violation("idle.late", "idle-tunnel-never-closed", format!("T={} {pre_name} pattern {:?}: last byte {:.3}s, still open at {:.1}s ({})", o.t, o.pattern, last, horizon.as_secs_f64(), o.result), replay),
            _ => {}
        }
    }
    if chk.violation_count() == 0 && (n < 1000 || closed_idle.load(Ordering::Relaxed) < 100 || distinct.len() < 10) {
        machinery(format!("vacuous: patterns={n} closed-for-idleness={} distinct={}", closed_idle.load(Ordering::Relaxed), distinct.len()));
    }
    let coverage = json!({
        "exhaustive": true,
        "states": distinct.len(), "transitions": n * slots as u64, "traces_validated_against_impl": n,
        "evaluations": n, "distinct_nontrivial": closed_idle.load(Ordering::Relaxed),
        "rule": format!("all 3^{} traffic patterns over half-second slots (silent / client byte / origin byte) x T in {{0,1,2}} s (+ T = 4 s for patterns with at most 2-3 bytes, for the late bound) x pre-state {{open, client half-closed, origin half-closed}} x message size {{1 byte, exactly the relay's buffer (64 bytes; T in 1..2, open tunnels)}} (quick tier thins the T=0 and half-closed families), run concurrently on the real copy_bidi with the real clock. non-trivial = tunnels closed with 'idle timeout'. states = distinct (T, pre-state, result, half-second bucket of the close time)", slots),
        "patterns": n, "slots": slots, "max_timer_lag_ms": max_lag_ms.load(Ordering::Relaxed),
        "samples": [{"T": 1, "pattern": [1, 0, 2, 0, 0, 0, 0], "expect": "closed between 2.0 s and 4.9 s (1 s after the origin byte at 1.0 s, plus ticker and slack)"}],
    });
    chk.finish(
        "model_checking",
        coverage,
        vec![
            "real clock: the early bound is hard (the proxy stamps after the harness sends; 10 ms epsilon for millisecond truncation), the late bound carries 1 s ticker + 1.5 s one-sided slack".into(),
            "periods other than 0, 1, 2, 4 s are not run (the code is uniform in T); the wiring of configured values is the real-binary part".into(),
        ],
    );
}
