//! C05 — no remote input can crash or wedge the proxy (decoder level).
//! Engine E2: bounded-exhaustive byte strings / structured header grids fed to the real decoders under catch_unwind
//! (a panic here is a process abort in the shipped binary: panic = 'abort'). Oracle: the decoder returns
//! (Ok or Err) within a poll budget; never panics, never spins.
use super::c12::{decode, messages, Codec};
use super::common::*;
use super::io::*;
use crate::common::fragment::Fragments;
use crate::common::frames::Frame;
use crate::common::h11c::{h11c_connect, h11c_handshake};
use crate::common::socks::frames::decode_socks_frame;
use crate::context::{make_buffered_stream, ContextRef, Feature, GlobalState as Contexts, TargetAddress};
use bytes::Bytes;
use serde_json::json;
use std::sync::atomic::{AtomicU64, Ordering};
use std::sync::Arc;
use std::time::Duration;

fn norm(msg: &str) -> String {
    let mut out = String::new();
    let mut last_digit = false;
    for c in msg.chars() {
        if c.is_ascii_digit() {
            if !last_digit {
                out.push('N');
            }
            last_digit = true;
        } else {
            last_digit = false;
            out.push(c);
        }
    }
    truncate(&out, 70)
}

struct Ctr {
    cases: AtomicU64,
    outcomes: Distinct,
}

fn strings_over(alpha: &[u8], maxlen: usize, mut f: impl FnMut(&[u8])) {
    let mut cur: Vec<u8> = vec![];
    fn go(alpha: &[u8], maxlen: usize, cur: &mut Vec<u8>, f: &mut dyn FnMut(&[u8])) {
        f(cur);
        if cur.len() == maxlen {
            return;
        }
        for &a in alpha {
            cur.push(a);
            go(alpha, maxlen, cur, f);
            cur.pop();
        }
    }
    go(alpha, maxlen, &mut cur, &mut f);
}

/// run a stream decoder on raw bytes (delivered in one segment and, if short, byte-wise); report panics / hangs
fn try_decode(chk: &Check, ctr: &Ctr, codec: Codec, data: &[u8], site: &str) {
    ctr.cases.fetch_add(1, Ordering::Relaxed);
    match decode(codec, ChunkStream::new(vec![data.to_vec()])) {
        Ok((res, _)) => ctr.outcomes.add(&(codec, res.is_ok(), res.as_ref().err().map(|e| norm(e)))),
        Err(p) => {
            let class = if p.contains("did not terminate") { "hang".to_string() } else { format!("panic:{}", norm(&p)) };
            chk.violation(site, &class, format!("{:?} on input {}: {p}", codec, hex(data)), json!({"codec": format!("{:?}", codec), "bytes": hex(data)}));
        }
    }
}

/// An input that never ends: `prefix`, then `pattern` repeated for ever (in 64 KiB segments). Counts what the
/// decoder has taken. A decoder that keeps buffering such a field exhausts memory and the process is killed.
struct EndlessStream {
    prefix: Vec<u8>,
    pattern: Vec<u8>,
    phase: usize,
    taken: Arc<AtomicU64>,
    cap: u64,
}

impl tokio::io::AsyncRead for EndlessStream {
    fn poll_read(mut self: std::pin::Pin<&mut Self>, _cx: &mut std::task::Context<'_>, buf: &mut tokio::io::ReadBuf<'_>) -> std::task::Poll<std::io::Result<()>> {
        if !self.prefix.is_empty() {
            let n = self.prefix.len().min(buf.remaining());
            let rest = self.prefix.split_off(n);
            buf.put_slice(&self.prefix);
            self.prefix = rest;
            self.taken.fetch_add(n as u64, Ordering::Relaxed);
            return std::task::Poll::Ready(Ok(()));
        }
        if self.taken.load(Ordering::Relaxed) >= self.cap {
            // the harness gives up here (the real peer would not): end of stream
            return std::task::Poll::Ready(Ok(()));
        }
        let n = buf.remaining().min(65536);
        for _ in 0..n {
            let b = self.pattern[self.phase];
            self.phase = (self.phase + 1) % self.pattern.len();
            buf.put_slice(&[b]);
        }
        self.taken.fetch_add(n as u64, Ordering::Relaxed);
        std::task::Poll::Ready(Ok(()))
    }
}

impl tokio::io::AsyncWrite for EndlessStream {
    fn poll_write(self: std::pin::Pin<&mut Self>, _cx: &mut std::task::Context<'_>, buf: &[u8]) -> std::task::Poll<std::io::Result<usize>> {
        std::task::Poll::Ready(Ok(buf.len()))
    }
    fn poll_flush(self: std::pin::Pin<&mut Self>, _cx: &mut std::task::Context<'_>) -> std::task::Poll<std::io::Result<()>> {
        std::task::Poll::Ready(Ok(()))
    }
    fn poll_shutdown(self: std::pin::Pin<&mut Self>, _cx: &mut std::task::Context<'_>) -> std::task::Poll<std::io::Result<()>> {
        std::task::Poll::Ready(Ok(()))
    }
}

/// bytes the decoder took from a never-ending input before it returned (Ok or Err)
fn decode_endless(codec: Codec, prefix: &[u8], pattern: &[u8], cap: u64) -> Result<u64, String> {
    use crate::common::http::{HttpRequest, HttpResponse};
    use crate::common::socks::{NoAuth, PasswordAuth, SocksRequest, SocksResponse};
    let taken = Arc::new(AtomicU64::new(0));
    let stream = EndlessStream { prefix: prefix.to_vec(), pattern: pattern.to_vec(), phase: 0, taken: taken.clone(), cap };
    catch(|| {
        let fut = async move {
            let mut r = tokio::io::BufReader::new(stream);
            match codec {
                Codec::HttpReq => drop(HttpRequest::read_from(&mut r).await),
                Codec::HttpResp => drop(HttpResponse::read_from(&mut r).await),
                Codec::SocksReqNoAuth => drop(SocksRequest::read_from(&mut r, NoAuth).await),
                Codec::SocksReqPwRequired => drop(SocksRequest::read_from(&mut r, PasswordAuth::required()).await),
                Codec::SocksReqPwOptional => drop(SocksRequest::read_from(&mut r, PasswordAuth::optional()).await),
                Codec::SocksResp => drop(SocksResponse::read_from(&mut r).await),
                Codec::Frames => {
                    let (mut fr, _fw) = crate::common::frames::frames_from_stream(0, r);
                    for _ in 0..64 {
                        if !matches!(fr.read().await, Ok(Some(_))) {
                            break;
                        }
                    }
                }
            }
        };
        run_ready(fut, 10_000_000)
    })
    .and_then(|o| o.ok_or_else(|| "decoder did not terminate".to_string()))?;
    Ok(taken.load(Ordering::Relaxed))
}

fn new_ctx(contexts: &Arc<Contexts>, client: ChunkStream) -> ContextRef {
    let ctx = run_ready(contexts.create_context("l".to_string(), "127.0.0.1:1".parse().unwrap()), 1000).expect("create_context");
    run_ready(
        async {
            ctx.write().await.set_client_stream(make_buffered_stream(client));
        },
        1000,
    )
    .expect("set stream");
    ctx
}

#[test]
fn check() {
    let chk = Check::new("C05");
    let ctr = Ctr { cases: Default::default(), outcomes: Default::default() };
    let mut samples = vec![];

    // ---- A. QUIC datagram fragments: every (id in {0,1}, total, seq) header x payload length 0..2, short datagrams,
    //         and all sequences of <= 2 (thorough 3) datagrams over a reduced header alphabet, timer() interleaved
    {
        let lens: &[usize] = &[0, 1, 2];
        par_for(2 * 256, |i| {
            let id = (i / 256) as u8;
            let total = (i % 256) as u8;
            for seq in 0..=255u8 {
                for &l in lens {
                    let mut d = vec![0, id, total, seq];
                    d.extend(std::iter::repeat(0x52).take(l));
                    ctr.cases.fetch_add(1, Ordering::Relaxed);
                    let r = catch(|| {
                        let mut f: Fragments<Frame> = Fragments::new(Duration::from_secs(5));
                        let a = f.reassemble(Bytes::from(d.clone())).is_some();
                        f.timer();
                        // the same datagram again and its "sibling"
                        let b = f.reassemble(Bytes::from(d.clone())).is_some();
                        (a, b)
                    });
                    match r {
                        Ok(o) => ctr.outcomes.add(&("frag1", o)),
                        Err(p) => chk.violation(
                            "fragment.reassemble",
                            &format!("panic:{}", norm(&p)),
                            format!("datagram {} : {p}", hex(&d)),
                            json!({"datagrams": [hex(&d)]}),
                        ),
                    }
                }
            }
        });
        for short in [vec![], vec![0u8], vec![0, 1], vec![0, 1, 2]] {
            ctr.cases.fetch_add(1, Ordering::Relaxed);
            if let Err(p) = catch(|| Fragments::<Frame>::new(Duration::from_secs(5)).reassemble(Bytes::from(short.clone())).is_some()) {
                chk.violation("fragment.reassemble", &format!("panic:{}", norm(&p)), format!("datagram {} : {p}", hex(&short)), json!({"datagrams": [hex(&short)]}));
            }
        }
        let hb: [u8; 7] = [0, 1, 2, 127, 128, 129, 255];
        let mut heads: Vec<Vec<u8>> = vec![];
        for id in [0u8, 1] {
            for &t in &hb {
                for &s in &hb {
                    heads.push(vec![0, id, t, s, 0x52, 0x50]);
                }
            }
        }
        let depth = if chk.thorough() { 3 } else { 2 };
        let n = heads.len();
        let total = n.pow(depth as u32);
        par_for(total, |mut code| {
            let mut seq = vec![];
            for _ in 0..depth {
                seq.push(heads[code % n].clone());
                code /= n;
            }
            // twice: the partial frame of the first datagram has expired when the next one arrives (timer path), and it
            // is still being collected (the later header meets a queue sized by the earlier one)
            for expire in [true, false] {
                ctr.cases.fetch_add(1, Ordering::Relaxed);
                let r = catch(|| {
                    let mut f: Fragments<Frame> = Fragments::new(if expire { Duration::from_millis(0) } else { Duration::from_secs(3600) });
                    let mut outs = vec![];
                    for (i, d) in seq.iter().enumerate() {
                        outs.push(f.reassemble(Bytes::from(d.clone())).is_some());
                        if i == 0 {
                            f.timer();
                        }
                    }
                    outs
                });
                match r {
                    Ok(o) => ctr.outcomes.add(&("fragN", expire, o)),
                    Err(p) => chk.violation("fragment.reassemble", &format!("panic:{}", norm(&p)), format!("datagrams {:?} ({}) : {p}", seq.iter().map(|d| hex(d)).collect::<Vec<_>>(), if expire { "first one expired" } else { "first one still collected" }), json!({"datagrams": seq.iter().map(|d| hex(d)).collect::<Vec<_>>(), "first_expired": expire})),
                }
            }
        });
        samples.push(json!({"fragment_header": "00 01 80 81 + 1 byte", "sequences_over": "{0,1,2,127,128,129,255}^2 x id{0,1}"}));
    }

    // ---- B. RPFM frames: structured header/attribute grid through the real stream reader, Frame::from_buffer,
    //         every truncation; SOCKS UDP header grid through decode_socks_frame
    {
        let tags = [0u8, 1, 2, 3, 4, 255];
        let lenbytes = [0u8, 1, 2, 3, 4, 5, 6, 7, 8, 16, 17, 18, 19, 20, 254, 255];
        let mut inputs: Vec<Vec<u8>> = vec![];
        for attr_len in 0..=21usize {
            for &tag in &tags {
                for &lb in &lenbytes {
                    for body_len in [0usize, 2] {
                        for declared_attr in [attr_len as u16, attr_len as u16 + 1, 0, 65535] {
                            let mut v = b"RPFM".to_vec();
                            v.extend(7u32.to_be_bytes());
                            v.extend(declared_attr.to_be_bytes());
                            v.extend((body_len as u16).to_be_bytes());
                            let mut attr = vec![tag, lb];
                            attr.extend((0..attr_len.saturating_sub(2)).map(|i| 0x61 + (i as u8 % 26)));
                            attr.truncate(attr_len);
                            v.extend(attr);
                            v.extend(std::iter::repeat(0x42).take(body_len));
                            inputs.push(v);
                        }
                    }
                }
            }
        }
        // bad magic, all-zero, huge declared lengths with little data
        inputs.push(b"RPFN\0\0\0\0\0\0\0\0".to_vec());
        inputs.push(vec![0; 12]);
        inputs.push([&b"RPFM"[..], &[0, 0, 0, 0, 255, 255, 255, 255], &[1, 6, 1, 2, 3, 4, 0, 1]].concat());
        par_for(inputs.len(), |i| {
            let v = &inputs[i];
            try_decode(&chk, &ctr, Codec::Frames, v, "frames.stream_reader");
            // two copies back to back (the reader keeps a remainder buffer between frames)
            try_decode(&chk, &ctr, Codec::Frames, &[v.clone(), v.clone()].concat(), "frames.stream_reader");
            ctr.cases.fetch_add(1, Ordering::Relaxed);
            if let Err(p) = catch(|| Frame::from_buffer(Bytes::from(v.clone())).is_ok()) {
                chk.violation("frames.from_buffer", &format!("panic:{}", norm(&p)), format!("input {} : {p}", hex(v)), json!({"bytes": hex(v)}));
            }
            // through the fragment layer as a single-fragment datagram (what the QUIC datagram path does)
            let mut d = vec![0, 1, 1, 0];
            d.extend(v);
            ctr.cases.fetch_add(1, Ordering::Relaxed);
            if let Err(p) = catch(|| Fragments::<Frame>::new(Duration::from_secs(5)).reassemble(Bytes::from(d.clone())).is_some()) {
                chk.violation("fragment.reassemble", &format!("panic:{}", norm(&p)), format!("datagram {} : {p}", hex(&d)), json!({"datagrams": [hex(&d)]}));
            }
        });
        // truncation of a well-formed 2-frame stream at every offset, delivered bytewise too
        let good = messages().into_iter().find(|m| m.name == "3frames").unwrap().bytes;
        for cut in 0..=good.len() {
            try_decode(&chk, &ctr, Codec::Frames, &good[..cut], "frames.stream_reader");
        }
        // short host names: a legal frame whose address attribute is shorter than 8 bytes
        for host in ["", "a", "ab", "a.b", "abcd"] {
            let mut f = Frame::from_body(Bytes::from_static(b"x"));
            f.addr = Some(TargetAddress::DomainPort(host.to_string(), 53));
            let mut w = f.make_header().to_vec();
            w.extend_from_slice(&f.body);
            ctr.cases.fetch_add(1, Ordering::Relaxed);
            match decode(Codec::Frames, ChunkStream::new(vec![w.clone()])) {
                Err(p) => chk.violation("frames.stream_reader", &format!("panic:{}", norm(&p)), format!("a frame this proxy itself emits for host {host:?} crashes the reader: {p}"), json!({"bytes": hex(&w)})),
                Ok(_) => {}
            }
        }
        // SOCKS5 UDP request header
        let atyps = [0u8, 1, 3, 4, 5, 255];
        let mut n_socks = 0;
        for &atyp in &atyps {
            for total_len in 0..=26usize {
                for &lb in &[0u8, 1, 2, 5, 17, 18, 19, 20, 255] {
                    let mut v = vec![0, 0, 0, atyp, lb];
                    v.extend((0..32).map(|i| 0x80 + i as u8));
                    v.truncate(total_len);
                    n_socks += 1;
                    ctr.cases.fetch_add(1, Ordering::Relaxed);
                    match catch(|| decode_socks_frame(Frame::from_body(Bytes::from(v.clone()))).is_ok()) {
                        Ok(o) => ctr.outcomes.add(&("socksudp", o)),
                        Err(p) => chk.violation("socks.decode_socks_frame", &format!("panic:{}", norm(&p)), format!("datagram {} : {p}", hex(&v)), json!({"bytes": hex(&v)})),
                    }
                }
            }
        }
        samples.push(json!({"rpfm_grid": inputs.len(), "socks_udp_headers": n_socks, "example": hex(&inputs[inputs.len() / 2])}));
    }

    // ---- C. handshake decoders: all byte strings up to length L over a protocol alphabet; single-byte substitutions
    //         of every valid message
    {
        let l = if chk.thorough() { 6 } else { 5 };
        let http_alpha: Vec<u8> = b"CH /1:\r\n2a".iter().cloned().chain([0xff, 0x00]).collect();
        let socks_alpha: Vec<u8> = vec![0, 1, 2, 3, 4, 5, 6, 0x10, 0x5a, 0x80, 0xff, b'a'];
        let mut http_in: Vec<Vec<u8>> = vec![];
        strings_over(&http_alpha, l, |s| http_in.push(s.to_vec()));
        let mut socks_in: Vec<Vec<u8>> = vec![];
        strings_over(&socks_alpha, l, |s| socks_in.push(s.to_vec()));
        par_for(http_in.len(), |i| {
            // prefix that gets the decoder past the request/status line so the strings exercise header parsing too
            try_decode(&chk, &ctr, Codec::HttpReq, &http_in[i], "http.read_request");
            try_decode(&chk, &ctr, Codec::HttpResp, &http_in[i], "http.read_response");
            let mut v = b"CONNECT a:1 HTTP/1.1\r\n".to_vec();
            v.extend(&http_in[i]);
            try_decode(&chk, &ctr, Codec::HttpReq, &v, "http.read_request");
            let mut v = b"HTTP/1.1 200 OK\r\n".to_vec();
            v.extend(&http_in[i]);
            try_decode(&chk, &ctr, Codec::HttpResp, &v, "http.read_response");
        });
        par_for(socks_in.len(), |i| {
            for c in [Codec::SocksReqNoAuth, Codec::SocksReqPwRequired, Codec::SocksReqPwOptional] {
                try_decode(&chk, &ctr, c, &socks_in[i], "socks.read_request");
            }
            try_decode(&chk, &ctr, Codec::SocksResp, &socks_in[i], "socks.read_response");
        });
        let subs: [u8; 10] = [0, 1, 4, 5, 0x0a, 0x0d, b':', b' ', 0x80, 0xff];
        let msgs = messages();
        par_for(msgs.len(), |mi| {
            let m = &msgs[mi];
            if !m.trailing.is_empty() {
                return;
            }
            for pos in 0..m.bytes.len() {
                for &s in &subs {
                    let mut v = m.bytes.clone();
                    v[pos] = s;
                    try_decode(&chk, &ctr, m.codec, &v, "decoder.substitution");
                    // deletion and duplication of that byte
                }
                let mut v = m.bytes.clone();
                v.remove(pos);
                try_decode(&chk, &ctr, m.codec, &v, "decoder.substitution");
            }
        });
        samples.push(json!({"http_strings": http_in.len(), "socks_strings": socks_in.len(), "alphabet_http": "C H sp / 1 : CR LF 2 a 0xff 0x00"}));
    }

    // ---- D. handshake level: real h11c_handshake fed request heads, real h11c_connect fed upstream replies
    {
        let heads: Vec<&[u8]> = vec![
            b"CONNECT a:80 HTTP/1.1\r\n\r\n",
            b"CONNECT a:80 HTTP/1.1\r\nProxy-Protocol: udp\r\n\r\n",
            b"CONNECT a:80 HTTP/1.1\r\nProxy-Protocol: udp\r\nProxy-Channel: inline\r\n\r\n",
            b"CONNECT a:80 HTTP/1.1\r\nProxy-Protocol: udp\r\nProxy-Channel: quic-datagrams\r\n\r\n",
            b"CONNECT a:80 HTTP/1.1\r\nProxy-Protocol: udp\r\nProxy-Channel: \r\n\r\n",
            b"CONNECT a:80 HTTP/1.1\r\nProxy-Protocol: udp\r\nUdp-Bind-Source: x\r\n\r\n",
            b"CONNECT a:80 HTTP/1.1\r\nProxy-Protocol: xyz\r\n\r\n",
            b"CONNECT a:80 HTTP/1.1\r\nProxy-Protocol:\r\n\r\n",
            b"CONNECT a:80 HTTP/1.1\r\nX:\r\n\r\n",
            b"CONNECT a:80 HTTP/1.1\r\n:\r\n\r\n",
            b"CONNECT a:80 HTTP/1.1\r\n: \r\n\r\n",
            b"CONNECT a:80 HTTP/1.1\r\nX: \r\n\r\n",
            b"CONNECT a HTTP/1.1\r\n\r\n",
            b"CONNECT :80 HTTP/1.1\r\n\r\n",
            b"CONNECT a:99999 HTTP/1.1\r\n\r\n",
            b"CONNECT a:-1 HTTP/1.1\r\n\r\n",
            b"CONNECT [::1]:80 HTTP/1.1\r\n\r\n",
            b"CONNECT [::1:80 HTTP/1.1\r\n\r\n",
            b"CONNECT : HTTP/1.1\r\n\r\n",
            b"GET / HTTP/1.1\r\n\r\n",
            b"connect a:80 HTTP/9\r\n\r\n",
            b"CONNECT  a:80  HTTP/1.1\r\n\r\n",
            b"\r\n\r\n",
            b" \r\n",
            b"CONNECT a:80 HTTP/1.1\r\n\xff\xfe: x\r\n\r\n",
        ];
        let contexts: Arc<Contexts> = Default::default();
        for h in &heads {
            ctr.cases.fetch_add(1, Ordering::Relaxed);
            let r = catch(|| {
                let (tx, mut rx) = tokio::sync::mpsc::channel(4);
                let ctx = new_ctx(&contexts, ChunkStream::new(vec![h.to_vec()]));
                let res = run_ready(h11c_handshake(ctx, tx, |_, _| async { easy_error::bail!("not supported") }), 10_000);
                (res.map(|r| r.is_ok()), rx.try_recv().is_ok())
            });
            match r {
                Ok((Some(ok), queued)) => ctr.outcomes.add(&("h11c_handshake", ok, queued)),
                Ok((None, _)) => chk.violation("h11c.handshake", "hang", format!("handshake never returns on {}", String::from_utf8_lossy(h)), json!({"head": hex(h)})),
                Err(p) => chk.violation("h11c.handshake", &format!("panic:{}", norm(&p)), format!("head {:?}: {p}", String::from_utf8_lossy(h)), json!({"head": hex(h)})),
            }
        }
        let replies: Vec<Vec<u8>> = {
            let mut v: Vec<Vec<u8>> = vec![];
            for sid in ["", "0", "7", "4294967295", "4294967296", "-1", "abc", " ", "1 2", "0x10", "99999999999999999999"] {
                v.push(format!("HTTP/1.1 200 OK\r\nSession-Id: {}\r\n\r\n", sid).into_bytes());
            }
            v.push(b"HTTP/1.1 200 OK\r\n\r\n".to_vec());
            v.push(b"HTTP/1.1 200\r\n\r\n".to_vec());
            v.push(b"HTTP/1.1 99999 x\r\n\r\n".to_vec());
            v.push(b"HTTP/1.1 -1 x\r\n\r\n".to_vec());
            v.push(b"HTTP/1.1 403 Forbidden\r\nContent-Length: 1\r\n\r\nx".to_vec());
            v.push(b"HTTP/1.1 200 OK\r\nUdp-Bind-Address:\r\n\r\n".to_vec());
            v.push(b"HTTP/1.1 200 OK\r\nSession-Id:\r\n\r\n".to_vec());
            v.push(b"HTTP/1.1 200 OK\r\nSession-Id: \r\n\r\n".to_vec());
            v.push(b"HTTP/1.1 200 OK\r\n".to_vec());
            v.push(b"".to_vec());
            v.push(b"\0\0\0".to_vec());
            v
        };
        for feature in [Feature::TcpForward, Feature::UdpForward] {
            for channel in ["inline", "quic-datagrams"] {
                for rep in &replies {
                    ctr.cases.fetch_add(1, Ordering::Relaxed);
                    let r = catch(|| {
                        let ctx = new_ctx(&contexts, ChunkStream::new(vec![]));
                        run_ready(
                            async {
                                ctx.write().await.set_target(TargetAddress::DomainPort("t".into(), 53)).set_feature(feature);
                            },
                            100,
                        );
                        let server = make_buffered_stream(ChunkStream::new(vec![rep.clone()]));
                        let a: std::net::SocketAddr = "127.0.0.1:2".parse().unwrap();
                        run_ready(
                            h11c_connect(server, ctx, a, a, channel, |id| async move {
                                // harness frame endpoint for the non-inline channel
                                crate::common::frames::frames_from_stream(id, ChunkStream::new(vec![]))
                            }),
                            10_000,
                        )
                        .map(|r| r.is_ok())
                    });
                    match r {
                        Ok(Some(ok)) => ctr.outcomes.add(&("h11c_connect", ok, channel)),
                        Ok(None) => chk.violation("h11c.connect", "hang", format!("h11c_connect never returns on reply {:?}", String::from_utf8_lossy(rep)), json!({"reply": hex(rep)})),
                        Err(p) => chk.violation(
                            "h11c.connect",
                            &format!("panic:{}", norm(&p)),
                            format!("upstream reply {:?} (feature {:?}, channel {channel}): {p}", String::from_utf8_lossy(rep), feature),
                            json!({"reply": hex(rep), "feature": format!("{:?}", feature), "channel": channel}),
                        ),
                    }
                }
            }
        }
        samples.push(json!({"request_heads": heads.len(), "upstream_replies": replies.len(), "example_reply": "HTTP/1.1 200 OK\\r\\nSession-Id: 4294967296\\r\\n\\r\\n"}));
    }

    // ---- G. upstream SOCKS servers: every method-selection byte (offered or not), every sub-negotiation status and a
    //         grid of replies, against the connector's own call sequence (SocksRequest::write_to with
    //         PasswordAuth::optional(), then SocksResponse::read_from), with and without configured credentials
    {
        use crate::common::socks::{PasswordAuth, SocksRequest, SocksResponse};
        let tails: Vec<Vec<u8>> = vec![
            vec![],
            vec![1, 0],
            vec![1, 1],
            vec![5, 0, 0, 1, 1, 2, 3, 4, 0, 80],
            vec![1, 0, 5, 0, 0, 1, 1, 2, 3, 4, 0, 80],
            vec![1, 0, 5, 0, 0, 3, 255],
            vec![5, 0, 0, 4],
            vec![5, 9, 0, 9],
            vec![0xff; 20],
        ];
        let mut jobs: Vec<(u8, usize, bool, u8)> = vec![];
        for m in 0..=255u8 {
            for t in 0..tails.len() {
                for auth in [false, true] {
                    for ver in [5u8, 4u8] {
                        if ver == 4 && (m % 16 != 0 || t > 3) {
                            continue;
                        }
                        jobs.push((m, t, auth, ver));
                    }
                }
            }
        }
        let bad: std::sync::Mutex<Vec<(String, String, serde_json::Value)>> = Default::default();
        par_for(jobs.len(), |i| {
            let (m, t, auth, ver) = jobs[i];
            ctr.cases.fetch_add(1, Ordering::Relaxed);
            let mut reply = if ver == 5 { vec![5, m] } else { vec![0, m] };
            reply.extend(&tails[t]);
            let r = catch(|| {
                let fut = async {
                    let mut server = make_buffered_stream(ChunkStream::new(vec![reply.clone()]));
                    let req = SocksRequest {
                        version: ver,
                        cmd: 1,
                        target: TargetAddress::DomainPort("t".into(), 80),
                        auth: if auth { Some(("user".to_string(), "pass".to_string())) } else { None },
                    };
                    if req.write_to(&mut server, PasswordAuth::optional()).await.is_err() {
                        return "request-refused";
                    }
                    match SocksResponse::read_from(&mut server).await {
                        Ok(_) => "reply-read",
                        Err(_) => "reply-error",
                    }
                };
                run_ready(fut, 100_000)
            });
            match r {
                Ok(Some(o)) => ctr.outcomes.add(&("socks-upstream", ver, auth, o)),
                Ok(None) => bad.lock().unwrap().push(("hang".into(), format!("v{ver} upstream answers {} (credentials configured: {auth}): never returns", hex(&reply)), json!({"reply": hex(&reply), "auth": auth}))),
                Err(p) => bad.lock().unwrap().push((format!("panic:{}", norm(&p)), format!("v{ver} upstream answers {} (credentials configured: {auth}): {p}", hex(&reply)), json!({"reply": hex(&reply), "auth": auth, "version": ver}))),
            }
        });
        for (class, detail, replay) in bad.into_inner().unwrap() {
            chk.violation("socks.connector-handshake", &class, detail, replay);
        }
        samples.push(json!({"socks_upstream_replies": jobs.len()}));
    }

    // ---- F. fields that never end: every unbounded field of every stream decoder is fed a never-ending input;
    //         the decoder must give up after a bounded amount (1 MiB), long before memory runs out
    {
        const LIMIT: u64 = 1 << 20;
        let big: u64 = if chk.thorough() { 256 << 20 } else { 32 << 20 };
        let many: u64 = 6 << 20;
        let s4 = b"\x04\x01\x00\x50\x01\x02\x03\x04".to_vec();
        let s4a = b"\x04\x01\x00\x50\x00\x00\x00\x01id\x00".to_vec();
        let cases: Vec<(&str, Codec, Vec<u8>, Vec<u8>, u64)> = vec![
            ("http-request:request-line", Codec::HttpReq, vec![], b"A".to_vec(), big),
            ("http-request:request-line-after-method", Codec::HttpReq, b"CONNECT ".to_vec(), b"a".to_vec(), big),
            ("http-request:header-line", Codec::HttpReq, b"CONNECT a:1 HTTP/1.1\r\n".to_vec(), b"A".to_vec(), big),
            ("http-request:header-value", Codec::HttpReq, b"CONNECT a:1 HTTP/1.1\r\nX: ".to_vec(), b"v".to_vec(), big),
            ("http-request:header-count", Codec::HttpReq, b"CONNECT a:1 HTTP/1.1\r\n".to_vec(), b"X-Filler-Header-Name-000000000000: yyyyyyyyyyyyyyyyyyyyyyyyyyyyyyyyyyyyyyyy\r\n".to_vec(), many),
            ("http-response:status-line", Codec::HttpResp, vec![], b"A".to_vec(), big),
            ("http-response:header-line", Codec::HttpResp, b"HTTP/1.1 200 OK\r\n".to_vec(), b"A".to_vec(), big),
            ("http-response:header-count", Codec::HttpResp, b"HTTP/1.1 200 OK\r\n".to_vec(), b"X-Filler-Header-Name-000000000000: yyyyyyyyyyyyyyyyyyyyyyyyyyyyyyyyyyyyyyyy\r\n".to_vec(), many),
            ("socks4:userid", Codec::SocksReqNoAuth, s4.clone(), b"u".to_vec(), big),
            ("socks4a:domain", Codec::SocksReqNoAuth, s4a.clone(), b"d".to_vec(), big),
            ("socks4:userid(auth-optional)", Codec::SocksReqPwOptional, s4.clone(), b"u".to_vec(), big),
            // controls: these fields carry their own length and cannot grow
            ("socks5:request(control)", Codec::SocksReqNoAuth, b"\x05\x01\x00\x05\x01\x00\x03\xff".to_vec(), b"h".to_vec(), big),
            ("socks5:reply(control)", Codec::SocksResp, b"\x05\x00\x00\x03\xff".to_vec(), b"h".to_vec(), big),
            ("rpfm:frames(control)", Codec::Frames, vec![], b"RPFM\x00\x00\x00\x01\x00\x08\xff\xff\x01\x01\x02\x03\x04\x00\x50\x00".to_vec(), big),
        ];
        let results: Vec<std::sync::Mutex<Option<Result<u64, String>>>> = cases.iter().map(|_| std::sync::Mutex::new(None)).collect();
        par_for(cases.len(), |i| {
            let (_, codec, prefix, pattern, cap) = &cases[i];
            *results[i].lock().unwrap() = Some(decode_endless(*codec, prefix, pattern, *cap));
        });
        let mut table = vec![];
        for (i, (name, codec, prefix, _pattern, cap)) in cases.iter().enumerate() {
            ctr.cases.fetch_add(1, Ordering::Relaxed);
            let r = results[i].lock().unwrap().take().unwrap();
            match r {
                Ok(taken) => {
                    table.push(json!({"field": name, "bytes_taken_before_giving_up": taken}));
                    ctr.outcomes.add(&(*codec, name.to_string(), taken >= *cap));
                    if taken > LIMIT + prefix.len() as u64 + 65536 {
                        let what = if taken >= *cap { format!("still buffering after {} MiB (the harness stopped feeding it)", cap >> 20) } else { format!("took {} bytes", taken) };
                        chk.violation("decoder.unbounded-field", &format!("unbounded-buffering:{}", name), format!("{name}: fed a field that never ends, the decoder {what}; a peer can grow the proxy's memory until the process is killed"), json!({"field": name, "prefix": hex(prefix), "taken": taken}));
                    }
                }
                Err(p) => chk.violation("decoder.unbounded-field", &format!("panic:{}", norm(&p)), format!("{name}: {p}"), json!({"field": name})),
            }
        }
        samples.push(json!({"never_ending_fields": table}));
    }

    // ---- QUIC transport parameters chosen by the peer (real binary, real quinn peer): see c05q.rs
    {
        let (qcases, table) = super::c05q::quic_peer_params(&chk);
        ctr.cases.fetch_add(qcases, Ordering::Relaxed);
        for t in &table {
            ctr.outcomes.add(&("quic-params", t.split("->").last().unwrap_or("").to_string()));
        }
        samples.push(json!({"quic_peer_transport_parameters": table}));
    }

    let n = ctr.cases.load(Ordering::Relaxed);
    if chk.violation_count() == 0 && (n < 100_000 || ctr.outcomes.len() < 15) {
        machinery(format!("vacuous: cases={n} outcomes={}", ctr.outcomes.len()));
    }
    let coverage = json!({
        "exhaustive": true,
        "states": ctr.outcomes.len(), "transitions": n, "traces_validated_against_impl": n,
        "evaluations": n, "distinct_nontrivial": ctr.outcomes.len(),
        "rule": "inputs enumerated per decoder: every (id,total,seq) fragment header x 3 payload lengths + all sequences of 2 (thorough 3) datagrams over a 98-header alphabet; structured RPFM header/attribute grid (through the stream reader, from_buffer and the fragment layer) + every truncation; SOCKS-UDP header grid; all byte strings up to length 5 (thorough 6) over 12-symbol alphabets for the HTTP and SOCKS decoders (bare and behind a valid first line); every single-byte substitution/deletion of every valid message; h11c_handshake on 25 request heads; h11c_connect on 22 upstream replies x feature x channel; the SOCKS connector's handshake against every method-selection byte x 9 continuations x credentials configured or not (v5) and a v4 slice; 11 unbounded fields (+3 length-prefixed controls) fed a never-ending input: the decoder must give up within 1 MiB; QUIC transport parameters: a real quinn peer announcing max_datagram_frame_size in {1..14, 16, 20, 32, 100, 1200} (thorough 1..40 and more) as client of the quic listener and as upstream of the quic connector of the REAL binary, one UDP datagram each way: the process stays alive and serves. distinct = distinct (decoder, ok/err class) outcomes",
        "samples": samples,
    });
    chk.finish(
        "model_checking",
        coverage,
        vec![
            "a caught panic stands for a process abort (Cargo.toml: panic = 'abort' in both profiles); overflow checks are on as in the dev profile".into(),
            "process-level liveness (accept loops, fd exhaustion, stalls) is exercised by the real-socket checks (C14, and the E4 part of this property when built), not here".into(),
            "the TPROXY listener is out of reach; never-ending fields are cut off by the harness after 32 MiB (thorough 256 MiB)".into(),
        ],
    );
}
