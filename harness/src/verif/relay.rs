//! Shared E1 scenario: one (or two) HTTP-CONNECT clients through the real h11c_handshake, the real process_request,
//! an upstream leg spoken by the real codecs (direct / HTTP CONNECT via h11c_connect / SOCKS5 / SOCKS4 via
//! SocksRequest::write_to + SocksResponse::read_from), the real on_connect/on_error callbacks and the real copy_bidi
//! (buffered mode). All endpoints are ScriptedStreams driven by the explorer. Used by C01, C04 and C06.
use super::world::*;
use super::xsched::*;
use crate::common::h11c::{h11c_connect, h11c_handshake};
use crate::common::socks::{PasswordAuth, SocksRequest, SocksResponse, SOCKS_CMD_CONNECT, SOCKS_REPLY_OK};
use crate::config::IoParams;
use crate::connectors::Connector;
use crate::context::{make_buffered_stream, ContextRef, Feature};
use crate::GlobalState;
use async_trait::async_trait;
use easy_error::{bail, Error};
use std::collections::HashMap;
use std::sync::{Arc, Mutex};

#[derive(Clone, Copy, Debug, PartialEq, Eq, Hash)]
pub enum Up {
    Direct,
    Http,
    Socks5,
    Socks4,
}
pub const UPS: [Up; 4] = [Up::Direct, Up::Http, Up::Socks5, Up::Socks4];

/// how the upstream leg behaves
#[derive(Clone, Debug, PartialEq, Eq, Hash)]
pub enum UpMode {
    /// accepts; the origin behind it sends `o` (first element optionally glued to the upstream's own reply)
    Accept,
    /// TCP connect fails
    ConnectError,
    /// upstream proxy answers with a failure (HTTP 403 / SOCKS reply 5 / SOCKS4 91); Direct: same as ConnectError
    ProxySaysNo,
    /// upstream closes in the middle of its handshake
    ClosesMidHandshake,
}

#[derive(Clone, Debug)]
pub struct RelaySc {
    pub up: Up,
    pub mode: UpMode,
    /// what the client sends: request head (target a.b:80 unless overridden) + early payload glued to it
    pub head: Vec<u8>,
    pub early: Vec<u8>,
    /// later client messages (sent once the client has seen "200")
    pub c_msgs: Vec<Vec<u8>>,
    pub o_msgs: Vec<Vec<u8>>,
    /// glue the origin's first message to the upstream proxy's reply (same segment)
    pub glue: bool,
    pub client_eof: bool,
    pub origin_eof: bool,
    pub client_reset: bool,
    pub origin_reset: bool,
    pub segment: Vec<usize>,
    pub buffer_size: usize,
    pub client_window: Option<Vec<usize>>,
    pub origin_window: Option<Vec<usize>>,
    /// a last origin message that is only sent after the origin has seen the client's end-of-stream
    pub o_after_client_eof: Vec<u8>,
    /// a last client message that is only sent after the client has seen the origin's end-of-stream
    pub c_after_origin_eof: Vec<u8>,
    pub rules: &'static str,
    /// tag for the tunnel (endpoint names), so two tunnels can share a world
    pub tag: &'static str,
}

impl RelaySc {
    pub fn basic(up: Up) -> RelaySc {
        RelaySc {
            up,
            mode: UpMode::Accept,
            head: b"CONNECT a.b:80 HTTP/1.1\r\n\r\n".to_vec(),
            early: vec![],
            c_msgs: vec![],
            o_msgs: vec![],
            glue: false,
            client_eof: true,
            origin_eof: true,
            client_reset: false,
            origin_reset: false,
            segment: vec![],
            buffer_size: 8,
            client_window: None,
            origin_window: None,
            o_after_client_eof: vec![],
            c_after_origin_eof: vec![],
            rules: r#"[{"target":"up"}]"#,
            tag: "",
        }
    }
    /// bytes the upstream leg's handshake puts on the wire before any tunnel payload
    pub fn upstream_prefix(&self) -> Vec<u8> {
        match self.up {
            Up::Direct => vec![],
            Up::Http => b"CONNECT a.b:80 HTTP/1.1\r\nHost: a.b:80\r\n\r\n".to_vec(),
            Up::Socks5 => [&[5u8, 1, 0][..], &[5, 1, 0, 3, 3, b'a', b'.', b'b', 0, 80]].concat(),
            Up::Socks4 => [&[4u8, 1, 0, 80, 0, 0, 0, 1][..], &[0], b"a.b", &[0]].concat(),
        }
    }
    pub fn client_payload(&self) -> Vec<u8> {
        let mut v = self.early.clone();
        for m in &self.c_msgs {
            v.extend(m);
        }
        v.extend(&self.c_after_origin_eof);
        v
    }
    pub fn origin_payload(&self) -> Vec<u8> {
        let mut v = self.o_msgs.concat();
        v.extend(&self.o_after_client_eof);
        v
    }
}

pub const OK_HEAD: &[u8] = b"HTTP/1.1 200 Connection established\r\n\r\n";

/// connector that speaks the upstream leg's protocol over a scripted endpoint
pub struct ScriptedUpstream {
    pub up: Up,
    pub connect_error: bool,
    pub stream: Mutex<Option<ScriptedStream>>,
    pub features: Vec<Feature>,
    pub log: Log,
}

#[async_trait]
impl Connector for ScriptedUpstream {
    async fn connect(self: Arc<Self>, _state: Arc<GlobalState>, ctx: ContextRef) -> Result<(), Error> {
        self.log.lock().unwrap().push("connect:begin".into());
        if self.connect_error {
            bail!("connection refused (scripted)");
        }
        let stream = self.stream.lock().unwrap().take().expect("one connect per scenario");
        let a: std::net::SocketAddr = "127.0.0.9:9".parse().unwrap();
        let mut server = make_buffered_stream(stream);
        match self.up {
            Up::Direct => {
                ctx.write().await.set_server_stream(server).set_local_addr(a).set_server_addr(a);
            }
            Up::Http => {
                // exactly what HttpConnector::connect does after the TCP connect
                h11c_connect(server, ctx, a, a, "inline", |_| async { panic!("not supported") }).await?;
            }
            Up::Socks5 | Up::Socks4 => {
                // exactly what SocksConnector::connect does after the TCP connect
                let req = SocksRequest { version: if self.up == Up::Socks5 { 5 } else { 4 }, cmd: SOCKS_CMD_CONNECT, target: ctx.read().await.target(), auth: None };
                req.write_to(&mut server, PasswordAuth::optional()).await?;
                let resp = SocksResponse::read_from(&mut server).await?;
                if resp.cmd != SOCKS_REPLY_OK {
                    bail!("upstream server failure: {:?}", resp.cmd);
                }
                ctx.write().await.set_server_stream(server).set_local_addr(a).set_server_addr(a);
            }
        }
        self.log.lock().unwrap().push("connect:established".into());
        Ok(())
    }
    fn name(&self) -> &str {
        "up"
    }
    fn features(&self) -> &[Feature] {
        &self.features
    }
}

pub struct Tunnel {
    pub client: Ep,
    pub origin: Ep,
    pub ctx_props: Arc<Mutex<Option<Arc<crate::context::ContextProps>>>>,
    pub log: Log,
    pub handshake_err: Arc<Mutex<Option<String>>>,
}

/// adds one tunnel (client task) to the world
pub fn add_tunnel(w: &mut World, sc: &RelaySc) -> Tunnel {
    let log: Log = Default::default();
    // ---- upstream / origin endpoint script
    let mut inbound: Vec<Msg> = vec![];
    let mut o_msgs = sc.o_msgs.clone();
    let reply: Option<(Vec<u8>, Guard)> = match (sc.up, &sc.mode) {
        (Up::Direct, _) => None,
        (Up::Http, UpMode::Accept) => Some((b"HTTP/1.1 200 OK\r\n\r\n".to_vec(), Guard::TxContains(b"\r\n\r\n".to_vec()))),
        (Up::Http, UpMode::ProxySaysNo) => Some((b"HTTP/1.1 403 Forbidden\r\nContent-Length: 2\r\n\r\nno".to_vec(), Guard::TxContains(b"\r\n\r\n".to_vec()))),
        (Up::Socks5, UpMode::Accept) => Some((vec![5, 0, 0, 1, 0, 0, 0, 0, 0, 0], Guard::TxLen(13))),
        (Up::Socks5, UpMode::ProxySaysNo) => Some((vec![5, 5, 0, 1, 0, 0, 0, 0, 0, 0], Guard::TxLen(13))),
        (Up::Socks4, UpMode::Accept) => Some((vec![0, 90, 0, 0, 0, 0, 0, 0], Guard::TxLen(13))),
        (Up::Socks4, UpMode::ProxySaysNo) => Some((vec![0, 91, 0, 0, 0, 0, 0, 0], Guard::TxLen(13))),
        _ => None,
    };
    if sc.up == Up::Socks5 && sc.mode != UpMode::ConnectError {
        if sc.mode == UpMode::ClosesMidHandshake {
            inbound.push(Msg::after(&[5], Guard::TxLen(3)));
        } else {
            inbound.push(Msg::after(&[5, 0], Guard::TxLen(3)));
        }
    }
    if let Some((mut r, g)) = reply {
        if sc.glue && sc.mode == UpMode::Accept && !o_msgs.is_empty() {
            r.extend(o_msgs.remove(0));
        }
        inbound.push(Msg { bytes: r, guard: g });
    }
    let accept = sc.mode == UpMode::Accept;
    if accept {
        for m in &o_msgs {
            inbound.push(Msg::new(m));
        }
        if !sc.o_after_client_eof.is_empty() {
            inbound.push(Msg::after(&sc.o_after_client_eof, Guard::Shutdown));
        }
    }
    let origin_script = EpScript {
        inbound,
        eof: if accept { sc.origin_eof } else { true },
        eof_guard: if sc.mode == UpMode::ClosesMidHandshake && sc.up != Up::Direct { Some(Guard::TxLen(1)) } else { None },
        allow_reset: sc.origin_reset,
        segment_sizes: sc.segment.clone(),
        write_window: sc.origin_window.clone(),
        ..Default::default()
    };
    let (ostream, origin) = w.endpoint(&format!("origin{}", sc.tag), origin_script);
    // ---- client endpoint script
    let mut cin: Vec<Msg> = vec![Msg::new(&[&sc.head[..], &sc.early[..]].concat())];
    for m in &sc.c_msgs {
        cin.push(Msg::after(m, Guard::TxContains(b"200 Connection".to_vec())));
    }
    if !sc.c_after_origin_eof.is_empty() {
        cin.push(Msg::after(&sc.c_after_origin_eof, Guard::Shutdown));
    }
    let client_script = EpScript {
        inbound: cin,
        eof: sc.client_eof,
        eof_guard: if sc.c_msgs.is_empty() && accept { Some(Guard::TxContains(b" ".to_vec())) } else { None },
        allow_reset: sc.client_reset,
        segment_sizes: sc.segment.clone(),
        write_window: sc.client_window.clone(),
        ..Default::default()
    };
    let (cstream, client) = w.endpoint(&format!("client{}", sc.tag), client_script);
    // ---- state
    let upc = Arc::new(ScriptedUpstream {
        up: sc.up,
        connect_error: sc.mode == UpMode::ConnectError || (sc.up == Up::Direct && sc.mode != UpMode::Accept),
        stream: Mutex::new(Some(ostream)),
        features: vec![Feature::TcpForward],
        log: log.clone(),
    });
    let mut map: HashMap<String, Arc<dyn Connector>> = HashMap::new();
    map.insert("up".into(), upc);
    let state = Arc::new(GlobalState {
        rules: Default::default(),
        listeners: Default::default(),
        connectors: map,
        contexts: Default::default(),
        timeouts: Default::default(),
        #[cfg(feature = "metrics")]
        metrics: None,
        io_params: IoParams { buffer_size: sc.buffer_size, use_splice: false },
    });
    super::common::run_ready(state.set_rules(parse_rules(sc.rules).unwrap()), 100).expect("set_rules").expect("rules");
    let ctx_props: Arc<Mutex<Option<Arc<crate::context::ContextProps>>>> = Default::default();
    let handshake_err: Arc<Mutex<Option<String>>> = Default::default();
    {
        let (st, cp, he) = (state.clone(), ctx_props.clone(), handshake_err.clone());
        let src: std::net::SocketAddr = "10.1.1.1:1111".parse().unwrap();
        w.task(&format!("proxy{}", sc.tag), async move {
            let ctx = st.contexts.create_context("http".into(), src).await;
            ctx.write().await.set_client_stream(make_buffered_stream(cstream));
            let (tx, mut rx) = tokio::sync::mpsc::channel(4);
            match h11c_handshake(ctx.clone(), tx, |_, _| async { bail!("not supported") }).await {
                Ok(()) => {
                    let c2 = rx.recv().await.unwrap();
                    crate::process_request(c2, st.clone()).await;
                }
                Err(e) => *he.lock().unwrap() = Some(e.to_string()),
            }
            *cp.lock().unwrap() = Some(ctx.read().await.props().clone());
            // the listener task ends here: the connection (and its sockets) is dropped
        });
    }
    Tunnel { client, origin, ctx_props, log, handshake_err }
}

pub fn state_names(p: &crate::context::ContextProps) -> Vec<String> {
    p.state.iter().map(|s| format!("{:?}", s)).map(|s| s.split("state: ").nth(1).unwrap_or("").split(',').next().unwrap_or("").to_string()).collect()
}
