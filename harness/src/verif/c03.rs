//! C03 — destination integrity through every protocol re-encoding.
//! Engine E2: a destination grid (host lengths x hostile bytes x positions, IPv4/IPv6, ports) is pushed through every
//! real inbound decoder (what the rules see) and every real outbound encoder; the emitted bytes are parsed by an
//! independent strict reference decoder and by the repository's own decoder for that protocol (the next hop).
//! Oracle: refused, or exactly the same destination with no byte spilled. Because the proxy hands a TargetAddress
//! from the inbound to the outbound side, checking every inbound codec and every outbound codec over the union of
//! reachable TargetAddress values covers every (inbound, outbound) pair.
use super::common::*;
use super::io::*;
use crate::common::frames::Frame;
use crate::common::h11c::{h11c_connect, h11c_handshake};
use crate::common::socks::frames::{decode_socks_frame, encode_socks_frame};
use crate::common::socks::{NoAuth, PasswordAuth, SocksRequest};
use crate::context::{make_buffered_stream, ContextRef, Feature, GlobalState as Contexts, TargetAddress};
use bytes::Bytes;
use serde_json::json;
use std::collections::BTreeSet;
use std::net::{IpAddr, SocketAddr};
use std::sync::atomic::{AtomicU64, Ordering};
use std::sync::Arc;
use tokio::io::{AsyncReadExt, BufReader};

/// destination as a client expresses it
#[derive(Clone, Debug, PartialEq, Eq, PartialOrd, Ord, Hash)]
pub enum Dest {
    Host(Vec<u8>, u16),
    Ip(SocketAddr),
}

fn dest_of(t: &TargetAddress) -> Option<Dest> {
    match t {
        TargetAddress::DomainPort(h, p) => Some(Dest::Host(h.as_bytes().to_vec(), *p)),
        TargetAddress::SocketAddr(a) => Some(Dest::Ip(*a)),
        TargetAddress::Unknown => None,
    }
}

/// equality up to "a host string that is an IP literal (optionally bracketed) is that address"
fn same_dest(a: &Dest, b: &Dest) -> bool {
    fn canon(d: &Dest) -> Dest {
        if let Dest::Host(h, p) = d {
            if let Ok(s) = std::str::from_utf8(h) {
                let s2 = s.trim_start_matches('[').trim_end_matches(']');
                if let Ok(ip) = s2.parse::<IpAddr>() {
                    if s == s2 || (s.starts_with('[') && s.ends_with(']') && ip.is_ipv6()) {
                        return Dest::Ip(SocketAddr::new(ip, *p));
                    }
                }
            }
        }
        d.clone()
    }
    // an IPv4-mapped IPv6 address IS that IPv4 destination (it can only be connected to over IPv4): the two
    // spellings are one destination, not a reinterpretation
    fn unmap(d: Dest) -> Dest {
        match d {
            Dest::Ip(SocketAddr::V6(a)) => match a.ip().to_ipv4_mapped() {
                Some(v4) => Dest::Ip(SocketAddr::new(IpAddr::V4(v4), a.port())),
                None => Dest::Ip(SocketAddr::V6(a)),
            },
            other => other,
        }
    }
    unmap(canon(a)) == unmap(canon(b))
}

fn show(d: &Dest) -> String {
    match d {
        Dest::Host(h, p) => {
            let s: String = h.iter().map(|&b| if (0x21..0x7f).contains(&b) && b != b'\\' { (b as char).to_string() } else { format!("\\x{:02x}", b) }).collect();
            if s.len() > 60 {
                format!("host[{} bytes]{}…:{}", h.len(), &s[..40.min(s.len())], p)
            } else {
                format!("{}:{}", s, p)
            }
        }
        Dest::Ip(a) => a.to_string(),
    }
}

/// compact class for violation signatures: the hostile byte kind if any, otherwise the length class
fn host_class(d: &Dest) -> String {
    let full = host_class_full(d);
    match full.split_once('/') {
        // over-long names are their own class whatever they contain
        Some((l @ ("len254-255" | "len>255"), _)) => l.to_string(),
        Some((l, "plain")) => l.to_string(),
        Some((_, k)) => k.to_string(),
        None => full,
    }
}

fn host_class_full(d: &Dest) -> String {
    match d {
        Dest::Ip(a) => if a.is_ipv4() { "ipv4".into() } else { "ipv6".into() },
        Dest::Host(h, _) => {
            let lenc = match h.len() {
                0 => "len0",
                1..=3 => "len1-3",
                4..=253 => "len4-253",
                254..=255 => "len254-255",
                _ => "len>255",
            };
            let kind = if h.contains(&b'\r') || h.contains(&b'\n') {
                "crlf"
            } else if h.contains(&b' ') || h.contains(&b'\t') {
                "space"
            } else if h.contains(&0) {
                "nul"
            } else if h.iter().any(|&b| b < 0x20 || b == 0x7f) {
                "control"
            } else if std::str::from_utf8(h).is_err() {
                "non-utf8"
            } else if h.iter().any(|&b| b >= 0x80) {
                "utf8-multibyte"
            } else {
                "plain"
            };
            format!("{}/{}", lenc, kind)
        }
    }
}

pub fn dest_grid(thorough: bool) -> Vec<Dest> {
    let mut out: BTreeSet<Dest> = BTreeSet::new();
    let lens: Vec<usize> = if thorough { vec![0, 1, 2, 3, 4, 5, 63, 64, 252, 253, 254, 255, 256, 257, 300, 1000] } else { vec![0, 1, 3, 4, 64, 253, 254, 255, 256, 300, 1000] };
    let hostile: Vec<(&str, Vec<u8>)> = vec![
        ("none", vec![]),
        ("space", vec![b' ']),
        ("cr", vec![b'\r']),
        ("lf", vec![b'\n']),
        ("crlf-header", b"\r\nX-Injected: y".to_vec()),
        ("nul", vec![0]),
        ("colon", vec![b':']),
        ("bracket", b"[".to_vec()),
        ("at", vec![b'@']),
        ("percent", b"%00".to_vec()),
        ("del", vec![0x7f]),
        ("tab", vec![b'\t']),
        ("hi-non-utf8", vec![0xff]),
        ("utf8", "é".as_bytes().to_vec()),
    ];
    let ports: Vec<u16> = if thorough { vec![0, 1, 80, 255, 256, 65535] } else { vec![0, 80, 65535] };
    for &l in &lens {
        for (_, hb) in &hostile {
            for pos in 0..3 {
                if hb.is_empty() && pos > 0 {
                    continue;
                }
                if l < hb.len() {
                    continue;
                }
                let fill = l - hb.len();
                let mut h: Vec<u8> = vec![];
                let before = match pos {
                    0 => 0,
                    1 => fill / 2,
                    _ => fill,
                };
                h.extend((0..before).map(|i| b'a' + (i % 26) as u8));
                h.extend(hb);
                h.extend((before..fill).map(|i| b'a' + (i % 26) as u8));
                // keep names dotted so they look like host names
                if h.len() > 8 && hb.is_empty() {
                    h[4] = b'.';
                }
                let pl: &[u16] = if hb.is_empty() || l <= 4 { &ports } else { &ports[..1.max(ports.len() - 2)] };
                for &p in pl {
                    out.insert(Dest::Host(h.clone(), p));
                }
            }
        }
    }
    for ip in ["0.0.0.0", "0.0.0.1", "0.0.1.0", "1.2.3.4", "255.255.255.255", "::", "::1", "::ffff:1.2.3.4", "2001:db8::1", "ffff:ffff:ffff:ffff:ffff:ffff:ffff:ffff"] {
        for &p in &ports {
            out.insert(Dest::Ip(SocketAddr::new(ip.parse().unwrap(), p)));
        }
    }
    // IPv6 addresses with a zone (scope id): only text protocols can carry one; every other encoder has to refuse it
    for (ip, scope) in [("fe80::1", 5u32), ("fe80::1", 1), ("ff02::1", 2), ("::1", 7)] {
        for &p in &ports[..2.min(ports.len())] {
            out.insert(Dest::Ip(SocketAddr::V6(std::net::SocketAddrV6::new(ip.parse().unwrap(), p, 0, scope))));
        }
    }
    // IP literals written as host names
    for h in ["1.2.3.4", "::1", "[::1]", "01.2.3.4", "1.2.3.4.", "0x7f.1"] {
        out.insert(Dest::Host(h.as_bytes().to_vec(), 80));
    }
    out.into_iter().collect()
}

// ------------------------------------------------------------------ inbound side

#[derive(Clone, Copy, Debug, PartialEq, Eq, Hash, PartialOrd, Ord)]
pub enum Inb {
    HttpConnect,
    Socks4,
    Socks4a,
    Socks5,
    SocksUdp,
    Rpfm,
}
const INBOUND: [Inb; 6] = [Inb::HttpConnect, Inb::Socks4, Inb::Socks4a, Inb::Socks5, Inb::SocksUdp, Inb::Rpfm];

/// wire bytes by which a client expresses `d` in protocol `inb` (None: the protocol cannot carry it)
fn inbound_wire(inb: Inb, d: &Dest) -> Option<Vec<u8>> {
    // a zone travels in text only: the binary address fields have no room for it, a client cannot ask for it there
    if let Dest::Ip(SocketAddr::V6(a)) = d {
        if a.scope_id() != 0 && inb != Inb::HttpConnect {
            return None;
        }
    }
    match (inb, d) {
        (Inb::HttpConnect, Dest::Host(h, p)) => {
            // whitespace and line breaks are delimiters of the request line: such a host cannot be expressed
            if h.iter().any(|&b| b == b' ' || b == b'\t' || b == b'\r' || b == b'\n' || b == 0x0b || b == 0x0c) {
                return None;
            }
            let mut v = b"CONNECT ".to_vec();
            v.extend(h);
            v.extend(format!(":{} HTTP/1.1\r\n\r\n", p).bytes());
            Some(v)
        }
        (Inb::HttpConnect, Dest::Ip(a)) => Some(format!("CONNECT {} HTTP/1.1\r\nHost: {}\r\n\r\n", a, a).into_bytes()),
        (Inb::Socks4, Dest::Ip(SocketAddr::V4(a))) => {
            if u32::from(*a.ip()) < 0x100 {
                return None; // 0.0.0.x is the 4a marker
            }
            let mut v = vec![4, 1];
            v.extend(a.port().to_be_bytes());
            v.extend(a.ip().octets());
            v.extend(b"id\0");
            Some(v)
        }
        (Inb::Socks4a, Dest::Host(h, p)) => {
            if h.contains(&0) {
                return None;
            }
            let mut v = vec![4, 1];
            v.extend(p.to_be_bytes());
            v.extend([0, 0, 0, 7]);
            v.extend(b"id\0");
            v.extend(h);
            v.push(0);
            Some(v)
        }
        (Inb::Socks5, d) => {
            let mut v = vec![5, 1, 0, 5, 1, 0];
            socks5_addr(&mut v, d)?;
            Some(v)
        }
        (Inb::SocksUdp, d) => {
            let mut v = vec![0, 0, 0];
            socks5_addr(&mut v, d)?;
            Some(v)
        }
        (Inb::Rpfm, d) => {
            let mut attr = vec![];
            match d {
                Dest::Host(h, p) => {
                    if h.len() + 2 > 255 {
                        return None;
                    }
                    attr.push(3);
                    attr.push((h.len() + 2) as u8);
                    attr.extend(h);
                    attr.extend(p.to_be_bytes());
                }
                Dest::Ip(SocketAddr::V4(a)) => {
                    attr.extend([1, 6]);
                    attr.extend(a.ip().octets());
                    attr.extend(a.port().to_be_bytes());
                }
                Dest::Ip(SocketAddr::V6(a)) => {
                    attr.extend([2, 18]);
                    attr.extend(a.ip().octets());
                    attr.extend(a.port().to_be_bytes());
                }
            }
            let mut v = b"RPFM".to_vec();
            v.extend(9u32.to_be_bytes());
            v.extend((attr.len() as u16).to_be_bytes());
            v.extend(3u16.to_be_bytes());
            v.extend(attr);
            Some(v)
        }
        _ => None,
    }
}

fn socks5_addr(v: &mut Vec<u8>, d: &Dest) -> Option<()> {
    match d {
        Dest::Host(h, p) => {
            if h.len() > 255 {
                return None;
            }
            v.push(3);
            v.push(h.len() as u8);
            v.extend(h);
            v.extend(p.to_be_bytes());
        }
        Dest::Ip(SocketAddr::V4(a)) => {
            v.push(1);
            v.extend(a.ip().octets());
            v.extend(a.port().to_be_bytes());
        }
        Dest::Ip(SocketAddr::V6(a)) => {
            v.push(4);
            v.extend(a.ip().octets());
            v.extend(a.port().to_be_bytes());
        }
    }
    Some(())
}

const PAY: &[u8] = b"PAY";

fn new_ctx(_shared: &Arc<Contexts>, client: ChunkStream) -> ContextRef {
    // a private registry per context: the sequential executor used here cannot wait for another thread's lock
    let contexts: Arc<Contexts> = Default::default();
    let ctx = run_ready(contexts.create_context("l".to_string(), "127.0.0.1:1".parse().unwrap()), 1000).expect("create_context");
    run_ready(
        async {
            ctx.write().await.set_client_stream(make_buffered_stream(client));
        },
        1000,
    )
    .expect("set stream");
    ctx
}

/// run the real inbound decoder: Ok(Some((target, leftover))) accepted, Ok(None) refused, Err(panic)
fn inbound_decode(contexts: &Arc<Contexts>, inb: Inb, wire: &[u8]) -> Result<Option<(TargetAddress, Vec<u8>)>, String> {
    let mut data = wire.to_vec();
    data.extend(PAY);
    catch(|| match inb {
        Inb::HttpConnect => {
            let (tx, _rx) = tokio::sync::mpsc::channel(4);
            let ctx = new_ctx(contexts, ChunkStream::new(vec![data.clone()]));
            let r = run_ready(h11c_handshake(ctx.clone(), tx, |_, _| async { easy_error::bail!("no") }), 100_000).expect("handshake terminates");
            if r.is_err() {
                return None;
            }
            run_ready(
                async {
                    let mut g = ctx.write().await;
                    let t = g.target();
                    let mut s = g.take_client_stream();
                    let mut rest = vec![];
                    let _ = s.read_to_end(&mut rest).await;
                    Some((t, rest))
                },
                100_000,
            )
            .expect("terminates")
        }
        Inb::Socks4 | Inb::Socks4a | Inb::Socks5 => run_ready(
            async {
                let mut r = BufReader::new(ChunkStream::new(vec![data.clone()]));
                match SocksRequest::read_from(&mut r, NoAuth).await {
                    Err(_) => None,
                    Ok(req) => {
                        let mut rest = vec![];
                        let _ = r.read_to_end(&mut rest).await;
                        Some((req.target, rest))
                    }
                }
            },
            100_000,
        )
        .expect("terminates"),
        Inb::SocksUdp => decode_socks_frame(Frame::from_body(Bytes::from(data.clone()))).ok().map(|f| (f.addr.clone().unwrap_or(TargetAddress::Unknown), f.body.to_vec())),
        Inb::Rpfm => Frame::from_buffer(Bytes::from(data.clone())).ok().map(|f| (f.addr.clone().unwrap_or(TargetAddress::Unknown), f.body.to_vec())),
    })
}

// ------------------------------------------------------------------ outbound side

#[derive(Clone, Copy, Debug, PartialEq, Eq, Hash)]
pub enum Outb {
    HttpConnect,
    Socks4,
    Socks5,
    Rpfm,
    SocksUdp,
}
const OUTBOUND: [Outb; 5] = [Outb::HttpConnect, Outb::Socks4, Outb::Socks5, Outb::Rpfm, Outb::SocksUdp];

/// Ok(None) = encoder refused; Ok(Some(bytes)) = what went on the wire towards the next hop
fn outbound_encode(contexts: &Arc<Contexts>, outb: Outb, t: &TargetAddress) -> Result<Option<Vec<u8>>, String> {
    catch(|| match outb {
        Outb::HttpConnect => {
            let ctx = new_ctx(contexts, ChunkStream::new(vec![]));
            run_ready(
                async {
                    ctx.write().await.set_target(t.clone()).set_feature(Feature::TcpForward);
                },
                100,
            );
            let server = ChunkStream::new(vec![b"HTTP/1.1 200 OK\r\n\r\n".to_vec()]);
            let written = server.written.clone();
            let a: SocketAddr = "127.0.0.1:2".parse().unwrap();
            let r = run_ready(h11c_connect(make_buffered_stream(server), ctx, a, a, "inline", |id| async move { crate::common::frames::frames_from_stream(id, ChunkStream::new(vec![])) }), 100_000).expect("terminates");
            let w = written.lock().unwrap().clone();
            if r.is_err() && w.is_empty() {
                None
            } else {
                Some(w)
            }
        }
        Outb::Socks4 | Outb::Socks5 => {
            let version = if outb == Outb::Socks4 { 4 } else { 5 };
            let server = ChunkStream::new(vec![vec![5, 0]]);
            let written = server.written.clone();
            let req = SocksRequest { version, cmd: 1, target: t.clone(), auth: None };
            let r = run_ready(
                async {
                    let mut s = BufReader::new(server);
                    req.write_to(&mut s, PasswordAuth::optional()).await
                },
                100_000,
            )
            .expect("terminates");
            let w = written.lock().unwrap().clone();
            if r.is_err() {
                // a refusal must not leave a partial request on the wire that a server could act upon; the greeting alone is harmless
                None
            } else {
                Some(w)
            }
        }
        Outb::Rpfm => {
            let mut f = Frame::from_body(Bytes::from_static(PAY));
            f.addr = Some(t.clone());
            f.session_id = 9;
            let sink = ChunkStream::new(vec![]);
            let written = sink.written.clone();
            // through the real stream frame writer (what the http/quic connector and listener use for inline UDP)
            let (_r, mut w) = crate::common::frames::frames_from_stream(9, sink);
            let r = run_ready(async { w.write(f).await }, 100_000).expect("terminates");
            if r.is_err() {
                None
            } else {
                Some(written.lock().unwrap().clone())
            }
        }
        Outb::SocksUdp => {
            let mut f = Frame::from_body(Bytes::from_static(PAY));
            f.addr = Some(t.clone());
            encode_socks_frame(f).ok().map(|b| b.to_vec())
        }
    })
}

/// strict, independent reference decoders of what the next hop would read: Some((dest, leftover)) or None (malformed)
fn ref_decode(outb: Outb, w: &[u8]) -> Option<(Dest, Vec<u8>)> {
    fn socks5_addr(w: &[u8]) -> Option<(Dest, &[u8])> {
        match *w.first()? {
            1 => {
                if w.len() < 7 {
                    return None;
                }
                let ip = std::net::Ipv4Addr::new(w[1], w[2], w[3], w[4]);
                Some((Dest::Ip(SocketAddr::new(ip.into(), u16::from_be_bytes([w[5], w[6]]))), &w[7..]))
            }
            4 => {
                if w.len() < 19 {
                    return None;
                }
                let mut o = [0u8; 16];
                o.copy_from_slice(&w[1..17]);
                Some((Dest::Ip(SocketAddr::new(std::net::Ipv6Addr::from(o).into(), u16::from_be_bytes([w[17], w[18]]))), &w[19..]))
            }
            3 => {
                let l = *w.get(1)? as usize;
                if w.len() < 2 + l + 2 {
                    return None;
                }
                Some((Dest::Host(w[2..2 + l].to_vec(), u16::from_be_bytes([w[2 + l], w[3 + l]])), &w[4 + l..]))
            }
            _ => None,
        }
    }
    match outb {
        Outb::HttpConnect => {
            // request-line = method SP request-target SP HTTP-version CRLF ; then header fields ; CRLF
            let end = w.windows(4).position(|x| x == b"\r\n\r\n")?;
            let head = &w[..end];
            let rest = &w[end + 4..];
            let mut lines = head.split(|&b| b == b'\n');
            let line = lines.next()?;
            let line = line.strip_suffix(b"\r")?;
            if line.iter().any(|&b| b < 0x20 || b == 0x7f) {
                return None;
            }
            let parts: Vec<&[u8]> = line.split(|&b| b == b' ').collect();
            if parts.len() != 3 || parts[0] != b"CONNECT" || !parts[2].starts_with(b"HTTP/") {
                return None;
            }
            // every header line must be `name: value` without control characters
            for l in lines {
                let l = l.strip_suffix(b"\r").unwrap_or(l);
                if l.is_empty() || !l.windows(2).any(|x| x == b": ") || l.iter().any(|&b| b < 0x20 || b == 0x7f) {
                    return None;
                }
                if !(l.starts_with(b"Host: ") || l.starts_with(b"Proxy-")) {
                    return None; // a header the proxy never sends: injected
                }
            }
            let target = parts[1];
            if let Ok(s) = std::str::from_utf8(target) {
                if let Ok(a) = s.parse::<SocketAddr>() {
                    return Some((Dest::Ip(a), rest.to_vec()));
                }
            }
            let colon = target.iter().rposition(|&b| b == b':')?;
            let port: u16 = std::str::from_utf8(&target[colon + 1..]).ok()?.parse().ok()?;
            // authority = reg-name ":" port | "[" IPv6 "]" ":" port. A reg-name with ':' or brackets in it has no
            // single reading (first colon or last? literal or name?): next hops split it differently
            if target[..colon].iter().any(|&b| b == b':' || b == b'[' || b == b']') {
                return None;
            }
            Some((Dest::Host(target[..colon].to_vec(), port), rest.to_vec()))
        }
        Outb::Socks5 => {
            // greeting 05 n methods ; request 05 cmd 00 atyp addr port
            if w.len() < 3 || w[0] != 5 {
                return None;
            }
            let n = w[1] as usize;
            let w = w.get(2 + n..)?;
            if w.len() < 4 || w[0] != 5 || w[1] != 1 || w[2] != 0 {
                return None;
            }
            let (d, rest) = socks5_addr(&w[3..])?;
            Some((d, rest.to_vec()))
        }
        Outb::Socks4 => {
            if w.len() < 9 || w[0] != 4 || w[1] != 1 {
                return None;
            }
            let port = u16::from_be_bytes([w[2], w[3]]);
            let ip = [w[4], w[5], w[6], w[7]];
            let rest = &w[8..];
            let z = rest.iter().position(|&b| b == 0)?;
            let rest = &rest[z + 1..];
            if ip[0] == 0 && ip[1] == 0 && ip[2] == 0 && ip[3] != 0 {
                let z = rest.iter().position(|&b| b == 0)?;
                Some((Dest::Host(rest[..z].to_vec(), port), rest[z + 1..].to_vec()))
            } else {
                Some((Dest::Ip(SocketAddr::new(std::net::Ipv4Addr::from(ip).into(), port)), rest.to_vec()))
            }
        }
        Outb::Rpfm => {
            if w.len() < 12 || &w[..4] != b"RPFM" {
                return None;
            }
            let al = u16::from_be_bytes([w[8], w[9]]) as usize;
            let bl = u16::from_be_bytes([w[10], w[11]]) as usize;
            if w.len() < 12 + al + bl {
                return None;
            }
            let attr = &w[12..12 + al];
            let body = &w[12 + al..12 + al + bl];
            let extra = &w[12 + al + bl..];
            if body != PAY || !extra.is_empty() || attr.len() < 2 || attr.len() != 2 + attr[1] as usize {
                return None;
            }
            let v = &attr[2..];
            let d = match attr[0] {
                1 if v.len() == 6 => Dest::Ip(SocketAddr::new(std::net::Ipv4Addr::new(v[0], v[1], v[2], v[3]).into(), u16::from_be_bytes([v[4], v[5]]))),
                2 if v.len() == 18 => {
                    let mut o = [0u8; 16];
                    o.copy_from_slice(&v[..16]);
                    Dest::Ip(SocketAddr::new(std::net::Ipv6Addr::from(o).into(), u16::from_be_bytes([v[16], v[17]])))
                }
                3 if v.len() >= 2 => Dest::Host(v[..v.len() - 2].to_vec(), u16::from_be_bytes([v[v.len() - 2], v[v.len() - 1]])),
                _ => return None,
            };
            Some((d, vec![]))
        }
        Outb::SocksUdp => {
            if w.len() < 4 || w[2] != 0 {
                return None;
            }
            let (d, rest) = socks5_addr(&w[3..])?;
            if rest != PAY {
                return None;
            }
            Some((d, vec![]))
        }
    }
}

/// the repository's own decoder for the same protocol (the next hop being another redproxy)
fn own_decode(contexts: &Arc<Contexts>, outb: Outb, w: &[u8]) -> Result<Option<(TargetAddress, Vec<u8>)>, String> {
    let inb = match outb {
        Outb::HttpConnect => Inb::HttpConnect,
        Outb::Socks4 => Inb::Socks4,
        Outb::Socks5 => Inb::Socks5,
        Outb::Rpfm => Inb::Rpfm,
        Outb::SocksUdp => Inb::SocksUdp,
    };
    // inbound_decode appends PAY as tunnel payload for stream protocols; for the datagram forms PAY is already the body
    match inb {
        Inb::Rpfm | Inb::SocksUdp => catch(|| match inb {
            Inb::Rpfm => Frame::from_buffer(Bytes::from(w.to_vec())).ok().map(|f| (f.addr.clone().unwrap_or(TargetAddress::Unknown), f.body.to_vec())),
            _ => decode_socks_frame(Frame::from_body(Bytes::from(w.to_vec()))).ok().map(|f| (f.addr.clone().unwrap_or(TargetAddress::Unknown), f.body.to_vec())),
        }),
        _ => inbound_decode(contexts, inb, w),
    }
}

#[test]
fn check() {
    let chk = Check::new("C03");
    let grid = dest_grid(chk.thorough());
    let contexts: Arc<Contexts> = Default::default();
    let cases = AtomicU64::new(0);
    let refused = AtomicU64::new(0);
    let outcomes = Distinct::default();
    let reachable: std::sync::Mutex<BTreeSet<(Dest, String)>> = Default::default();

    // ---- part A: inbound fidelity
    par_for(grid.len() * INBOUND.len(), |i| {
        let d = &grid[i / INBOUND.len()];
        let inb = INBOUND[i % INBOUND.len()];
        let wire = match inbound_wire(inb, d) {
            Some(w) => w,
            None => return,
        };
        cases.fetch_add(1, Ordering::Relaxed);
        let replay = json!({"direction": "inbound", "codec": format!("{:?}", inb), "destination": show(d), "wire": hex(&wire[..wire.len().min(600)])});
        match inbound_decode(&contexts, inb, &wire) {
            Err(p) => chk.violation(&format!("inbound.{:?}", inb), &format!("panic:{}", host_class(d)), format!("{} : {p}", show(d)), replay),
            Ok(None) => {
                refused.fetch_add(1, Ordering::Relaxed);
                outcomes.add(&(inb, "refused", host_class_full(d)));
            }
            Ok(Some((t, rest))) => {
                outcomes.add(&(inb, "accepted", host_class_full(d)));
                let td = dest_of(&t);
                let ok = td.as_ref().map(|x| same_dest(x, d)).unwrap_or(false);
                if !ok {
                    chk.violation(
                        &format!("inbound.{:?}", inb),
                        &format!("destination-changed:{}", host_class(d)),
                        format!("client asked for {} but the rules see {}", show(d), td.as_ref().map(show).unwrap_or("unknown".into())),
                        replay.clone(),
                    );
                } else if rest != PAY {
                    chk.violation(
                        &format!("inbound.{:?}", inb),
                        &format!("payload-boundary:{}", host_class(d)),
                        format!("{}: bytes left for the tunnel are {} instead of {}", show(d), hex(&rest[..rest.len().min(40)]), hex(PAY)),
                        replay,
                    );
                }
                if let Some(td) = td {
                    reachable.lock().unwrap().insert((td, format!("{:?}", inb)));
                }
            }
        }
    });

    // ---- part A2: SOCKS4 0.0.0.0 is a destination, not the SOCKS4a marker (0.0.0.x with x != 0): the bytes that follow
    //      the request belong to the tunnel and must not be read as a host name
    for port in [0u16, 80, 65535] {
        for follow in [&b"evil.example\0"[..], b"\0", b"a\0b\0"] {
            let mut wire = vec![4u8, 1];
            wire.extend(port.to_be_bytes());
            wire.extend([0, 0, 0, 0]);
            wire.extend(b"id\0");
            wire.extend(follow);
            cases.fetch_add(1, Ordering::Relaxed);
            let d = Dest::Ip(SocketAddr::new("0.0.0.0".parse().unwrap(), port));
            let replay = json!({"direction": "inbound", "codec": "Socks4", "destination": show(&d), "wire": hex(&wire), "following_bytes": hex(follow)});
            let mut want_rest = follow.to_vec();
            want_rest.extend(PAY);
            match inbound_decode(&contexts, Inb::Socks4, &wire) {
                Err(p) => chk.violation("inbound.Socks4", "panic:unspecified-address", p, replay),
                Ok(None) => {
                    refused.fetch_add(1, Ordering::Relaxed);
                    outcomes.add(&(Inb::Socks4, "refused", "0.0.0.0".to_string()));
                }
                Ok(Some((t, rest))) => {
                    outcomes.add(&(Inb::Socks4, "accepted", "0.0.0.0".to_string()));
                    let td = dest_of(&t);
                    if !td.as_ref().map(|x| same_dest(x, &d)).unwrap_or(false) {
                        chk.violation(
                            "inbound.Socks4",
                            "destination-changed:unspecified-address-read-as-4a-marker",
                            format!("client asked for {} (plain SOCKS4) and went on with {}; the rules see {}", show(&d), hex(follow), td.as_ref().map(show).unwrap_or("unknown".into())),
                            replay,
                        );
                    } else if rest != want_rest {
                        chk.violation("inbound.Socks4", "payload-boundary:unspecified-address", format!("bytes left for the tunnel are {} instead of {}", hex(&rest), hex(&want_rest)), replay);
                    }
                }
            }
        }
    }

    // ---- part B: every reachable TargetAddress (plus the grid itself: HTTP CONNECT and SOCKS4a carry unbounded hosts) through every encoder
    let mut targets: BTreeSet<Dest> = reachable.lock().unwrap().iter().map(|(d, _)| d.clone()).collect();
    for d in &grid {
        if let Dest::Host(h, _) = d {
            if std::str::from_utf8(h).is_err() {
                continue; // a TargetAddress holds a String
            }
        }
        targets.insert(d.clone());
    }
    let targets: Vec<Dest> = targets.into_iter().collect();
    par_for(targets.len() * OUTBOUND.len(), |i| {
        let d = &targets[i / OUTBOUND.len()];
        let outb = OUTBOUND[i % OUTBOUND.len()];
        let t = match d {
            Dest::Host(h, p) => TargetAddress::DomainPort(String::from_utf8(h.clone()).unwrap(), *p),
            Dest::Ip(a) => TargetAddress::SocketAddr(*a),
        };
        cases.fetch_add(1, Ordering::Relaxed);
        let site = format!("outbound.{:?}", outb);
        let w = match outbound_encode(&contexts, outb, &t) {
            Err(p) => {
                chk.violation(&site, &format!("panic:{}", host_class(d)), format!("{} : {p}", show(d)), json!({"direction": "outbound", "codec": format!("{:?}", outb), "destination": show(d)}));
                return;
            }
            Ok(None) => {
                refused.fetch_add(1, Ordering::Relaxed);
                outcomes.add(&(outb, "refused", host_class_full(d)));
                return;
            }
            Ok(Some(w)) => w,
        };
        outcomes.add(&(outb, "encoded", host_class_full(d)));
        let replay = json!({"direction": "outbound", "codec": format!("{:?}", outb), "destination": show(d), "wire": hex(&w[..w.len().min(600)])});
        // reference reader
        match ref_decode(outb, &w) {
            None => chk.violation(&site, &format!("malformed-output:{}", host_class(d)), format!("{}: the bytes sent to the next hop are not one well-formed request: {}", show(d), hex(&w[..w.len().min(80)])), replay.clone()),
            Some((rd, rest)) => {
                if !same_dest(&rd, d) {
                    chk.violation(&site, &format!("destination-changed:{}", host_class(d)), format!("rules saw {} but the next hop is asked for {}", show(d), show(&rd)), replay.clone());
                } else if !rest.is_empty() {
                    chk.violation(&site, &format!("spill:{}", host_class(d)), format!("{}: {} extra byte(s) follow the request: {}", show(d), rest.len(), hex(&rest[..rest.len().min(40)])), replay.clone());
                }
            }
        }
        // the repository's own reader (next hop is another redproxy)
        match own_decode(&contexts, outb, &w) {
            Err(p) => chk.violation(&site, &format!("next-hop-panic:{}", host_class(d)), format!("{}: the repository's own decoder panics on what its encoder sent: {p}", show(d)), replay),
            Ok(None) => chk.violation(&site, &format!("next-hop-rejects:{}", host_class(d)), format!("{}: the repository's own decoder rejects what its encoder sent", show(d)), replay),
            Ok(Some((t2, rest))) => {
                let d2 = dest_of(&t2);
                if !d2.as_ref().map(|x| same_dest(x, d)).unwrap_or(false) {
                    chk.violation(&site, &format!("destination-changed:{}", host_class(d)), format!("rules saw {} but a redproxy next hop decodes {}", show(d), d2.as_ref().map(show).unwrap_or("unknown".into())), replay);
                } else if rest != PAY {
                    chk.violation(&site, &format!("spill:{}", host_class(d)), format!("{}: a redproxy next hop would forward {} as payload instead of {}", show(d), hex(&rest[..rest.len().min(40)]), hex(PAY)), replay);
                }
            }
        }
    });

    let n = cases.load(Ordering::Relaxed);
    let pairs = INBOUND.len() * OUTBOUND.len();
    if chk.violation_count() == 0 && (n < 3000 || outcomes.len() < 30 || refused.load(Ordering::Relaxed) == 0) {
        machinery(format!("vacuous: cases={n} outcomes={} refused={}", outcomes.len(), refused.load(Ordering::Relaxed)));
    }
    let coverage = json!({
        "exhaustive": true,
        "states": outcomes.len(), "transitions": n, "traces_validated_against_impl": n,
        "evaluations": n, "distinct_nontrivial": outcomes.len(),
        "rule": "destination grid (host length x hostile byte x position, IPv4/IPv6, ports) x 6 inbound decoders (HTTP CONNECT via h11c_handshake, SOCKS4/4a/5 via SocksRequest::read_from, SOCKS-UDP header, RPFM frame) and x 5 outbound encoders (h11c_connect, SocksRequest::write_to v4/v5, stream frame writer, encode_socks_frame) over every TargetAddress reachable from any inbound decoder; outputs parsed by a strict reference decoder and by the repository's own decoder. distinct = distinct (codec, refused/accepted/encoded, host class) outcomes",
        "destinations": grid.len(), "reachable_targets": targets.len(), "codec_pairs_covered_by_composition": pairs, "refused": refused.load(Ordering::Relaxed),
        "samples": [show(&grid[3]), show(&grid[grid.len() / 2]), show(&grid[grid.len() - 3]), "host[300 bytes] via SOCKS4a -> SOCKS5"],
    });
    chk.finish(
        "model_checking",
        coverage,
        vec![
            "composition argument: the only thing passed from inbound to outbound side is the TargetAddress value, so per-codec checks over all reachable values cover all pairs".into(),
            "a host string that is an IP literal is compared as an address".into(),
            "real DNS resolution by the direct connector is not part of this property's scope here".into(),
        ],
    );
}
