//! C05, QUIC transport parameters: what a QUIC peer announces is peer input too. The size of the datagrams the proxy
//! may send is the minimum of the path MTU and the peer's `max_datagram_frame_size`; both a client of the `quic`
//! listener and the upstream of a `quic` connector choose that value. Enumerated: the peer's datagram receive
//! buffer over the small values (the parameter it announces) - against the REAL binary (a panic is an abort there),
//! with a real quinn endpoint as the hostile peer. Oracle: the process is alive afterwards and still serves.
use super::common::*;
use crate::common::fragment::Fragments;
use crate::common::frames::Frame;
use crate::common::quic::{create_quic_client, create_quic_server};
use crate::common::tls::{TlsClientConfig, TlsServerConfig};
use crate::context::TargetAddress;
use bytes::Bytes;
use serde_json::json;
use std::io::{Read, Write};
use std::net::{SocketAddr, TcpStream, UdpSocket};
use std::process::{Child, Command, Stdio};
use std::sync::Arc;
use std::time::{Duration, Instant};

pub(super) const CERTS: &str = "/verif/target/certs";

pub(super) fn free_tcp() -> u16 {
    std::net::TcpListener::bind("127.0.0.1:0").unwrap().local_addr().unwrap().port()
}
pub(super) fn free_udp() -> u16 {
    UdpSocket::bind("127.0.0.1:0").unwrap().local_addr().unwrap().port()
}

pub(super) struct Px {
    child: Child,
    dir: String,
    http: u16,
}
impl Px {
    pub(super) fn start(tag: &str, listeners: &str, connectors: &str, http: u16) -> Px {
        let bin = std::env::var("VERIF_REPO_BIN").unwrap_or("/verif/target/repo-bin/debug/redproxy-rs".into());
        let dir = format!("/verif/target/e4/c05q-{}-{}-{}", std::process::id(), tag, http);
        std::fs::create_dir_all(&dir).unwrap();
        let cfg = format!("apiVersion: v1alpha\nkind: ProxyDefinition\nlisteners:\n{listeners}connectors:\n{connectors}rules:\n  - target: c\n");
        std::fs::write(format!("{dir}/config.yaml"), cfg).unwrap();
        let log = std::fs::File::create(format!("{dir}/log")).unwrap();
        let child = Command::new(&bin)
            .args(["-c", &format!("{dir}/config.yaml")])
            .env("RUST_LOG", "warn")
            .stdout(Stdio::from(log.try_clone().unwrap()))
            .stderr(Stdio::from(log))
            .spawn()
            .unwrap_or_else(|e| machinery(format!("can not start {bin}: {e}")));
        let mut px = Px { child, dir, http };
        let t = Instant::now();
        while TcpStream::connect(("127.0.0.1", http)).is_err() {
            if t.elapsed() > Duration::from_secs(10) || px.exited().is_some() {
                machinery(format!("the proxy did not start: {}", px.log()));
            }
            std::thread::sleep(Duration::from_millis(50));
        }
        px
    }
    pub(super) fn exited(&mut self) -> Option<String> {
        self.child.try_wait().ok().flatten().map(|s| format!("{s:?}"))
    }
    pub(super) fn log(&self) -> String {
        let s = std::fs::read_to_string(format!("{}/log", self.dir)).unwrap_or_default();
        s.chars().rev().take(400).collect::<String>().chars().rev().collect()
    }
    fn serves(&self, tcp_echo: u16) -> bool {
        // a TCP tunnel through the http listener (only for proxies whose connector `c` can reach the echo)
        let Ok(mut s) = TcpStream::connect(("127.0.0.1", self.http)) else { return false };
        s.set_read_timeout(Some(Duration::from_secs(3))).ok();
        if s.write_all(format!("CONNECT 127.0.0.1:{tcp_echo} HTTP/1.1\r\nHost: x\r\n\r\n").as_bytes()).is_err() {
            return false;
        }
        let mut b = [0u8; 12];
        s.read_exact(&mut b).is_ok() && &b[..12] == b"HTTP/1.1 200"
    }
}
impl Drop for Px {
    fn drop(&mut self) {
        let _ = self.child.kill();
        let _ = self.child.wait();
        let _ = std::fs::remove_dir_all(&self.dir);
    }
}

fn rpfm(session: u32, addr: &[u8], body: &[u8]) -> Vec<u8> {
    let mut v = b"RPFM".to_vec();
    v.extend(session.to_be_bytes());
    v.extend((addr.len() as u16).to_be_bytes());
    v.extend((body.len() as u16).to_be_bytes());
    v.extend(addr);
    v.extend(body);
    v
}

pub(super) async fn read_head(r: &mut quinn::RecvStream) -> Option<String> {
    let mut head = vec![];
    let mut b = [0u8; 1];
    while !head.ends_with(b"\r\n\r\n") {
        match tokio::time::timeout(Duration::from_secs(4), r.read(&mut b)).await {
            Ok(Ok(Some(1))) => head.push(b[0]),
            _ => return None,
        }
        if head.len() > 4000 {
            return None;
        }
    }
    Some(String::from_utf8_lossy(&head).to_string())
}

/// returns (cases, sample table)
pub fn quic_peer_params(chk: &Check) -> (u64, Vec<String>) {
    if !std::path::Path::new(&format!("{CERTS}/done")).exists() {
        let ok = Command::new("/verif/bin/mkcerts").status().map(|s| s.success()).unwrap_or(false);
        if !ok {
            machinery("mkcerts failed");
        }
    }
    let bin = std::env::var("VERIF_REPO_BIN").unwrap_or("/verif/target/repo-bin/debug/redproxy-rs".into());
    if !std::path::Path::new(&bin).exists() {
        machinery(format!("{bin} is missing (bin/check builds it)"));
    }
    let rt = tokio::runtime::Builder::new_multi_thread().worker_threads(2).enable_all().build().unwrap();
    let sizes: Vec<u32> = if chk.thorough() { (1..=40).chain([64, 100, 1000, 1200, 65535]).collect() } else { vec![1, 2, 3, 4, 5, 6, 7, 8, 9, 10, 11, 12, 13, 14, 16, 20, 32, 100, 1200] };
    let mut table = vec![];
    let mut cases = 0u64;

    // a UDP echo origin and a TCP listener that accepts (for the liveness probe)
    let uecho = UdpSocket::bind("127.0.0.1:0").unwrap();
    let uport = uecho.local_addr().unwrap().port();
    std::thread::spawn(move || {
        let mut b = vec![0u8; 70000];
        while let Ok((n, from)) = uecho.recv_from(&mut b) {
            let mut r = b"R".to_vec();
            r.extend(&b[..n]);
            let _ = uecho.send_to(&r, from);
        }
    });
    let techo = std::net::TcpListener::bind("127.0.0.1:0").unwrap();
    let tport = techo.local_addr().unwrap().port();
    std::thread::spawn(move || {
        for s in techo.incoming().flatten() {
            std::thread::spawn(move || {
                let mut s = s;
                let mut b = [0u8; 1024];
                while let Ok(n) = s.read(&mut b) {
                    if n == 0 || s.write_all(&b[..n]).is_err() {
                        break;
                    }
                }
            });
        }
    });

    // ---- (A) a client of the quic listener announces a small max_datagram_frame_size, opens a UDP tunnel on the
    //          datagram channel and sends one datagram: the reply is what the proxy has to send to it
    let tlsc: TlsClientConfig = serde_yaml::from_str("insecure: true").unwrap();
    let mut px: Option<Px> = None;
    let mut qp = 0u16;
    for &n in &sizes {
        cases += 1;
        if px.is_none() {
            qp = free_udp();
            let hp = free_tcp();
            px = Some(Px::start(
                "a",
                &format!("  - name: quic\n    type: quic\n    bind: 127.0.0.1:{qp}\n    tls:\n      cert: {CERTS}/server.crt\n      key: {CERTS}/server.key\n  - name: http\n    bind: 127.0.0.1:{hp}\n"),
                "  - name: c\n    type: direct\n",
                hp,
            ));
        }
        let mut ccfg = create_quic_client(&tlsc, false).unwrap_or_else(|e| machinery(format!("quic client config: {e}")));
        let mut tc = quinn::TransportConfig::default();
        tc.max_concurrent_uni_streams(0u8.into());
        tc.datagram_receive_buffer_size(Some(n as usize));
        ccfg.transport_config(Arc::new(tc));
        let step: Result<String, String> = rt.block_on(async {
            let mut ep = quinn::Endpoint::client("127.0.0.1:0".parse().unwrap()).map_err(|e| format!("endpoint: {e}"))?;
            ep.set_default_client_config(ccfg);
            let conn = tokio::time::timeout(Duration::from_secs(5), ep.connect(SocketAddr::from(([127, 0, 0, 1], qp)), "localhost").map_err(|e| format!("connect: {e}"))?)
                .await
                .map_err(|_| "handshake timed out".to_string())?
                .map_err(|e| format!("handshake: {e}"))?;
            let (mut w, mut r) = conn.open_bi().await.map_err(|e| format!("open_bi: {e}"))?;
            w.write_all(format!("CONNECT 127.0.0.1:{uport} HTTP/1.1\r\nHost: x\r\nProxy-Protocol: udp\r\nProxy-Channel: quic-datagrams\r\n\r\n").as_bytes()).await.map_err(|e| format!("write: {e}"))?;
            let head = read_head(&mut r).await.ok_or("no reply to the UDP CONNECT")?;
            if !head.starts_with("HTTP/1.1 200") {
                return Ok(format!("refused: {}", head.lines().next().unwrap_or("")));
            }
            let sid: u32 = head.lines().find_map(|l| l.to_ascii_lowercase().strip_prefix("session-id:").map(|v| v.trim().parse().unwrap_or(0))).unwrap_or(0);
            let mut frame = Frame::new();
            frame.addr = Some(TargetAddress::SocketAddr(SocketAddr::from(([127, 0, 0, 1], uport))));
            frame.session_id = sid;
            frame.body = Bytes::from_static(b"ping-from-a-peer-with-a-small-datagram-window");
            let mtu = conn.max_datagram_size().ok_or("the proxy takes no datagrams")?;
            let mut id = 7u16;
            for f in Fragments::<Frame>::make_fragments(mtu, &mut id, frame) {
                conn.send_datagram(f).map_err(|e| format!("send_datagram: {e}"))?;
            }
            // whatever comes back (nothing can, for most sizes): give the proxy time to try
            let got = tokio::time::timeout(Duration::from_millis(700), conn.read_datagram()).await;
            let out = match got {
                Ok(Ok(d)) => format!("a datagram of {} bytes came back", d.len()),
                Ok(Err(e)) => format!("connection ended: {e}"),
                Err(_) => "no datagram came back".to_string(),
            };
            conn.close(0u32.into(), b"done");
            ep.wait_idle().await;
            Ok(out)
        });
        std::thread::sleep(Duration::from_millis(150));
        let p = px.as_mut().unwrap();
        let dead = p.exited();
        let serves = dead.is_none() && p.serves(tport);
        table.push(format!("client announces {n}: {} -> proxy {}", step.clone().unwrap_or_else(|e| format!("({e})")), if let Some(d) = &dead { format!("DIED {d}") } else if serves { "alive and serving".into() } else { "alive, NOT serving".into() }));
        if let Some(d) = dead {
            chk.violation(
                "quic.transport-parameters",
                "process-dies:client-announces-small-max_datagram_frame_size",
                format!("a client of the quic listener whose transport parameters announce max_datagram_frame_size = {n} opened a UDP tunnel on the datagram channel and sent one datagram: the proxy process ended ({d}): {}", p.log()),
                json!({"peer": "client of the quic listener", "max_datagram_frame_size": n}),
            );
            px = None;
        } else if !serves {
            chk.violation("quic.transport-parameters", "stops-serving:client-announces-small-max_datagram_frame_size", format!("after a quic client announcing max_datagram_frame_size = {n}: the http listener no longer serves"), json!({"max_datagram_frame_size": n}));
            px = None;
        } else if let Err(e) = &step {
            if e.contains("handshake") || e.contains("open_bi") {
                machinery(format!("quic client with datagram buffer {n}: {e}: {}", p.log()));
            }
        }
    }
    drop(px);

    // ---- (B) the upstream of a quic connector announces a small max_datagram_frame_size: a client of the http
    //          listener opens a UDP tunnel (inline frames over TCP) and sends one datagram, which the connector has to
    //          forward as QUIC datagram(s)
    let tlss: TlsServerConfig = serde_yaml::from_str(&format!("cert: {CERTS}/server.crt\nkey: {CERTS}/server.key")).unwrap();
    for &n in &sizes {
        cases += 1;
        let mut scfg = create_quic_server(&tlss).unwrap_or_else(|e| machinery(format!("quic server config: {e}")));
        let mut tc = quinn::TransportConfig::default();
        tc.max_concurrent_uni_streams(0u8.into());
        tc.datagram_receive_buffer_size(Some(n as usize));
        scfg.transport = Arc::new(tc);
        let sp = free_udp();
        let hp = free_tcp();
        let (ready_tx, ready_rx) = std::sync::mpsc::channel::<()>();
        let server = rt.spawn(async move {
            let ep = match quinn::Endpoint::server(scfg, SocketAddr::from(([127, 0, 0, 1], sp))) {
                Ok(e) => e,
                Err(_) => return 0u32,
            };
            let _ = ready_tx.send(());
            let mut answered = 0u32;
            while let Ok(Some(connecting)) = tokio::time::timeout(Duration::from_secs(4), ep.accept()).await {
                let Ok(conn) = connecting.await else { continue };
                while let Ok(Ok((mut w, mut r))) = tokio::time::timeout(Duration::from_secs(3), conn.accept_bi()).await {
                    if read_head(&mut r).await.is_some() {
                        let _ = w.write_all(b"HTTP/1.1 200 OK\r\nSession-Id: 1\r\n\r\n").await;
                        answered += 1;
                    }
                    // keep the stream open for a while
                    tokio::time::sleep(Duration::from_millis(900)).await;
                }
            }
            answered
        });
        if ready_rx.recv_timeout(Duration::from_secs(5)).is_err() {
            machinery("the hostile quic upstream did not start");
        }
        let mut p = Px::start(
            "b",
            &format!("  - name: http\n    bind: 127.0.0.1:{hp}\n"),
            &format!("  - name: c\n    type: quic\n    server: localhost\n    port: {sp}\n    bind: 127.0.0.1:0\n    tls:\n      insecure: true\n"),
            hp,
        );
        let mut outcome = String::new();
        match TcpStream::connect(("127.0.0.1", hp)) {
            Ok(mut s) => {
                s.set_read_timeout(Some(Duration::from_secs(5))).ok();
                let _ = s.write_all(format!("CONNECT 127.0.0.1:{uport} HTTP/1.1\r\nHost: x\r\nProxy-Protocol: udp\r\n\r\n").as_bytes());
                let mut head = vec![];
                let mut b = [0u8; 1];
                while !head.ends_with(b"\r\n\r\n") && head.len() < 2000 {
                    match s.read(&mut b) {
                        Ok(1) => head.push(b[0]),
                        _ => break,
                    }
                }
                outcome = String::from_utf8_lossy(&head).lines().next().unwrap_or("no reply").to_string();
                if head.starts_with(b"HTTP/1.1 200") {
                    let a = [1u8, 6, 127, 0, 0, 1, (uport >> 8) as u8, (uport & 255) as u8];
                    let _ = s.write_all(&rpfm(0, &a, b"one datagram for the upstream with the small window"));
                    std::thread::sleep(Duration::from_millis(600));
                }
            }
            Err(e) => outcome = format!("connect: {e}"),
        }
        std::thread::sleep(Duration::from_millis(150));
        let dead = p.exited();
        table.push(format!("upstream announces {n}: {outcome} -> proxy {}", if let Some(d) = &dead { format!("DIED {d}") } else { "alive".into() }));
        if let Some(d) = dead {
            chk.violation(
                "quic.transport-parameters",
                "process-dies:upstream-announces-small-max_datagram_frame_size",
                format!("the upstream of a quic connector announces max_datagram_frame_size = {n}; a client opened a UDP tunnel and sent one datagram: the proxy process ended ({d}): {}", p.log()),
                json!({"peer": "upstream of the quic connector", "max_datagram_frame_size": n}),
            );
        } else if !outcome.starts_with("HTTP/1.1") {
            machinery(format!("hostile upstream {n}: the client got {outcome:?}: {}", p.log()));
        }
        drop(p);
        server.abort();
    }
    rt.shutdown_timeout(Duration::from_secs(1));
    (cases, table)
}
