//! C01 — TCP tunnel byte-stream fidelity (relay core, in memory).
//! Engine E1: every schedule / segmentation / write-window sequence within the deviation bound of the real
//! handshake -> routing -> upstream leg (direct, HTTP, SOCKS5, SOCKS4 codecs) -> on_connect -> buffer hand-over ->
//! copy_bidi chain; two concurrent tunnels with disjoint alphabets. The listener x connector x TLS x io-mode matrix
//! on real sockets is the E4 part.
use super::common::*;
use super::relay::*;
use super::xsched::*;
use serde_json::json;
use std::sync::atomic::{AtomicU64, Ordering};

fn scenarios(thorough: bool) -> Vec<RelaySc> {
    let mut v = vec![];
    let earlies: Vec<&[u8]> = vec![b"", b"E", b"EF"];
    let cms: Vec<Vec<Vec<u8>>> = vec![vec![], vec![b"c".to_vec()], vec![b"cd".to_vec(), b"e".to_vec()]];
    let oms: Vec<Vec<Vec<u8>>> = vec![vec![], vec![b"o".to_vec()], vec![b"op".to_vec(), b"q".to_vec()]];
    for up in UPS {
        for (ei, early) in earlies.iter().enumerate() {
            for (ci, cm) in cms.iter().enumerate() {
                for (oi, om) in oms.iter().enumerate() {
                    for glue in [false, true] {
                        if glue && (up == Up::Direct || om.is_empty()) {
                            continue;
                        }
                        for (bi, bs) in [1usize, 2, 8].iter().enumerate() {
                            for win in [false, true] {
                                // quick tier: a covering subset (every value of every parameter, all pairs with `up`)
                                if !thorough && (ei + ci + oi + bi + win as usize + glue as usize) % 3 != 0 {
                                    continue;
                                }
                                let mut sc = RelaySc::basic(up);
                                sc.early = early.to_vec();
                                sc.c_msgs = cm.clone();
                                sc.o_msgs = om.clone();
                                sc.glue = glue;
                                sc.buffer_size = *bs;
                                sc.segment = vec![1];
                                if win {
                                    sc.client_window = Some(vec![1, 64]);
                                    sc.origin_window = Some(vec![1, 64]);
                                }
                                v.push(sc);
                            }
                        }
                    }
                }
            }
        }
    }
    v
}

#[test]
fn check() {
    let chk = Check::new("C01");
    let thorough = chk.thorough();
    let stats = Stats::default();
    let cfg = Config { bound: if thorough { 2 } else { 1 }, horizon: 500, max_executions: if thorough { 6_000_000 } else { 400_000 } };
    let scs = scenarios(thorough);
    let seg = AtomicU64::new(0);
    let not_established = AtomicU64::new(0);
    let established: Vec<AtomicU64> = (0..4).map(|_| AtomicU64::new(0)).collect();
    let mut samples = vec![];
    // ---- single tunnel
    par_for(scs.len(), |i| {
        let sc = &scs[i];
        let b = |w: &mut World| add_tunnel(w, sc);
        let check = |x: &Exec<Tunnel>| {
            if x.trace.iter().any(|t| t.starts_with("arrive:") && t.ends_with(":1")) {
                seg.fetch_add(1, Ordering::Relaxed);
            }
            if x.horizon_hit {
                return;
            }
            let origin_tx = x.user.origin.lock().unwrap().tx.clone();
            let client_tx = x.user.client.lock().unwrap().tx.clone();
            stats.distinct.add(&(sc.up, origin_tx.len(), client_tx.len(), x.blocked.clone()));
            let replay = json!({"scenario": format!("{:?}", sc), "choices": x.points.iter().map(|p| p.chosen).collect::<Vec<_>>(), "schedule": x.trace});
            let mut want_origin = sc.upstream_prefix();
            want_origin.extend(sc.client_payload());
            let mut want_client = OK_HEAD.to_vec();
            want_client.extend(sc.origin_payload());
            let class_sit = format!("{:?}", sc.up);
            if !client_tx.starts_with(b"HTTP/1.1 200") && x.blocked.is_empty() {
                // the proxy never reported this tunnel established: C01 has nothing to say (C06 judges the reply)
                not_established.fetch_add(1, Ordering::Relaxed);
                return;
            }
            established[UPS.iter().position(|u| *u == sc.up).unwrap()].fetch_add(1, Ordering::Relaxed);
            if !x.blocked.is_empty() {
                chk.violation("relay.progress", &format!("tunnel-never-completes:{}", class_sit), format!("blocked {:?}; origin got {} client got {} (schedule {:?})", x.blocked, hex(&origin_tx), hex(&client_tx), x.trace), replay);
                return;
            }
            if origin_tx != want_origin {
                let what = if origin_tx.len() < want_origin.len() && want_origin.starts_with(&origin_tx) {
                    "client-bytes-lost"
                } else if origin_tx.len() > want_origin.len() && origin_tx.starts_with(&want_origin) {
                    "extra-bytes-at-origin"
                } else {
                    "client-bytes-corrupted-or-reordered"
                };
                chk.violation("relay.client_to_origin", &format!("{what}:{class_sit}"), format!("origin received {} expected {} (upstream handshake {} + payload {}) schedule {:?}", hex(&origin_tx), hex(&want_origin), sc.upstream_prefix().len(), hex(&sc.client_payload()), x.trace), replay.clone());
            }
            if client_tx != want_client {
                let what = if client_tx.len() < want_client.len() && want_client.starts_with(&client_tx) {
                    "origin-bytes-lost"
                } else if client_tx.len() > want_client.len() && client_tx.starts_with(&want_client) {
                    "extra-bytes-at-client"
                } else {
                    "origin-bytes-corrupted-or-handshake-leaked"
                };
                chk.violation("relay.origin_to_client", &format!("{what}:{class_sit}"), format!("client received {:?} expected {:?} schedule {:?}", String::from_utf8_lossy(&client_tx), String::from_utf8_lossy(&want_client), x.trace), replay);
            }
        };
        explore(&cfg, &b, &check, &stats);
    });
    samples.push(json!({"scenario": format!("{:?}", scs[scs.len() / 2])}));

    // ---- two concurrent tunnels with disjoint alphabets: no byte of one connection may appear in the other
    let mut two = 0u64;
    for up_a in UPS {
        for up_b in [Up::Direct, Up::Http] {
            let mut a = RelaySc::basic(up_a);
            a.tag = "A";
            a.early = b"A".to_vec();
            a.c_msgs = vec![b"aa".to_vec()];
            a.o_msgs = vec![b"xx".to_vec()];
            a.buffer_size = 1;
            let mut bsc = RelaySc::basic(up_b);
            bsc.tag = "B";
            bsc.early = b"B".to_vec();
            bsc.c_msgs = vec![b"bb".to_vec()];
            bsc.o_msgs = vec![b"yy".to_vec()];
            bsc.buffer_size = 1;
            let build = |w: &mut World| (add_tunnel(w, &a), add_tunnel(w, &bsc));
            let check = |x: &Exec<(Tunnel, Tunnel)>| {
                if x.horizon_hit {
                    return;
                }
                let replay = json!({"two_tunnels": [format!("{:?}", a.up), format!("{:?}", bsc.up)], "choices": x.points.iter().map(|p| p.chosen).collect::<Vec<_>>(), "schedule": x.trace});
                for (t, sc, foreign) in [(&x.user.0, &a, &b"Bby"[..]), (&x.user.1, &bsc, &b"Aax"[..])] {
                    let o = t.origin.lock().unwrap().tx.clone();
                    let c = t.client.lock().unwrap().tx.clone();
                    let mut want_o = sc.upstream_prefix();
                    want_o.extend(sc.client_payload());
                    let mut want_c = OK_HEAD.to_vec();
                    want_c.extend(sc.origin_payload());
                    let payload_o = &o[sc.upstream_prefix().len().min(o.len())..];
                    let payload_c = &c[OK_HEAD.len().min(c.len())..];
                    if payload_o.iter().chain(payload_c.iter()).any(|b| foreign.contains(b)) {
                        chk.violation("relay.isolation", "bytes-of-another-connection", format!("tunnel {}: origin {:?} client {:?}", sc.tag, String::from_utf8_lossy(&o), String::from_utf8_lossy(&c)), replay.clone());
                    } else if !x.blocked.is_empty() || o != want_o || c != want_c {
                        chk.violation("relay.two_tunnels", "concurrent-tunnel-incomplete-or-wrong", format!("tunnel {}: blocked {:?} origin {} client {:?}", sc.tag, x.blocked, hex(&o), String::from_utf8_lossy(&c)), replay.clone());
                    }
                }
            };
            let before = stats.executions.load(Ordering::Relaxed);
            explore(&Config { bound: if thorough { 2 } else { 1 }, horizon: 800, max_executions: u64::MAX }, &build, &check, &stats);
            two += stats.executions.load(Ordering::Relaxed) - before;
        }
    }
    // ownership of nondeterminism
    let mut replays = 0;
    for sc in scs.iter().step_by(scs.len() / 8 + 1) {
        let b = |w: &mut World| add_tunnel(w, sc);
        let obs = |x: &Exec<Tunnel>| format!("{}|{}|{:?}", hex(&x.user.origin.lock().unwrap().tx), hex(&x.user.client.lock().unwrap().tx), x.blocked);
        for choices in [vec![], vec![1], vec![0, 0, 1], vec![0, 1, 0, 1]] {
            match replay_twice(&b, &choices, cfg.horizon, &obs) {
                Ok(()) => replays += 1,
                Err(e) if e.contains("divergence") => {}
                Err(e) => machinery(format!("nondeterminism not owned: {e}")),
            }
        }
    }
    let ex = stats.executions.load(Ordering::Relaxed);
    if let Some(i) = established.iter().position(|c| c.load(Ordering::Relaxed) == 0) {
        // not a verdict about fidelity, but nothing was checked for this upstream kind: report it as its own finding
        chk.violation("relay.progress", &format!("tunnel-never-established:{:?}", UPS[i]), format!("no execution with upstream {:?} ever reported the tunnel established, although the scripted upstream accepts", UPS[i]), json!({"upstream": format!("{:?}", UPS[i])}));
    }
    if chk.violation_count() == 0 && (ex < 5000 || seg.load(Ordering::Relaxed) == 0 || stats.distinct.len() < 20) {
        machinery(format!("vacuous: executions={ex} segmented={} distinct={}", seg.load(Ordering::Relaxed), stats.distinct.len()));
    }
    let coverage = json!({
        "exhaustive": !stats.capped.load(Ordering::Relaxed),
        "states": stats.distinct.len(), "transitions": stats.steps.load(Ordering::Relaxed), "traces_validated_against_impl": ex,
        "evaluations": ex, "distinct_nontrivial": seg.load(Ordering::Relaxed),
        "rule": "scenarios = upstream codec {direct, http, socks5, socks4} x early data {0,1,2 bytes} x client messages {0,1,2} x origin messages {0,1,2} x origin glued to the upstream reply x bufferSize {1,2,8} x write back-pressure on/off (quick: covering subset); per scenario every schedule with at most `deviation_bound` departures from the default (departures: task preemption, 1-byte segment instead of the whole message, window of 1 byte, event order). non-trivial = executions containing a 1-byte segment. states = distinct (upstream, bytes at origin, bytes at client, blocked set)",
        "scenarios": scs.len(), "not_established_executions": not_established.load(Ordering::Relaxed), "two_tunnel_executions": two, "deviation_bound": cfg.bound, "horizon_hits": stats.horizon_hits.load(Ordering::Relaxed),
        "execution_cap_hit": stats.capped.load(Ordering::Relaxed), "replays_compared": replays, "max_depth": stats.max_depth.load(Ordering::Relaxed),
        "samples": samples,
    });
    chk.finish(
        "model_checking",
        coverage,
        vec![
            "the upstream leg is a harness connector that runs the same calls the real http/socks connectors make after their TCP connect (h11c_connect, SocksRequest::write_to, SocksResponse::read_from)".into(),
            "payloads are a few bytes; multi-MB transfers, splice mode, TLS and the SOCKS/reverse/QUIC listeners are exercised on real sockets (E4 part)".into(),
        ],
    );
}
