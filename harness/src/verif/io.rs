//! In-memory stream endpoints for the sequential (environment-only) checks.
use std::pin::Pin;
use std::sync::{Arc, Mutex};
use std::task::{Context, Poll};
use tokio::io::{AsyncRead, AsyncWrite, ReadBuf};

/// Delivers a fixed list of segments, one per `poll_read` (split further only if the caller's buffer is smaller),
/// then end-of-stream. Everything written is appended to a shared log.
pub struct ChunkStream {
    chunks: std::collections::VecDeque<Vec<u8>>,
    pub written: Arc<Mutex<Vec<u8>>>,
    pub reads: usize,
    /// after the last chunk: true = EOF, false = stay pending forever (peer keeps the connection open)
    pub eof: bool,
    pub shutdown: Arc<Mutex<bool>>,
}

impl ChunkStream {
    pub fn new(chunks: Vec<Vec<u8>>) -> Self {
        ChunkStream {
            chunks: chunks.into_iter().filter(|c| !c.is_empty()).collect(),
            written: Default::default(),
            reads: 0,
            eof: true,
            shutdown: Default::default(),
        }
    }
    pub fn from_cuts(data: &[u8], cuts: &[usize]) -> Self {
        let mut chunks = vec![];
        let mut last = 0;
        for &c in cuts {
            chunks.push(data[last..c].to_vec());
            last = c;
        }
        chunks.push(data[last..].to_vec());
        Self::new(chunks)
    }
}

impl AsyncRead for ChunkStream {
    fn poll_read(mut self: Pin<&mut Self>, _cx: &mut Context<'_>, buf: &mut ReadBuf<'_>) -> Poll<std::io::Result<()>> {
        self.reads += 1;
        match self.chunks.pop_front() {
            None => {
                if self.eof {
                    Poll::Ready(Ok(()))
                } else {
                    Poll::Pending
                }
            }
            Some(mut c) => {
                let n = c.len().min(buf.remaining());
                buf.put_slice(&c[..n]);
                if n < c.len() {
                    let rest = c.split_off(n);
                    self.chunks.push_front(rest);
                }
                Poll::Ready(Ok(()))
            }
        }
    }
}

impl AsyncWrite for ChunkStream {
    fn poll_write(self: Pin<&mut Self>, _cx: &mut Context<'_>, buf: &[u8]) -> Poll<std::io::Result<usize>> {
        self.written.lock().unwrap().extend_from_slice(buf);
        Poll::Ready(Ok(buf.len()))
    }
    fn poll_flush(self: Pin<&mut Self>, _cx: &mut Context<'_>) -> Poll<std::io::Result<()>> {
        Poll::Ready(Ok(()))
    }
    fn poll_shutdown(self: Pin<&mut Self>, _cx: &mut Context<'_>) -> Poll<std::io::Result<()>> {
        *self.shutdown.lock().unwrap() = true;
        Poll::Ready(Ok(()))
    }
}

/// all subsets of cut positions 1..len-1 (2^(len-1) segmentations)
pub fn all_cut_sets(len: usize) -> Vec<Vec<usize>> {
    if len <= 1 {
        return vec![vec![]];
    }
    let n = len - 1;
    (0..(1u64 << n))
        .map(|mask| (0..n).filter(|i| mask & (1 << i) != 0).map(|i| i + 1).collect())
        .collect()
}

/// every single cut, every pair of cuts, and one-byte-at-a-time
pub fn sparse_cut_sets(len: usize) -> Vec<Vec<usize>> {
    let mut v = vec![vec![]];
    for a in 1..len {
        v.push(vec![a]);
    }
    for a in 1..len {
        for b in a + 1..len {
            v.push(vec![a, b]);
        }
    }
    v.push((1..len).collect());
    v
}
