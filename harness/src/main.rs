// The crate root IS the repository's program: every `mod x;` inside the included file resolves
// relative to /repo/src, so this crate compiles the current working tree of /repo file for file.
#![allow(dead_code, unused_imports, unused_variables, clippy::all)]
include!("/repo/src/main.rs");

#[cfg(test)]
#[path = "verif/mod.rs"]
mod verif;
