// Emits the guard cfg for the verification hooks in /repo (never set by /repo itself).
fn main() {
    println!("cargo:rustc-cfg=redproxy_verif");
    if std::env::var_os("CARGO_FEATURE_LOOMLB").is_some() {
        println!("cargo:rustc-cfg=redproxy_verif_loom");
    }
    println!("cargo:rustc-check-cfg=cfg(redproxy_verif)");
    println!("cargo:rustc-check-cfg=cfg(redproxy_verif_loom)");
    println!("cargo:rerun-if-changed=build.rs");
}
