#!/usr/bin/env python3
"""C06 (real sockets): client protocol {http, socks5, socks4, socks4a} x route {direct v4, direct v6, http upstream,
socks5 upstream, socks4 upstream} x upstream behaviour {ok, refused, proxy says no, closes mid-handshake, garbage}
plus denied / no rule / unsupported command / bad auth / UDP not allowed. Success reply iff the upstream path works
(echo round trip), otherwise exactly one complete failure reply and then end of stream."""
import sys, json
sys.path.insert(0, '/verif/e4')
from lib import *

chk = Check('C06')
echo4 = Origin('echo')
echo6 = Origin('echo', host='::1')
uph = Origin(fake_http_proxy)
ups = Origin(fake_socks_proxy)
closed_port = free_port()
def _always(reply):
    def h(c, a, rec):
        head, rest = recv_head(c, 5)
        rec['rx'] += head
        if reply is not None:
            c.sendall(reply)
            time.sleep(0.2)
    return h
up403 = Origin(_always(b'HTTP/1.1 403 Forbidden\r\nContent-Length: 2\r\n\r\nno'))
upclose = Origin(_always(None))
up200 = Origin(_always(b'HTTP/1.1 200 OK\r\nSession-Id: 5\r\n\r\n'))
hp, sp, sap, snu, ap = free_port(), free_port(), free_port(), free_port(), free_port()
UDPL = {k: free_port() for k in ('u403', 'uclose', 'u200')}
SENF = free_port()
cfg = {
    'listeners': [
        {'name': 'http', 'bind': f'127.0.0.1:{hp}'},
        {'name': 'socks', 'bind': f'127.0.0.1:{sp}'},
        {'name': 'socksauth', 'type': 'socks', 'bind': f'127.0.0.1:{sap}', 'auth': {'required': True, 'users': [{'username': 'u', 'password': 'p'}]}},
        {'name': 'socksnoudp', 'type': 'socks', 'bind': f'127.0.0.1:{snu}', 'allowUdp': False},
        {'name': 'socksenf', 'type': 'socks', 'bind': f'127.0.0.1:{SENF}', 'enforceUdpClient': True},
    ] + [{'name': f'socks-{k}', 'type': 'socks', 'bind': f'127.0.0.1:{UDPL[k]}'} for k in UDPL],
    'connectors': [
        {'name': 'direct'},
        {'name': 'h', 'type': 'http', 'server': '127.0.0.1', 'port': uph.port},
        {'name': 's5', 'type': 'socks', 'server': '127.0.0.1', 'port': ups.port, 'version': 5},
        {'name': 's4', 'type': 'socks', 'server': '127.0.0.1', 'port': ups.port, 'version': 4},
        {'name': 'hdown', 'type': 'http', 'server': '127.0.0.1', 'port': closed_port},
        {'name': 's5down', 'type': 'socks', 'server': '127.0.0.1', 'port': closed_port},
        {'name': 'u403', 'type': 'http', 'server': '127.0.0.1', 'port': up403.port},
        {'name': 'uclose', 'type': 'http', 'server': '127.0.0.1', 'port': upclose.port},
        {'name': 'u200', 'type': 'http', 'server': '127.0.0.1', 'port': up200.port},
    ],
    'rules': [
        {'filter': 'request.listener == "socks-u403" || request.target.port == 1403', 'target': 'u403'},
        {'filter': 'request.listener == "socks-uclose" || request.target.port == 1404', 'target': 'uclose'},
        {'filter': 'request.listener == "socks-u200" || request.target.port == 1200', 'target': 'u200'},
        {'filter': 'request.target.port == 1001', 'target': 'h'},
        {'filter': 'request.target.port == 1002', 'target': 's5'},
        {'filter': 'request.target.port == 1003', 'target': 's4'},
        {'filter': 'request.target.port == 1004', 'target': 'deny'},
        {'filter': 'request.target.port == 1005', 'target': 'hdown'},
        {'filter': 'request.target.port == 1006', 'target': 's5down'},
        {'filter': 'request.target.port == 1007', 'target': 'direct'},
        {'filter': 'request.target.port == 0', 'target': 'direct'},
        {'filter': 'request.target.host == "127.0.0.1" || request.target.host == "::1"', 'target': 'direct'},
    ],
    'metrics': {'bind': f'127.0.0.1:{ap}', 'ui': None},
    'ioParams': {'bufferSize': 4096, 'useSplice': True},
    'timeouts': {'idle': 600, 'udp': 1},
}
px = Proxy(cfg, 'c06')
px.api_port = ap
if not px.start([hp, sp, sap, snu, ap]):
    machinery('proxy did not start: ' + px.log()[-500:])

# (name, target host, target port, should the tunnel work?)
ROUTES = [
    ('direct-v4', '127.0.0.1', echo4.port, True),
    ('direct-v6', '::1', echo6.port, True),
    ('direct-refused', '127.0.0.1', closed_port, False),
    ('http-ok', 'ok.test', 1001, True), ('http-no', 'no.test', 1001, False), ('http-close', 'close.test', 1001, False), ('http-garbage', 'garbage.test', 1001, False),
    ('socks5-ok', 'ok.test', 1002, True), ('socks5-no', 'no.test', 1002, False), ('socks5-close', 'close.test', 1002, False), ('socks5-garbage', 'garbage.test', 1002, False),
    ('socks4-ok', 'ok.test', 1003, True), ('socks4-no', 'no.test', 1003, False), ('socks4-close', 'close.test', 1003, False), ('socks4-garbage', 'garbage.test', 1003, False),
    ('denied', 'ok.test', 1004, False), ('no-rule', 'ok.test', 1999, False),
    ('http-upstream-down', 'ok.test', 1005, False), ('socks5-upstream-down', 'ok.test', 1006, False),
    # replies of the upstream in other spellings / with other codes
    ('http-ok-noreason', 'status-noreason.test', 1001, True), ('http-ok-http10', 'status-http10.test', 1001, True), ('http-ok-longreason', 'status-longreason.test', 1001, True),
    ('http-ok-hdr-nospace', 'status-hdr-nospace.test', 1001, True), ('http-ok-hdr-spaces', 'status-hdr-spaces.test', 1001, True),
    ('socks4-cd-0', 'cd-0.test', 1003, False), ('socks4-cd-1', 'cd-1.test', 1003, False), ('socks4-cd-89', 'cd-89.test', 1003, False), ('socks4-cd-92', 'cd-92.test', 1003, False),
    ('socks4-cd-255', 'cd-255.test', 1003, False), ('socks4-cd-90', 'cd-90.test', 1003, True),
    ('socks5-v4reply-90', 'v4reply-90.test', 1002, False), ('socks5-v4reply-0', 'v4reply-0.test', 1002, False),
] + [(f'http-no-wordy-{n}', f'wordy-{n}.test', 1001, False) for n in (1, 100, 200, 300, 350, 400, 450, 500, 1000, 2000, 4000, 8000, 16000, 40000)]
CLIENTS = ['http', 'socks5', 'socks4']

def echo_ok(s):
    try:
        s.sendall(b'ping-1234')
        return recv_exact(s, 9, 3) == b'ping-1234'
    except OSError:
        return False

def run(case):
    client, (rname, host, port, works) = case
    res = {'client': client, 'route': rname}
    try:
        if client == 'http':
            t = f'[{host}]:{port}' if ':' in host else f'{host}:{port}'
            s, code, head, rest = http_connect(hp, t, timeout=6)
            res['reply'] = head[:60]
            if code == 200:
                res['told'] = 'established'
                res['echo'] = echo_ok(s)
                tail, how = b'', None
            else:
                body, how = recv_until_eof(s, 4)
                body = rest + body
                res['told'] = 'failure' if code else 'nothing'
                cl = [l for l in head.split(b'\r\n') if l.lower().startswith(b'content-length:')]
                if code and cl and int(cl[0].split(b':')[1]) != len(body):
                    res['malformed'] = f'Content-Length {int(cl[0].split(b":")[1])} but {len(body)} body bytes'
                res['closed'] = how == 'eof' or how == 'reset'
            s.close()
        elif client == 'socks5':
            s, r = socks5_connect(sp, host, port, timeout=6)
            res['reply'] = r['reply']
            if r['rep'] == 0:
                res['told'] = 'established'
                if len(r['reply']) < 10:
                    res['malformed'] = f"success reply of {len(r['reply'])} bytes"
                res['echo'] = echo_ok(s)
            else:
                extra, how = recv_until_eof(s, 4)
                res['told'] = 'failure' if r['rep'] is not None else 'nothing'
                if r['rep'] is not None and (len(r['reply']) < 10 or extra):
                    res['malformed'] = f"failure reply {r['reply'].hex()} followed by {extra[:20].hex()}"
                res['closed'] = how in ('eof', 'reset')
            s.close()
        else:
            s, r = socks4_connect(sp, host, port, timeout=6)
            res['reply'] = r
            if len(r) >= 2 and r[1] == 90:
                res['told'] = 'established'
                if len(r) != 8:
                    res['malformed'] = f'success reply of {len(r)} bytes: {r.hex()}'
                res['echo'] = echo_ok(s)
            else:
                extra, how = recv_until_eof(s, 4)
                res['told'] = 'failure' if len(r) >= 2 else 'nothing'
                if len(r) >= 2 and (len(r) != 8 or extra):
                    res['malformed'] = f'failure reply {r.hex()} followed by {extra[:20].hex()}'
                res['closed'] = how in ('eof', 'reset')
            s.close()
    except OSError as e:
        res['told'] = 'error:' + repr(e)
    return res

cases = [(c, r) for c in CLIENTS for r in ROUTES if not (c == 'socks4' and r[0] == 'direct-v6' and False)]
results = run_parallel(cases, run, workers=8)
evals = 0
distinct = set()
samples = []
for (client, route), r in zip(cases, results):
    evals += 1
    rname, host, port, works = route
    if isinstance(r, tuple):
        machinery(f'{client}/{rname}: {r}')
    distinct.add((client, r.get('told'), bool(r.get('echo')), bool(r.get('malformed'))))
    replay = {'client': client, 'route': rname, 'observed': {k: (v.hex() if isinstance(v, bytes) else v) for k, v in r.items()}}
    kind = rname.split('-')[0] if works else rname
    if r.get('malformed'):
        chk.violation('reply.wellformed', f'malformed-reply:{client}/{"success" if r.get("told") == "established" else "failure"}', f'{client} via {rname}: {r["malformed"]}', replay)
    if works:
        if r.get('told') != 'established':
            chk.violation('reply.iff', f'upstream-works-but-client-told-{r.get("told")}:{client}/{kind}', f'{client} via {rname}: upstream path works but the client got {r.get("reply")}', replay)
        elif not r.get('echo'):
            chk.violation('reply.iff', f'told-established-but-tunnel-dead:{client}/{kind}', f'{client} via {rname}: success reply but no echo', replay)
    else:
        if r.get('told') == 'established':
            chk.violation('reply.iff', f'told-established-without-upstream:{client}/{rname}', f'{client} via {rname}: {r.get("reply")}', replay)
        elif r.get('told') == 'nothing':
            chk.violation('reply.wellformed', f'no-reply-before-close:{client}/{rname}', f'{client} via {rname}: connection closed without a reply', replay)
        elif r.get('told') == 'failure' and not r.get('closed'):
            chk.violation('reply.close', f'connection-not-closed-after-failure:{client}', f'{client} via {rname}', replay)
    if len(samples) < 4:
        samples.append(replay)

# ---- commands / authentication
def special(name, fn, expect_fail_reply):
    global evals
    evals += 1
    try:
        told, malformed, closed, raw = fn()
    except OSError as e:
        told, malformed, closed, raw = 'error', repr(e), False, b''
    distinct.add((name, told))
    replay = {'case': name, 'told': told, 'raw': raw.hex() if isinstance(raw, bytes) else raw}
    if told == 'established':
        chk.violation('reply.iff', f'told-established-without-upstream:{name}', f'{name}: success reply {replay["raw"]}', replay)
    elif expect_fail_reply and told == 'nothing':
        chk.violation('reply.wellformed', f'no-reply-before-close:{name}', f'{name}: closed without a reply', replay)
    elif malformed:
        chk.violation('reply.wellformed', f'malformed-reply:{name}', f'{name}: {malformed}', replay)
    elif told == 'failure' and not closed:
        chk.violation('reply.close', f'connection-not-closed-after-failure:{name}', name, replay)

def s5(port, cmd=1, methods=(0,), userpass=None, thost='127.0.0.1', tport=None):
    def f():
        s, r = socks5_connect(port, thost, tport or echo4.port, methods=methods, userpass=userpass, cmd=cmd, timeout=5)
        extra, how = recv_until_eof(s, 3) if r['rep'] != 0 else (b'', None)
        s.close()
        if r['method'] == 0xff:
            return 'failure', None, how in ('eof', 'reset'), b'\x05\xff'
        if r['rep'] == 0:
            return 'established', None, False, r['reply']
        if r['rep'] is None:
            return 'nothing', None, True, r['reply']
        bad = None if (len(r['reply']) >= 10 and not extra) else f"reply {r['reply'].hex()} + {extra[:16].hex()}"
        return 'failure', bad, how in ('eof', 'reset'), r['reply']
    return f

special('socks5-bind', s5(sp, cmd=2), True)
special('socks5-unknown-cmd', s5(sp, cmd=9), True)
special('socks5-udp-not-allowed', s5(snu, cmd=3, thost='0.0.0.0', tport=0), True)
special('socks5-auth-required-offers-none', s5(sap, methods=(0,)), True)
special('socks5-auth-wrong-password', s5(sap, methods=(2,), userpass=(b'u', b'x')), True)
special('socks5-auth-empty', s5(sap, methods=(2,), userpass=(b'', b'')), True)
def s4bind():
    s = socket.create_connection(('127.0.0.1', sp), timeout=5)
    s.sendall(bytes([4, 2]) + struct.pack('>H', 80) + socket.inet_aton('127.0.0.1') + b'id\0')
    r = recv_exact(s, 8, 4)
    extra, how = recv_until_eof(s, 3)
    s.close()
    if len(r) >= 2 and r[1] == 90:
        return 'established', None, False, r
    if len(r) < 2:
        return 'nothing', None, True, r
    return 'failure', (None if len(r) == 8 and not extra else f'reply {r.hex()} + {extra.hex()}'), how in ('eof', 'reset'), r
special('socks4-bind', s4bind, True)
# UDP ASSOCIATE announcing a client address the relay socket cannot be tied to (IPv6 address, IPv4 listener, enforceUdpClient)
special('socks5-udp-associate-unusable-client-address', s5(SENF, cmd=3, thost='2001:db8::1', tport=4000), True)
def s4auth():
    s = socket.create_connection(('127.0.0.1', sap), timeout=5)
    s.sendall(bytes([4, 1]) + struct.pack('>H', echo4.port) + socket.inet_aton('127.0.0.1') + b'nobody\0')
    r = recv_exact(s, 8, 4)
    extra, how = recv_until_eof(s, 3)
    s.close()
    if len(r) >= 2 and r[1] == 90:
        return 'established', None, False, r
    if len(r) < 2:
        return 'nothing', None, True, r
    return 'failure', (None if len(r) == 8 and not extra else f'reply {r.hex()} + {extra.hex()}'), how in ('eof', 'reset'), r
special('socks4-auth-required-unknown-id', s4auth, True)
def s4cmd(cmd):
    """a SOCKS4 request with another command than CONNECT: SOCKS4 has BIND (2) and nothing else"""
    def f():
        s = socket.create_connection(('127.0.0.1', sp), timeout=5)
        s.sendall(bytes([4, cmd]) + struct.pack('>H', echo4.port) + socket.inet_aton('127.0.0.1') + b'id\0')
        r = recv_exact(s, 8, 3)
        extra, how = recv_until_eof(s, 3)
        s.close()
        if len(r) == 8 and r[1] == 90:
            return 'established', None, False, r
        if not r:
            return 'nothing', None, True, r
        return 'failure', (None if len(r) == 8 and r[0] == 0 and not extra else f'reply {r.hex()} + {extra.hex()}'), how in ('eof', 'reset'), r
    return f
for cmd in (0, 3, 4, 255):
    special(f'socks4-cmd-{cmd}', s4cmd(cmd), True)
def http_bad(extra_headers, target=None):
    def f():
        s = socket.create_connection(('127.0.0.1', hp), timeout=5)
        s.sendall(b'CONNECT ' + (target or f'127.0.0.1:{echo4.port}').encode() + b' HTTP/1.1\r\n' + extra_headers + b'\r\n')
        raw, how = recv_until_eof(s, 3)
        s.close()
        if not raw:
            return 'nothing', None, how in ('eof', 'reset'), raw
        head, _, body = raw.partition(b'\r\n\r\n')
        try:
            code = int(head.split(b' ')[1])
        except Exception:
            return 'failure', f'unparsable reply {raw[:40]!r}', how in ('eof', 'reset'), raw
        if code == 200:
            return 'established', None, False, raw
        cl = [l for l in head.split(b'\r\n') if l.lower().startswith(b'content-length:')]
        bad = None
        if cl and int(cl[0].split(b':')[1]) != len(body):
            bad = f'Content-Length {int(cl[0].split(b":")[1])} but {len(body)} body bytes'
        elif not cl and body:
            bad = f'{len(body)} body bytes without Content-Length'
        return 'failure', bad, how in ('eof', 'reset'), raw
    return f
special('http-udp-channel-not-offered', http_bad(b'Proxy-Protocol: udp\r\nProxy-Channel: datagram\r\n'), True)
special('http-udp-channel-quic-datagrams-on-tcp-listener', http_bad(b'Proxy-Protocol: udp\r\nProxy-Channel: quic-datagrams\r\n'), True)
special('http-protocol-unknown', http_bad(b'Proxy-Protocol: sctp\r\n'), True)
special('http-target-without-port', http_bad(b'', target='nohost'), True)
# ---- the VER byte of the SOCKS5 request itself (after the method negotiation): whatever it is, the client of a SOCKS5
#      session is answered in SOCKS5, and a tunnel is not established behind its back
def s5_request_ver(ver, tport):
    s = socket.create_connection(('127.0.0.1', sp), timeout=5)
    s.sendall(b'\x05\x01\x00')
    if recv_exact(s, 2, 3) != b'\x05\x00':
        s.close()
        return None
    s.sendall(bytes([ver, 1, 0]) + socks5_addr('127.0.0.1', tport) + b'hello')
    got, how = recv_until_eof(s, 2.0)
    s.close()
    return got, how
for ver in (0, 1, 4, 6, 255):
    for label, tport in (('reachable', echo4.port), ('refused', closed_port)):
        evals += 1
        name = f'socks5-request-ver-{ver}-{label}'
        r = s5_request_ver(ver, tport)
        if r is None:
            machinery(f'{name}: method negotiation failed')
        got, how = r
        relayed = b'hello' in got
        distinct.add((name, 'relayed' if relayed else ('reply' if got else 'closed')))
        replay = {'case': name, 'received': got.hex(), 'end': how}
        if relayed and not got.startswith(b'\x05\x00'):
            chk.violation('reply.iff', f'upstream-established-but-client-not-told:socks5-request-ver-{ver}', f'{name}: the tunnel was established and relayed (echo came back) but the client received {got[:24]!r} - no SOCKS5 success reply', replay)
        elif got and got[0] != 5:
            chk.violation('reply.wellformed', f'reply-in-another-protocol:socks5-request-ver-{ver}', f'{name}: a SOCKS5 session was answered with {got[:12].hex()}', replay)

# ---- a session that was told 'established' and ends later (idle timeout, relay error) must not get a second reply:
#      UDP associations keep their control connection open while they relay
def after_success(name, opener, success_len):
    global evals
    evals += 1
    try:
        s, first = opener()
    except OSError as e:
        machinery(f'{name}: {e!r}')
    if first is None:
        chk.violation('reply.iff', f'udp-session-refused:{name}', f'{name}: not established', {'case': name})
        return
    extra, how = recv_until_eof(s, 4)
    s.close()
    distinct.add((name, 'extra' if extra else 'clean', how))
    if extra:
        chk.violation('reply.once', f'second-reply-after-success:{name}', f'{name}: after the success reply {first.hex()[:40]} the session ended ({how}) and the client was sent {extra[:60]!r}', {'case': name, 'first': first.hex(), 'then': extra.hex()})
    elif how not in ('eof', 'reset'):
        chk.violation('reply.close', f'control-connection-left-open:{name}', f'{name}: udp idle timeout is 1 s, the control connection is still open after 4 s', {'case': name})

# ---- UDP requests through an upstream proxy that refuses / closes / accepts: 'established' iff it accepted
def udp_via(kind, client):
    def f():
        if client == 'socks5':
            s, r = socks5_connect(UDPL[kind], '0.0.0.0', 0, cmd=3, timeout=5)
            extra, how = (b'', None) if r['rep'] == 0 else recv_until_eof(s, 3)
            s.close()
            if r['rep'] == 0:
                return 'established', None, False, r['reply']
            if r['rep'] is None:
                return 'nothing', None, True, r['reply']
            return 'failure', (None if len(r['reply']) >= 10 and not extra else f"reply {r['reply'].hex()} + {extra[:16].hex()}"), how in ('eof', 'reset'), r['reply']
        port = {'u403': 1403, 'uclose': 1404, 'u200': 1200}[kind]
        return http_bad(b'Proxy-Protocol: udp\r\n', target=f'10.9.8.7:{port}')()
    return f
def expect_established(name, fn):
    global evals
    evals += 1
    try:
        told, malformed, closed, raw = fn()
    except OSError as e:
        told, malformed, closed, raw = 'error', repr(e), False, b''
    distinct.add((name, told))
    if told != 'established':
        chk.violation('reply.iff', f'upstream-established-but-client-told-{told}:{name}', f'{name}: {raw[:60]!r}', {'case': name})

def assoc_idle():
    s, r = socks5_connect(sp, '0.0.0.0', 0, cmd=3, timeout=5)
    return s, (r['reply'] if r['rep'] == 0 else None)
def assoc_used_then_idle():
    s, r = socks5_connect(sp, '0.0.0.0', 0, cmd=3, timeout=5)
    if r['rep'] != 0:
        return s, None
    u = socket.socket(socket.AF_INET, socket.SOCK_DGRAM)
    u.sendto(b'\0\0\0' + socks5_addr('127.0.0.1', closed_port) + b'ping', ('127.0.0.1', struct.unpack('>H', r['reply'][8:10])[0]))
    u.close()
    return s, r['reply']
def http_udp_idle():
    s, code, head, rest = http_connect(hp, '127.0.0.1:9', extra_headers=b'Proxy-Protocol: udp\r\n', timeout=5)
    return s, (head if code == 200 else None)
for client in ('socks5', 'http'):
    special(f'{client}-udp-upstream-says-403', udp_via('u403', client), True)
    special(f'{client}-udp-upstream-closes', udp_via('uclose', client), True)
    expect_established(f'{client}-udp-upstream-accepts', udp_via('u200', client))
# legal spellings of a request the listener must serve: header fields without the optional blank
for hname, hdrs in (('nospace', b'Host:127.0.0.1\r\nX-A:b\r\n'), ('spaces', b'Host:   127.0.0.1  \r\nX-Empty:\r\n')):
    expect_established(f'http-request-header-{hname}', lambda hdrs=hdrs: http_bad(hdrs)())
# a blank-only line in the upstream's head: the rest of the head must not arrive as tunnel payload
def leak():
    s, code, head, rest = http_connect(hp, 'blankline.test:1001', timeout=5)
    more, how = recv_until_eof(s, 1.5)
    s.close()
    return code, rest + more
evals += 1
code, data = leak()
distinct.add(('blankline', code, bool(data)))
if b'must-not-leak' in data:
    chk.violation('reply.wellformed', 'upstream-head-leaks-into-tunnel:blank-line', f'an upstream head containing a line of blanks: the client was told {code} and received the rest of the head as payload: {data[:60]!r}', {'reply_code': code, 'payload': data[:200].hex()})


after_success('socks5-udp-associate-idle-timeout', assoc_idle, 10)
after_success('socks5-udp-associate-datagram-to-closed-port-then-idle', assoc_used_then_idle, 10)
after_success('http-udp-inline-idle-timeout', http_udp_idle, 0)

alive = px.alive()
if not alive:
    chk.violation('process', 'proxy-died', f'proxy exited with {px.returncode()}: {px.log()[-400:]}', {})
px.stop()
for o in (echo4, echo6, uph, ups, up403, upclose, up200):
    o.stop()
if evals < 50 or len(distinct) < 6:
    machinery(f'vacuous: evals={evals} distinct={len(distinct)}')
cov = {'evaluations': evals, 'distinct_nontrivial': len(distinct), 'transitions': evals, 'traces_validated_against_impl': evals,
       'rule': 'real binary: client protocol {http, socks5, socks4/4a} x 33 routes (direct v4/v6/refused; an http upstream that refuses with 1..40000 bytes of explanation in its headers; http, socks5, socks4 upstreams behaving ok / saying no / closing mid-handshake / sending garbage; denied; no rule; upstream port closed) + BIND, unknown command, UDP not allowed, 3 authentication failures, 4 HTTP requests the listener cannot serve (UDP channel it does not offer, unknown protocol, target without port); UDP requests (socks5 associate, http CONNECT udp) through an http upstream that answers 403 / closes / accepts; UDP sessions (socks5 associate idle / after a datagram to a closed port, http inline) ending by idle timeout after their success reply must get nothing more; reply parsed strictly, echo round trip decides whether the tunnel really works',
       'clients': CLIENTS, 'routes': len(ROUTES), 'schedule_control': 'kernel', 'samples': samples}
sys.exit(chk.finish('model_checking', cov, ['E4 part: fake upstream proxies in Python decide their behaviour from the requested host name']))
