#!/usr/bin/env python3
"""C14 (real binary): stall matrix. For every stalled state - a client stopped after k bytes of its handshake for
every k and every TCP listener protocol (incl. before / inside / after the TLS handshake), an authentication command
that hangs, a request stuck on an upstream that never answers (direct SYN black hole excluded: loopback), a tunnel
blocked on a peer that does not read (both directions, both I/O modes), and all of them at once - every management
API call and a fresh echo round trip on every listener must complete within the deadline."""
import sys, json, ssl, select
sys.path.insert(0, '/verif/e4')
from lib import *
from lib import _echo_loop

chk = Check('C14')
ensure_certs()
THOROUGH = tier() == 'thorough'
DEADLINE = 3.0
echo = Origin('echo')

def noread(c, a, rec):
    time.sleep(600)
deaf = Origin(noread)              # accepts, never reads, never writes
def burst(c, a, rec):
    c.settimeout(600)
    try:
        c.sendall(b'\xa5' * (64 << 20))
    except OSError:
        pass
    time.sleep(600)
flood = Origin(burst)              # writes as fast as it is allowed to, for ever
slow_http = Origin(fake_http_proxy)    # host slow.test: never answers
slow_socks = Origin(fake_socks_proxy)
def silent(c, a, rec):
    time.sleep(600)
mute = Origin(silent)              # upstream proxy that accepts the TCP connection and says nothing

scratch = tempfile.mkdtemp(prefix='c14-', dir=RUNDIR)
hang = os.path.join(scratch, 'hang.sh')
open(hang, 'w').write('#!/bin/sh\n[ "$1" = hang ] && exec sleep 600\n[ "$1" = cu ] && [ "$2" = cp ]\n')
os.chmod(hang, 0o755)
TLSS = {'cert': f'{CERTS}/server.crt', 'key': f'{CERTS}/server.key'}
TLSC = {'ca': f'{CERTS}/ca.crt'}

def mk(splice):
    p = {k: free_port() for k in ('http', 'https', 'socks', 'sockss', 'socksa', 'rev', 'revdeaf', 'revflood', 'quic', 'api', 'qhop')}
    cfg = {'listeners': [
        {'name': 'http', 'bind': f"127.0.0.1:{p['http']}"},
        {'name': 'https', 'type': 'http', 'bind': f"127.0.0.1:{p['https']}", 'tls': TLSS},
        {'name': 'socks', 'bind': f"127.0.0.1:{p['socks']}"},
        {'name': 'sockss', 'type': 'socks', 'bind': f"127.0.0.1:{p['sockss']}", 'tls': TLSS},
        {'name': 'socksa', 'type': 'socks', 'bind': f"127.0.0.1:{p['socksa']}", 'auth': {'required': True, 'cmd': ['/bin/sh', hang, '#USER#', '#PASS#'], 'cache': {'timeout': 1}}},
        {'name': 'rev', 'type': 'reverse', 'bind': f"127.0.0.1:{p['rev']}", 'target': f'127.0.0.1:{echo.port}'},
        {'name': 'revdeaf', 'type': 'reverse', 'bind': f"127.0.0.1:{p['revdeaf']}", 'target': f'127.0.0.1:{deaf.port}'},
        {'name': 'revflood', 'type': 'reverse', 'bind': f"127.0.0.1:{p['revflood']}", 'target': f'127.0.0.1:{flood.port}'},
        {'name': 'quic', 'type': 'quic', 'bind': f"127.0.0.1:{p['quic']}", 'tls': TLSS}],
        'connectors': [{'name': 'direct'},
                       {'name': 'slowhttp', 'type': 'http', 'server': '127.0.0.1', 'port': slow_http.port},
                       {'name': 'slowsocks', 'type': 'socks', 'server': '127.0.0.1', 'port': slow_socks.port},
                       {'name': 'mutehttp', 'type': 'http', 'server': '127.0.0.1', 'port': mute.port},
                       {'name': 'mutesocks', 'type': 'socks', 'server': '127.0.0.1', 'port': mute.port},
                       {'name': 'mutetls', 'type': 'http', 'server': 'localhost', 'port': mute.port, 'tls': TLSC}],
        'rules': [{'filter': 'request.target.host == "slow.test" && request.target.port == 1', 'target': 'slowhttp'},
                  {'filter': 'request.target.host == "slow.test" && request.target.port == 2', 'target': 'slowsocks'},
                  {'filter': 'request.target.host == "mute.test" && request.target.port == 1', 'target': 'mutehttp'},
                  {'filter': 'request.target.host == "mute.test" && request.target.port == 2', 'target': 'mutesocks'},
                  {'filter': 'request.target.host == "mute.test" && request.target.port == 3', 'target': 'mutetls'},
                  {'target': 'direct'}],
        'accessLog': {'path': 'access.log', 'format': 'json'},
        'metrics': {'bind': f"127.0.0.1:{p['api']}", 'ui': None, 'historySize': 50},
        'ioParams': {'bufferSize': 65536, 'useSplice': splice}}
    px = Proxy(cfg, 'c14')
    px.api_port = p['api']
    if not px.start([p['http'], p['https'], p['socks'], p['sockss'], p['socksa'], p['rev'], p['api']]):
        machinery('proxy did not start: ' + px.log()[-600:])
    # a second proxy whose only job is to be a QUIC client of the first one
    hop = Proxy({'listeners': [{'name': 'http', 'bind': f"127.0.0.1:{p['qhop']}"}],
                 'connectors': [{'name': 'q', 'type': 'quic', 'server': 'localhost', 'port': p['quic'], 'bind': '127.0.0.1:0', 'tls': TLSC}],
                 'rules': [{'target': 'q'}]}, 'c14q')
    if not hop.start([p['qhop']]):
        machinery('quic hop did not start: ' + hop.log()[-600:])
    return px, hop, p

def tls_ctx():
    return ssl.create_default_context(cafile=f'{CERTS}/ca.crt')

def client_hello():
    inc, out = ssl.MemoryBIO(), ssl.MemoryBIO()
    o = tls_ctx().wrap_bio(inc, out, server_hostname='localhost')
    try:
        o.do_handshake()
    except ssl.SSLWantReadError:
        pass
    return out.read()
HELLO = client_hello()

HTTP_REQ = f'CONNECT 127.0.0.1:{echo.port} HTTP/1.1\r\nHost: 127.0.0.1:{echo.port}\r\nProxy-Connection: keep-alive\r\n\r\n'.encode()
S5_REQ = b'\x05\x02\x00\x02' + b'\x05\x01\x00\x03\x09localhost' + struct.pack('>H', echo.port)
S5A_REQ = b'\x05\x01\x02' + b'\x01\x02cu\x02cp' + b'\x05\x01\x00\x01\x7f\x00\x00\x01' + struct.pack('>H', echo.port)
S4_REQ = b'\x04\x01' + struct.pack('>H', echo.port) + b'\x7f\x00\x00\x01' + b'userid\x00'
S4A_REQ = b'\x04\x01' + struct.pack('>H', echo.port) + b'\x00\x00\x00\x01' + b'userid\x00' + b'localhost\x00'

def ks(req, every):
    n = len(req)
    return sorted(set(range(0, n, 1 if THOROUGH else every)) | {0, 1, n - 1})

def states(p):
    """(kind, parameter, opener) - opener() returns a list of sockets to keep open"""
    out = []
    def plain(port, data):
        def f():
            s = socket.create_connection(('127.0.0.1', port), timeout=3)
            if data:
                s.sendall(data)
            return [s]
        return f
    def behind_tls(port, data):
        def f():
            s = tls_ctx().wrap_socket(socket.create_connection(('127.0.0.1', port), timeout=3), server_hostname='localhost')
            if data:
                s.sendall(data)
            return [s]
        return f
    for k in ks(HTTP_REQ, 5):
        out.append(('http-handshake', k, plain(p['http'], HTTP_REQ[:k])))
    for k in ks(S5_REQ, 2):
        out.append(('socks5-handshake', k, plain(p['socks'], S5_REQ[:k])))
    for k in ks(S5A_REQ, 2):
        out.append(('socks5-auth-handshake', k, plain(p['socksa'], S5A_REQ[:k])))
    for k in ks(S4_REQ, 2):
        out.append(('socks4-handshake', k, plain(p['socks'], S4_REQ[:k])))
    for k in ks(S4A_REQ, 3):
        out.append(('socks4a-handshake', k, plain(p['socks'], S4A_REQ[:k])))
    for k in sorted({0, 1, 5, 6, len(HELLO) // 2, len(HELLO) - 1}):
        out.append(('https-inside-tls-handshake', k, plain(p['https'], HELLO[:k])))
        out.append(('sockss-inside-tls-handshake', k, plain(p['sockss'], HELLO[:k])))
    for k in ks(HTTP_REQ, 11):
        out.append(('https-handshake', k, behind_tls(p['https'], HTTP_REQ[:k])))
    for k in ks(S5_REQ, 5):
        out.append(('sockss-handshake', k, behind_tls(p['sockss'], S5_REQ[:k])))
    # the authentication command never returns
    out.append(('auth-command-hangs', 0, plain(p['socksa'], b'\x05\x01\x02' + b'\x01\x04hang\x01x' + S5A_REQ[10:])))
    # requests stuck on an upstream
    def stuck(lport, host, port, proto):
        def f():
            s = socket.create_connection(('127.0.0.1', lport), timeout=3)
            if proto == 'http':
                s.sendall(f'CONNECT {host}:{port} HTTP/1.1\r\n\r\n'.encode())
            else:
                s.sendall(b'\x05\x01\x00' + b'\x05\x01\x00\x03' + bytes([len(host)]) + host.encode() + struct.pack('>H', port))
            return [s]
        return f
    for host, port, what in (('slow.test', 1, 'http-upstream-never-replies'), ('slow.test', 2, 'socks-upstream-never-replies'),
                             ('mute.test', 1, 'http-upstream-mute'), ('mute.test', 2, 'socks-upstream-mute'), ('mute.test', 3, 'tls-upstream-mute')):
        out.append((f'stuck-on-{what}', 'via-http', stuck(p['http'], host, port, 'http')))
        out.append((f'stuck-on-{what}', 'via-socks5', stuck(p['socks'], host, port, 'socks')))
    # tunnels blocked on a peer that does not read
    def blocked_up(lname):
        def f():
            if lname == 'rev':
                s = socket.create_connection(('127.0.0.1', p['revdeaf']), timeout=3)
            elif lname == 'http':
                s, code, head, rest = http_connect(p['http'], f'127.0.0.1:{deaf.port}')
            else:
                s, r = socks5_connect(p['socks'], '127.0.0.1', deaf.port)
            s.setblocking(False)
            sent = 0
            t = time.time()
            idle = 0
            while sent < (256 << 20) and time.time() - t < 8 and idle < 6:
                try:
                    sent += s.send(b'\x5a' * 65536)
                    idle = 0
                except BlockingIOError:
                    idle += 1
                    time.sleep(0.05)
                except OSError:
                    break
            return [s]
        return f
    def blocked_down(lname):
        def f():
            if lname == 'rev':
                s = socket.create_connection(('127.0.0.1', p['revflood']), timeout=3)
            elif lname == 'http':
                s, code, head, rest = http_connect(p['http'], f'127.0.0.1:{flood.port}')
            else:
                s, r = socks5_connect(p['socks'], '127.0.0.1', flood.port)
            time.sleep(0.4)   # never read: the flood backs up into the proxy
            return [s]
        return f
    for l in ('http', 'socks5', 'rev'):
        out.append(('tunnel-blocked-origin-not-reading', l, blocked_up(l)))
        out.append(('tunnel-blocked-client-not-reading', l, blocked_down(l)))
    return out

RULES_BODY = None
def probes(px, hop, p):
    """(name, fn) - fn returns None or an error string; each must finish within DEADLINE"""
    def api(method, path, body=None):
        def f():
            st, data = px.api(method, path, body() if callable(body) else body, timeout=DEADLINE)
            if st is None:
                return f'no answer: {data[:80]!r}'
            if st >= 500:
                return f'status {st}'
        return f
    def rt(s, rest=b''):
        msg = b'probe-%d' % int(time.time() * 1e6)
        s.settimeout(DEADLINE)
        s.sendall(msg)
        got = rest + recv_exact(s, len(msg) - len(rest), DEADLINE)
        s.close()
        return None if got == msg else f'echo {got!r}'
    def via_http(port, tls=False):
        def f():
            s = socket.create_connection(('127.0.0.1', port), timeout=DEADLINE)
            if tls:
                s = tls_ctx().wrap_socket(s, server_hostname='localhost')
            s2, code, head, rest = http_connect(None, f'127.0.0.1:{echo.port}', sock=s, timeout=DEADLINE)
            if code != 200:
                s.close()
                return f'CONNECT -> {head[:40]!r}'
            return rt(s, rest)
        return f
    def via_socks5(port, tls=False, userpass=None):
        def f():
            s = socket.create_connection(('127.0.0.1', port), timeout=DEADLINE)
            if tls:
                s = tls_ctx().wrap_socket(s, server_hostname='localhost')
            s2, r = socks5_connect(None, '127.0.0.1', echo.port, sock=s, timeout=DEADLINE, methods=(2,) if userpass else (0,), userpass=userpass)
            if r['rep'] != 0:
                s.close()
                return f'socks5 -> {r}'
            return rt(s)
        return f
    def via_socks4():
        s, r = socks4_connect(p['socks'], '127.0.0.1', echo.port, timeout=DEADLINE)
        if len(r) < 2 or r[1] != 90:
            s.close()
            return f'socks4 -> {r.hex()}'
        return rt(s)
    def via_rev():
        return rt(socket.create_connection(('127.0.0.1', p['rev']), timeout=DEADLINE))
    return [
        ('api:GET /live', api('GET', '/live')), ('api:GET /status', api('GET', '/status')), ('api:GET /history', api('GET', '/history')),
        ('api:GET /metrics', api('GET', '/metrics')), ('api:GET /rules', api('GET', '/rules')),
        ('api:POST /rules', api('POST', '/rules', lambda: RULES_BODY)), ('api:POST /logrotate', api('POST', '/logrotate', '')),
        ('fresh:http', via_http(p['http'])), ('fresh:https', via_http(p['https'], True)), ('fresh:socks5', via_socks5(p['socks'])),
        ('fresh:socks5+tls', via_socks5(p['sockss'], True)), ('fresh:socks5+auth', via_socks5(p['socksa'], userpass=(b'cu', b'cp'))),
        ('fresh:socks4', via_socks4), ('fresh:reverse', via_rev), ('fresh:quic', via_http(p['qhop'])),
        ('api:GET /live (again)', api('GET', '/live')), ('api:GET /rules (again)', api('GET', '/rules')),
    ]

def run_probe(fn):
    res = {}
    def w():
        try:
            res['r'] = fn()
        except Exception as e:
            res['r'] = f'exception {e!r}'[:160]
    t0 = time.time()
    th = threading.Thread(target=w, daemon=True)
    th.start()
    th.join(DEADLINE + 1.5)
    dt = time.time() - t0
    if th.is_alive():
        return 'blocked', dt
    if res.get('r') is not None:
        return ('blocked' if dt >= DEADLINE else 'failed') + ':' + str(res['r']), dt
    if dt >= DEADLINE:
        return 'slow', dt
    return None, dt

evals = 0
worst = 0.0
distinct = set()
samples = []
nstates = 0
for splice in (True, False):
    px, hop, p = mk(splice)
    st, RULES_BODY = px.api('GET', '/rules')
    if st != 200:
        machinery(f'GET /rules -> {st}')
    pr = probes(px, hop, p)
    # the probes themselves must work on an idle proxy, or nothing below means anything
    for name, fn in pr:
        v, dt = run_probe(fn)
        if v:
            machinery(f'probe {name} fails on an idle proxy (useSplice={splice}): {v}')
    sts = states(p)
    if not THOROUGH and not splice:
        sts = [s for s in sts if s[0].startswith('tunnel-blocked') or s[0].startswith('stuck') or s[1] in (0, 1)]
    held_all = []
    wedged = False
    for phase in ('each state alone', 'all states together'):
        for kind, param, opener in sts:
            if phase == 'all states together' and not THOROUGH and isinstance(param, int) and param % 3:
                continue
            try:
                held = opener()
            except Exception as e:
                if any(v['known'] is None for v in chk.sigs.values()):
                    # probes already failed: a listener that no longer lets a client in is part of that failure
                    chk.violation(f'stall.{kind}', 'listener-no-longer-serves-new-clients', f'useSplice={splice}: after the violations above a client cannot even enter state {kind}/{param}: {e!r}', {'state': kind, 'k': param, 'useSplice': splice})
                    wedged = True
                    break
                machinery(f'cannot enter state {kind}/{param}: {e!r}')
            time.sleep(0.05)
            if phase == 'each state alone':
                nstates += 1
                for name, fn in pr:
                    v, dt = run_probe(fn)
                    evals += 1
                    worst = max(worst, dt)
                    distinct.add((kind, name))
                    if v:
                        what = v.split(':')[0]
                        chk.violation(f'stall.{kind}', f'{what}:{name}', f'useSplice={splice}: with one client in state {kind}/{param}, {name}: {v} after {dt:.1f}s', {'state': kind, 'k': param, 'probe': name, 'useSplice': splice})
                for s in held:
                    try:
                        s.close()
                    except OSError:
                        pass
            else:
                held_all += held
        if wedged:
            break
        if phase == 'all states together':
            time.sleep(0.3)
            for rnd in range(3):
                for name, fn in pr:
                    v, dt = run_probe(fn)
                    evals += 1
                    worst = max(worst, dt)
                    if v:
                        what = v.split(':')[0]
                        chk.violation('stall.all-at-once', f'{what}:{name}', f'useSplice={splice}: with {len(held_all)} clients stalled in every state at once, {name}: {v} after {dt:.1f}s', {'probe': name, 'useSplice': splice, 'stalled': len(held_all)})
            st, body = px.api('GET', '/live')
            try:
                nlive = len(json.loads(body))
            except Exception:
                nlive = -1
            samples.append({'useSplice': splice, 'stalled_clients_held': len(held_all), 'live_connections_reported': nlive})
    # ---- any NUMBER of stalled clients: many clients stalled in the same state (queues, permits and pools that are
    #      sized by a constant show only beyond that constant; the dispatcher queue holds 100)
    if not wedged and (THOROUGH or splice):
        MANY = 300 if THOROUGH else 130
        reps = {}
        for kind, param, opener in sts:
            if kind.endswith('handshake') and kind not in reps and (isinstance(param, int) and param >= 1):
                reps[kind] = (param, opener)
        for kind, (param, opener) in reps.items():
            crowd = []
            try:
                for i in range(MANY):
                    crowd += opener()
            except Exception as e:
                for c in crowd:
                    try: c.close()
                    except OSError: pass
                if any(v['known'] is None for v in chk.sigs.values()):
                    chk.violation(f'stall.many.{kind}', 'listener-no-longer-serves-new-clients', f'after the violations above client {len(crowd)} of {MANY} cannot enter state {kind}/{param}: {e!r}', {'state': kind, 'k': param})
                    break
                machinery(f'cannot open {MANY} clients in state {kind}/{param}: {e!r}')
            time.sleep(0.3)
            nstates += 1
            for name, fn in pr:
                v, dt = run_probe(fn)
                evals += 1
                worst = max(worst, dt)
                distinct.add(('many', kind, name))
                if v:
                    what = v.split(':')[0]
                    chk.violation(f'stall.many.{kind}', f'{what}:{name}', f'useSplice={splice}: with {MANY} clients stalled in state {kind}/{param} (and {len(held_all)} in the other states), {name}: {v} after {dt:.1f}s', {'state': kind, 'k': param, 'probe': name, 'stalled': MANY})
            for c in crowd:
                try: c.close()
                except OSError: pass
            time.sleep(0.2)
        samples.append({'many_stalled_in_one_state': MANY, 'states': list(reps)})
    if not px.alive():
        chk.violation('process', 'proxy-died', f'exit {px.returncode()}: {px.log()[-300:]}', {})
    for s in held_all:
        try:
            s.close()
        except OSError:
            pass
    px.stop(); hop.stop()
# ---- a QUIC client that never finishes its handshake (its Initial packets arrive, the answers are lost): other QUIC
#      clients must still be accepted. The "client" is a redproxy hop whose packets pass a one-way UDP forwarder.
class OneWayForwarder:
    def __init__(self, dst_port):
        self.f = socket.socket(socket.AF_INET, socket.SOCK_DGRAM)
        self.f.bind(('127.0.0.1', 0))
        self.port = self.f.getsockname()[1]
        self.u = socket.socket(socket.AF_INET, socket.SOCK_DGRAM)
        self.u.bind(('127.0.0.1', 0))
        self.dst = ('127.0.0.1', dst_port)
        self.forwarded = 0
        self.dropped = 0
        self.stop = False
        threading.Thread(target=self._up, daemon=True).start()
        threading.Thread(target=self._down, daemon=True).start()
    def _up(self):
        self.f.settimeout(0.2)
        while not self.stop:
            try:
                d, a = self.f.recvfrom(70000)
            except OSError:
                continue
            self.u.sendto(d, self.dst)
            self.forwarded += 1
    def _down(self):
        self.u.settimeout(0.2)
        while not self.stop:
            try:
                d, a = self.u.recvfrom(70000)
            except OSError:
                continue
            self.dropped += 1          # the answers never reach the client
    def close(self):
        self.stop = True
        time.sleep(0.3)
        self.f.close(); self.u.close()

def quic_hop(server_port, name):
    hp_ = free_port()
    h = Proxy({'listeners': [{'name': 'http', 'bind': f'127.0.0.1:{hp_}'}],
               'connectors': [{'name': 'q', 'type': 'quic', 'server': 'localhost', 'port': server_port, 'bind': '127.0.0.1:0', 'tls': TLSC}],
               'rules': [{'target': 'q'}]}, name)
    if not h.start([hp_]):
        machinery(f'{name} did not start: ' + h.log()[-300:])
    return h, hp_

pq = {k: free_port() for k in ('quic', 'api')}
pxq = Proxy({'listeners': [{'name': 'quic', 'type': 'quic', 'bind': f"127.0.0.1:{pq['quic']}", 'tls': TLSS}], 'connectors': [{'name': 'direct'}], 'rules': [{'target': 'direct'}],
             'metrics': {'bind': f"127.0.0.1:{pq['api']}", 'ui': None}}, 'c14ql')
pxq.api_port = pq['api']
if not pxq.start([pq['api']]):
    machinery('quic listener proxy did not start: ' + pxq.log()[-300:])
def through(hport, deadline):
    s, code, head, rest = http_connect(hport, f'127.0.0.1:{echo.port}', timeout=deadline)
    try:
        if code != 200:
            return f'CONNECT -> {head[:40]!r}'
        s.settimeout(deadline)
        s.sendall(b'ping')
        return None if recv_exact(s, 4, deadline) == b'ping' else 'no echo'
    finally:
        s.close()
h0, h0p = quic_hop(pq['quic'], 'c14q0')
v, dt = run_probe(lambda: through(h0p, DEADLINE))
if v:
    machinery(f'QUIC path does not work on an idle proxy: {v}')
fwd = OneWayForwarder(pq['quic'])
h1, h1p = quic_hop(fwd.port, 'c14q1')
def stalled():
    try:
        through(h1p, 8)
    except Exception:
        pass
threading.Thread(target=stalled, daemon=True).start()
t0 = time.time()
while fwd.forwarded == 0 and time.time() - t0 < 3:
    time.sleep(0.05)
time.sleep(0.5)
if fwd.forwarded == 0:
    machinery('the stalled QUIC client never sent its Initial')
h2, h2p = quic_hop(pq['quic'], 'c14q2')
for name, fn in (('fresh:quic (new connection)', lambda: through(h2p, DEADLINE)), ('fresh:quic (established connection)', lambda: through(h0p, DEADLINE)),
                 ('api:GET /live', lambda: (None if pxq.api('GET', '/live', timeout=DEADLINE)[0] == 200 else 'no answer'))):
    v, dt = run_probe(fn)
    evals += 1
    worst = max(worst, dt)
    distinct.add(('quic-handshake-stalled', name))
    if v:
        chk.violation('stall.quic-client-inside-handshake', f'{v.split(":")[0]}:{name}', f'with one QUIC client whose handshake never completes ({fwd.forwarded} packets from it arrived, {fwd.dropped} answers were lost on the way back), {name}: {v} after {dt:.1f}s', {'probe': name})
samples.append({'quic_stalled_handshake': {'client_packets': fwd.forwarded, 'answers_dropped': fwd.dropped}})
fwd.close()
for h in (h0, h1, h2, pxq):
    h.stop()

# ---- a UDP session whose client has stopped reading (UDP over the HTTP listener's inline frames, i.e. over TCP): its
#      answers pile up; other UDP sessions that reach their origin through the same upstream connector - for the QUIC
#      connector with the datagram channel: over the same connection and the same dispatch task - must keep being answered
class FloodOrigin:
    """UDP origin: b'flood<n>' is answered with n datagrams of 1200 bytes (paced), anything else is echoed behind an R"""
    def __init__(self):
        self.s = socket.socket(socket.AF_INET, socket.SOCK_DGRAM)
        self.s.bind(('127.0.0.1', 0))
        self.port = self.s.getsockname()[1]
        self.sent = 0
        threading.Thread(target=self._loop, daemon=True).start()
    def _loop(self):
        while True:
            try:
                d, a = self.s.recvfrom(70000)
            except OSError:
                return
            if d.startswith(b'flood'):
                for i in range(int(d[5:])):
                    try:
                        self.s.sendto(b'F' * 1200, a)
                        self.sent += 1
                    except OSError:
                        pass
                    if i % 5 == 4:
                        time.sleep(0.001)
            else:
                self.s.sendto(b'R' + d, a)
    def close(self):
        self.s.close()

def udp_session_stalled(kind):
    fo = FloodOrigin()
    q = {k: free_port() for k in ('quic', 'hapi', 'http', 'fapi', 'hhttp')}
    hop = Proxy({'listeners': [{'name': 'quic', 'type': 'quic', 'bind': f"127.0.0.1:{q['quic']}", 'tls': TLSS}, {'name': 'http', 'bind': f"127.0.0.1:{q['hhttp']}"}],
                 'connectors': [{'name': 'direct'}], 'rules': [{'target': 'direct'}], 'metrics': {'bind': f"127.0.0.1:{q['hapi']}", 'ui': None}}, 'c14uh')
    hop.api_port = q['hapi']
    if not hop.start([q['hapi'], q['hhttp']]):
        return {'error': 'hop: ' + hop.log()[-300:]}
    conn = {'quic-datagrams': {'name': 'c', 'type': 'quic', 'server': 'localhost', 'port': q['quic'], 'bind': '127.0.0.1:0', 'inlineUdp': False, 'tls': TLSC},
            'quic-inline': {'name': 'c', 'type': 'quic', 'server': 'localhost', 'port': q['quic'], 'bind': '127.0.0.1:0', 'inlineUdp': True, 'tls': TLSC},
            'http-inline': {'name': 'c', 'type': 'http', 'server': '127.0.0.1', 'port': q['hhttp']}}[kind]
    front = Proxy({'listeners': [{'name': 'http', 'bind': f"127.0.0.1:{q['http']}"}], 'connectors': [conn], 'rules': [{'target': 'c'}],
                   'metrics': {'bind': f"127.0.0.1:{q['fapi']}", 'ui': None}}, 'c14uf')
    front.api_port = q['fapi']
    if not front.start([q['http'], q['fapi']]):
        hop.stop()
        return {'error': 'front: ' + front.log()[-300:]}
    try:
        def session(rcvbuf=None):
            s = socket.socket()
            if rcvbuf:
                s.setsockopt(socket.SOL_SOCKET, socket.SO_RCVBUF, rcvbuf)
            s.settimeout(5)
            s.connect(('127.0.0.1', q['http']))
            s2, code, head, rest = http_connect(q['http'], f'127.0.0.1:{fo.port}', extra_headers=b'Proxy-Protocol: udp\r\n', timeout=5, sock=s)
            return s if code == 200 else None
        def ask(s, payload, timeout=DEADLINE):
            s.sendall(rpfm_frame(0, '127.0.0.1', fo.port, payload))
            t = time.time()
            while time.time() - t < timeout:
                r = rpfm_read(s, timeout)
                if r is None:
                    return None
                if r[2] == b'R' + payload:
                    return time.time() - t
            return None
        b = session()
        if b is None or ask(b, b'before') is None:
            return {'error': 'the other session does not work before the scenario'}
        a = session(rcvbuf=4096)
        if a is None:
            return {'error': 'the session that will stall was refused'}
        for i in range(5):
            a.sendall(rpfm_frame(0, '127.0.0.1', fo.port, b'flood2500'))
            time.sleep(0.55)
        time.sleep(0.7)
        aport, txq = a.getsockname()[1], 0
        for l in open('/proc/net/tcp').read().split('\n')[1:]:
            f = l.split()
            if len(f) > 4 and f[2].endswith(':%04X' % aport):
                txq = int(f[4].split(':')[0], 16)
        rts = []
        for i in range(4):
            dt = ask(b, f'probe{i}'.encode())
            rts.append(None if dt is None else round(dt, 3))
            if dt is None and i >= 1:
                break
            time.sleep(0.2)
        c = session()
        fresh = None if c is None else ask(c, b'fresh')
        st, _ = front.api('GET', '/live', timeout=DEADLINE)
        return {'kind': kind, 'flood_datagrams': fo.sent, 'unsent_bytes_queued_for_the_stalled_client': txq, 'other_session_round_trips': rts,
                'fresh_session_round_trip': None if fresh is None else round(fresh, 3), 'api_live': st, 'alive': front.alive() and hop.alive()}
    finally:
        front.stop(); hop.stop(); fo.close()

UKINDS = ['quic-datagrams', 'quic-inline', 'http-inline']
for kind, r in zip(UKINDS, run_parallel(UKINDS, udp_session_stalled, workers=3)):
    evals += 1
    if isinstance(r, tuple) or 'error' in r:
        machinery(f'stalled UDP session via {kind}: {r}')
    if not (isinstance(r, tuple) or 'error' in r) and r['unsent_bytes_queued_for_the_stalled_client'] < 50_000:
        # the flood did not pile up behind the client that stopped reading (datagrams are droppable): once more, alone
        r = udp_session_stalled(kind)
        if isinstance(r, tuple) or 'error' in r:
            machinery(f'stalled UDP session via {kind} (second try): {r}')
    if r['unsent_bytes_queued_for_the_stalled_client'] < 50_000:
        machinery(f'stalled UDP session via {kind}: the client that stopped reading has only {r["unsent_bytes_queued_for_the_stalled_client"]} bytes queued - the scenario did not build up')
    lost = [x for x in r['other_session_round_trips'] if x is None]
    distinct.add(('udp-session-stalled', kind, bool(lost), r['fresh_session_round_trip'] is None))
    rp = {'connector': kind, 'observed': r}
    if lost:
        chk.violation('stall.udp-session-not-read', f'blocked:other-udp-session:{kind}', f'one UDP-over-TCP client stopped reading ({r["unsent_bytes_queued_for_the_stalled_client"]} bytes queued for it): another UDP session through the same {kind} connector got no answer within {DEADLINE} s (round trips {r["other_session_round_trips"]})', rp)
    if r['fresh_session_round_trip'] is None:
        chk.violation('stall.udp-session-not-read', f'blocked:fresh-udp-session:{kind}', f'one UDP-over-TCP client stopped reading: a new UDP session through the same {kind} connector got no answer within {DEADLINE} s', rp)
    if r['api_live'] != 200 or not r['alive']:
        chk.violation('stall.udp-session-not-read', f'blocked:api:{kind}', f'GET /live -> {r["api_live"]}, processes alive: {r["alive"]}', rp)
    samples.append({'udp_session_stalled': r})

# ---- a UDP listener (reverse) has ONE receive loop for all its clients: a client whose session cannot get rid of its
#      datagrams (its upstream proxy accepted the connection and never answers; or answers and never reads) and who
#      keeps sending must not stop the loop for the others
def reverse_udp_client_stalled(kind):
    uo = UdpOrigin()
    up = Origin(silent if kind == 'upstream never answers' else noread_after_200)
    rp, ap = free_port('udp'), free_port()
    a = socket.socket(socket.AF_INET, socket.SOCK_DGRAM); a.bind(('127.0.0.1', 0))
    b = socket.socket(socket.AF_INET, socket.SOCK_DGRAM); b.bind(('127.0.0.1', 0)); b.settimeout(DEADLINE)
    cfg = {'listeners': [{'name': 'rev', 'type': 'reverse', 'protocol': 'udp', 'bind': f'127.0.0.1:{rp}', 'target': f'127.0.0.1:{uo.port}'}],
           'connectors': [{'name': 'direct'}, {'name': 'h', 'type': 'http', 'server': '127.0.0.1', 'port': up.port}],
           'rules': [{'filter': f'request.source.port == {a.getsockname()[1]}', 'target': 'h'}, {'target': 'direct'}],
           'metrics': {'bind': f'127.0.0.1:{ap}', 'ui': None}}
    px = Proxy(cfg, 'c14r')
    px.api_port = ap
    if not px.start([ap]):
        return {'error': px.log()[-300:]}
    try:
        def ask(sock, payload):
            sock.sendto(payload, ('127.0.0.1', rp))
            t = time.time()
            while time.time() - t < DEADLINE:
                try:
                    d, _ = sock.recvfrom(70000)
                except OSError:
                    return None
                if d == b'R' + payload:
                    return round(time.time() - t, 3)
            return None
        if ask(b, b'before') is None:
            return {'error': 'the other client is not served before the scenario'}
        # once a session exists its own connected socket takes the client's datagrams: the receive loop only meets
        # what arrived before that. The burst is therefore delivered while the proxy is not scheduled (SIGSTOP - the
        # schedule a loaded machine produces by itself): 300 datagrams wait on the listener's socket when it resumes
        os.kill(px.proc.pid, signal.SIGSTOP)
        try:
            for i in range(300):
                a.sendto(b'A%04d' % i + b'x' * 60, ('127.0.0.1', rp))
        finally:
            os.kill(px.proc.pid, signal.SIGCONT)
        time.sleep(0.5)
        rts = [ask(b, b'probe%d' % i) for i in range(3)]
        c = socket.socket(socket.AF_INET, socket.SOCK_DGRAM); c.bind(('127.0.0.1', 0)); c.settimeout(DEADLINE)
        fresh = ask(c, b'fresh')
        st, _ = px.api('GET', '/live', timeout=DEADLINE)
        c.close()
        return {'kind': kind, 'other_client_round_trips': rts, 'fresh_client_round_trip': fresh, 'api_live': st, 'alive': px.alive()}
    finally:
        px.stop(); uo.stop(); up.stop(); a.close(); b.close()

def noread_after_200(c, a, rec):
    recv_head(c, 10)
    c.sendall(b'HTTP/1.1 200 OK\r\n\r\n')
    time.sleep(60)

RKINDS = ['upstream never answers', 'upstream answers and never reads']
for kind, r in zip(RKINDS, run_parallel(RKINDS, reverse_udp_client_stalled, workers=2)):
    evals += 1
    if isinstance(r, tuple) or 'error' in r:
        machinery(f'reverse UDP listener, {kind}: {r}')
    lost = [x for x in r['other_client_round_trips'] if x is None]
    distinct.add(('reverse-udp-client-stalled', kind, bool(lost), r['fresh_client_round_trip'] is None))
    rp_ = {'case': kind, 'observed': r}
    if lost:
        chk.violation('stall.udp-listener', f'blocked:other-udp-client:{kind}', f'reverse UDP listener: one client sent a burst of 300 datagrams into a session whose {kind}: another client of the listener got no answer within {DEADLINE} s (round trips {r["other_client_round_trips"]})', rp_)
    if r['fresh_client_round_trip'] is None:
        chk.violation('stall.udp-listener', f'blocked:fresh-udp-client:{kind}', f'reverse UDP listener: one client sent a burst of 300 datagrams into a session whose {kind}: a new client of the listener got no answer within {DEADLINE} s', rp_)
    if r['api_live'] != 200 or not r['alive']:
        chk.violation('stall.udp-listener', f'blocked:api:{kind}', f'reverse UDP listener with a stalled session: GET /live -> {r["api_live"]}, process alive: {r["alive"]}', rp_)
    samples.append({'reverse_udp_client_stalled': r})

# ---- a failure reply is written to a client that does not read it: however long the text of the failure (a refused
#      destination is quoted in it, and the client chose the destination), the API goes on answering
def unread_failure_reply():
    up = Origin(fake_http_proxy)
    hp_, ap_ = free_port(), free_port()
    pxu = Proxy({'listeners': [{'name': 'http', 'bind': f'127.0.0.1:{hp_}'}], 'connectors': [{'name': 'c', 'type': 'http', 'server': '127.0.0.1', 'port': up.port}], 'rules': [{'target': 'c'}],
                 'metrics': {'bind': f'127.0.0.1:{ap_}', 'ui': None}}, 'c14f')
    pxu.api_port = ap_
    if not pxu.start([hp_, ap_]):
        return {'error': pxu.log()[-300:]}
    held = []
    try:
        st0, _ = pxu.api('GET', '/live', timeout=DEADLINE)
        for host in (b'a:' + b'"' * 60000, b'b:' + b'x' * 64000):
            c = socket.socket()
            c.setsockopt(socket.SOL_SOCKET, socket.SO_RCVBUF, 2048)
            try:
                c.setsockopt(socket.IPPROTO_TCP, socket.TCP_MAXSEG, 256)
            except OSError:
                pass
            c.settimeout(5)
            c.connect(('127.0.0.1', hp_))
            c.sendall(b'CONNECT ' + host + b':80 HTTP/1.1\r\n\r\n')
            held.append(c)      # ... and never reads
        time.sleep(1.0)
        t = time.time()
        st, _ = pxu.api('GET', '/live', timeout=DEADLINE)
        dt = time.time() - t
        st2, _ = pxu.api('GET', '/status', timeout=DEADLINE)
        # a well-behaved client is still served
        try:
            s_, code, head, rest = http_connect(hp_, 'ok.test:80', timeout=DEADLINE)
            served = code == 200
            s_.close()
        except OSError:
            served = False
        return {'live_before': st0, 'live': st, 'live_s': round(dt, 2), 'status': st2, 'new_client_served': served, 'alive': pxu.alive()}
    finally:
        for c in held:
            try: c.close()
            except OSError: pass
        pxu.stop(); up.stop()
r = unread_failure_reply()
evals += 1
if isinstance(r, tuple) or 'error' in r or r['live_before'] != 200:
    machinery(f'unread failure reply: {r}')
distinct.add(('unread-failure-reply', r['live'], r['new_client_served']))
if r['live'] != 200 or r['status'] != 200:
    chk.violation('stall.unread-failure-reply', 'blocked:api:GET /live', f'two clients asked for destinations the upstream connector refuses (64 kB host names) and do not read the failure reply: GET /live -> {r["live"]} after {r["live_s"]} s, GET /status -> {r["status"]}', {'observed': r})
if not r['new_client_served'] or not r['alive']:
    chk.violation('stall.unread-failure-reply', 'blocked:fresh:http', f'with two clients not reading their failure reply a new client was not served ({r})', {'observed': r})
samples.append({'unread_failure_reply': r})

# ---- tunnels blocked on a slow peer, all of them multiplexed over ONE upstream connection (QUIC connector -> QUIC
#      listener): whatever the blocked ones hold (stream windows, connection window, buffers), the other tunnels on that
#      connection and new requests through it are still served. 8 and (thorough) 24 clients that never read a flood.
def quic_tunnels_blocked(nblocked):
    q = {k: free_port() for k in ('quic', 'hapi', 'http', 'fapi')}
    hopq = Proxy({'listeners': [{'name': 'quic', 'type': 'quic', 'bind': f"127.0.0.1:{q['quic']}", 'tls': TLSS}], 'connectors': [{'name': 'direct'}], 'rules': [{'target': 'direct'}],
                  'metrics': {'bind': f"127.0.0.1:{q['hapi']}", 'ui': None}}, 'c14qh')
    hopq.api_port = q['hapi']
    if not hopq.start([q['hapi']]):
        return {'error': 'hop: ' + hopq.log()[-300:]}
    front = Proxy({'listeners': [{'name': 'http', 'bind': f"127.0.0.1:{q['http']}"}],
                   'connectors': [{'name': 'c', 'type': 'quic', 'server': 'localhost', 'port': q['quic'], 'bind': '127.0.0.1:0', 'tls': TLSC}], 'rules': [{'target': 'c'}],
                   'metrics': {'bind': f"127.0.0.1:{q['fapi']}", 'ui': None}}, 'c14qf')
    front.api_port = q['fapi']
    if not front.start([q['http'], q['fapi']]):
        hopq.stop()
        return {'error': 'front: ' + front.log()[-300:]}
    held = []
    try:
        healthy, code, head, rest = http_connect(q['http'], f'127.0.0.1:{echo.port}', timeout=DEADLINE)
        if code != 200:
            return {'error': f'healthy tunnel refused: {head[:40]!r}'}
        healthy.settimeout(DEADLINE)
        healthy.sendall(b'first'); 
        if recv_exact(healthy, 5, DEADLINE) != b'first':
            return {'error': 'healthy tunnel does not echo'}
        for i in range(nblocked):
            s_, code, head, rest = http_connect(q['http'], f'127.0.0.1:{flood.port}', timeout=DEADLINE)
            if code == 200:
                held.append(s_)           # never read: the flood backs up through both hops
        time.sleep(2.5)
        res = {}
        def probe(name, fn):
            t = time.time()
            try:
                ok = fn()
            except Exception:
                ok = False
            res[name] = (bool(ok), round(time.time() - t, 2))
        def est():
            healthy.sendall(b'again'); return recv_exact(healthy, 5, DEADLINE) == b'again'
        def fresh():
            s_, code, head, rest = http_connect(q['http'], f'127.0.0.1:{echo.port}', timeout=DEADLINE)
            s_.settimeout(DEADLINE); s_.sendall(b'ping'); r = recv_exact(s_, 4, DEADLINE); s_.close()
            return code == 200 and r == b'ping'
        probe('established:quic-tunnel', est)
        probe('fresh:quic-tunnel', fresh)
        for nm, pxx in (('front', front), ('hop', hopq)):
            probe(f'api:GET /live ({nm})', lambda pxx=pxx: pxx.api('GET', '/live', timeout=DEADLINE)[0] == 200)
            probe(f'api:GET /status ({nm})', lambda pxx=pxx: pxx.api('GET', '/status', timeout=DEADLINE)[0] == 200)
        probe('fresh:quic-tunnel (again)', fresh)
        return {'blocked': len(held), 'probes': res, 'alive': front.alive() and hopq.alive()}
    finally:
        for s_ in held:
            try: s_.close()
            except OSError: pass
        front.stop(); hopq.stop()

for nb in ((8, 24) if THOROUGH else (8,)):
    r = quic_tunnels_blocked(nb)
    evals += 1
    if 'error' in r:
        machinery(f'blocked tunnels over one QUIC connection: {r}')
    if r['blocked'] < nb // 2:
        machinery(f'only {r["blocked"]} of {nb} blocked tunnels could be opened')
    for name, (ok, dt) in r['probes'].items():
        distinct.add(('quic-tunnels-blocked', name, ok))
        if not ok:
            chk.violation('stall.quic-tunnels-blocked', f'blocked:{name}', f'with {r["blocked"]} tunnels over one QUIC connection blocked on clients that do not read, {name}: no answer within {DEADLINE} s (took {dt} s)', {'probe': name, 'blocked': r['blocked']})
    if not r['alive']:
        chk.violation('process', 'proxy-died:quic-tunnels-blocked', 'a proxy ended', {})
    samples.append({'quic_tunnels_blocked': {'blocked': r['blocked'], 'probes': {k: list(v) for k, v in r['probes'].items()}}})

# ---- the access log goes to a sink that stops taking data (a FIFO whose reader stalls - a log shipper, a hung
#      network file system): finished connections pile up behind it; new connections must still be served and every
#      API call - log rotation included - must still be answered
import fcntl
def stalled_log_sink():
    d = tempfile.mkdtemp(prefix='c14fifo-', dir=RUNDIR)
    fifo = os.path.join(d, 'access.fifo')
    os.mkfifo(fifo)
    state = {'stall': False, 'read': 0, 'stop': False}
    def reader():
        fd = os.open(fifo, os.O_RDONLY)
        try:
            fcntl.fcntl(fd, 1031, 4096)   # F_SETPIPE_SZ
        except OSError:
            pass
        while not state['stop']:
            if state['stall']:
                time.sleep(0.05)
                continue
            r, _, _ = select.select([fd], [], [], 0.1)
            if r:
                b = os.read(fd, 65536)
                if not b:
                    time.sleep(0.05)   # no writer at the moment (the proxy opens the file more than once)
                    continue
                state['read'] += len(b)
        os.close(fd)
    threading.Thread(target=reader, daemon=True).start()
    q = {k: free_port() for k in ('http', 'socks', 'api')}
    pxl = Proxy({'listeners': [{'name': 'http', 'bind': f"127.0.0.1:{q['http']}"}, {'name': 'socks', 'bind': f"127.0.0.1:{q['socks']}"}],
                 'connectors': [{'name': 'direct'}], 'rules': [{'target': 'direct'}], 'accessLog': {'path': fifo, 'format': 'json'},
                 'metrics': {'bind': f"127.0.0.1:{q['api']}", 'ui': None, 'historySize': 1000}}, 'c14l')
    pxl.api_port = q['api']
    if not pxl.start([q['http'], q['socks'], q['api']]):
        state['stop'] = True
        return {'error': 'proxy with a FIFO access log did not start: ' + pxl.log()[-300:]}
    try:
        def short(n):
            ok = 0
            for i in range(n):
                try:
                    s_, code, head, rest = http_connect(q['http'], f'127.0.0.1:{closed_port_l}', timeout=3)
                    s_.close()
                    ok += 1
                except OSError:
                    pass
            return ok
        short(5)
        time.sleep(1.5)                                     # a collector pass hands the records to the log task
        pxl.api('POST', '/logrotate', timeout=DEADLINE)    # ... whose writer is flushed by a rotation: the reader sees data while it still reads
        time.sleep(0.5)
        if state['read'] == 0:
            return {'error': 'nothing arrived at the FIFO reader while it was reading'}
        state['stall'] = True
        answered = short(300)
        time.sleep(2.5)                                     # two collector passes
        res = {}
        def probe(name, fn):
            t = time.time()
            try:
                ok = fn()
            except Exception as e:
                ok = False
            res[name] = (bool(ok), round(time.time() - t, 2))
        def tunnel_http():
            s_, code, head, rest = http_connect(q['http'], f'127.0.0.1:{echo.port}', timeout=DEADLINE)
            s_.settimeout(DEADLINE); s_.sendall(b'ping'); r = recv_exact(s_, 4, DEADLINE); s_.close()
            return code == 200 and r == b'ping'
        def tunnel_socks():
            s_, r = socks5_connect(q['socks'], '127.0.0.1', echo.port, timeout=DEADLINE)
            s_.sendall(b'ping'); x = recv_exact(s_, 4, DEADLINE); s_.close()
            return r['rep'] == 0 and x == b'ping'
        probe('fresh:http', tunnel_http)
        probe('fresh:socks5', tunnel_socks)
        for name, method, path in (('api:GET /status', 'GET', '/status'), ('api:GET /live', 'GET', '/live'), ('api:GET /history', 'GET', '/history'),
                                   ('api:GET /metrics', 'GET', '/metrics'), ('api:POST /logrotate', 'POST', '/logrotate'), ('api:GET /live (again)', 'GET', '/live')):
            probe(name, lambda m=method, p_=path: pxl.api(m, p_, timeout=DEADLINE)[0] is not None)
        return {'short_connections_answered': answered, 'probes': res, 'alive': pxl.alive()}
    finally:
        state['stop'] = True
        state['stall'] = False
        pxl.stop()

import select, tempfile
closed_port_l = free_port()
r = stalled_log_sink()
evals += 1
if 'error' in r:
    machinery(f'stalled log sink: {r}')
for name, (ok, dt) in r['probes'].items():
    distinct.add(('stalled-log-sink', name, ok))
    if not ok:
        chk.violation('stall.access-log-sink', f'blocked:{name}', f'with the access log going to a FIFO whose reader has stalled and 300 finished connections behind it, {name}: no answer within {DEADLINE} s (took {dt} s)', {'probe': name, 'result': {k: list(v) for k, v in r["probes"].items()}})
if r['short_connections_answered'] < 300:
    chk.violation('stall.access-log-sink', 'blocked:short-connections', f'only {r["short_connections_answered"]} of 300 short connections were answered once the log sink had stalled', {})
if not r['alive']:
    chk.violation('process', 'proxy-died:stalled-log-sink', 'the proxy ended', {})
samples.append({'stalled_log_sink': {k: (list(v) if isinstance(v, tuple) else v) for k, v in r['probes'].items()}})

# ---- teardown of tunnels that are blocked on a slow peer: with timeouts.idle = 2 the proxy itself ends 32 tunnels
#      whose peer has stopped reading (unsent bytes queued); while it does so everything else must keep being served
for splice in (True, False):
    pt = {k: free_port() for k in ('http', 'api')}
    pxt = Proxy({'listeners': [{'name': 'http', 'bind': f"127.0.0.1:{pt['http']}"}], 'connectors': [{'name': 'direct'}], 'rules': [{'target': 'direct'}],
                 'metrics': {'bind': f"127.0.0.1:{pt['api']}", 'ui': None}, 'timeouts': {'idle': 2}, 'ioParams': {'bufferSize': 65536, 'useSplice': splice}}, 'c14t')
    pxt.api_port = pt['api']
    if not pxt.start([pt['http'], pt['api']]):
        machinery('teardown proxy did not start: ' + pxt.log()[-300:])
    held = []
    def blocked(i):
        s, code, head, rest = http_connect(pt['http'], f'127.0.0.1:{deaf.port}')
        s.setblocking(False)
        idle = 0
        t = time.time()
        while time.time() - t < 4 and idle < 5:
            try:
                s.send(b'\x5a' * 65536)
                idle = 0
            except BlockingIOError:
                idle += 1
                time.sleep(0.03)
            except OSError:
                break
        return s
    held = [x for x in run_parallel(list(range(32)), blocked, workers=16) if isinstance(x, socket.socket)]
    if len(held) < 24:
        machinery(f'only {len(held)} of 32 blocked tunnels could be set up')
    t0 = time.time()
    def api_probe(path):
        def f():
            st, data = pxt.api('GET', path, timeout=DEADLINE)
            return None if st == 200 else f'status {st} {data[:60]!r}'
        return f
    def fresh():
        s, code, head, rest = http_connect(pt['http'], f'127.0.0.1:{echo.port}', timeout=DEADLINE)
        if code != 200:
            s.close()
            return f'CONNECT -> {head[:40]!r}'
        s.settimeout(DEADLINE)
        s.sendall(b'ping')
        ok = recv_exact(s, 4, DEADLINE) == b'ping'
        s.close()
        return None if ok else 'no echo'
    rounds = 0
    while time.time() - t0 < 7.0:
        rounds += 1
        for name, fn in (('api:GET /status', api_probe('/status')), ('api:GET /live', api_probe('/live')), ('fresh:http', fresh)):
            v, dt = run_probe(fn)
            evals += 1
            worst = max(worst, dt)
            distinct.add(('teardown', name))
            if v:
                chk.violation('stall.teardown-of-blocked-tunnels', f'{v.split(":")[0]}:{name}', f'useSplice={splice}: while the proxy was ending {len(held)} idle tunnels whose peer had stopped reading (t+{time.time() - t0:.1f}s), {name}: {v} after {dt:.1f}s', {'probe': name, 'useSplice': splice, 'tunnels': len(held)})
        time.sleep(0.2)
    st, body = pxt.api('GET', '/live', timeout=DEADLINE)
    try:
        left = len(json.loads(body))
    except Exception:
        left = -1
    samples.append({'teardown': {'useSplice': splice, 'blocked_tunnels': len(held), 'probe_rounds': rounds, 'still_live_after_7s': left}})
    for s_ in held:
        try:
            s_.close()
        except OSError:
            pass
    if not pxt.alive():
        chk.violation('process', 'proxy-died', f'teardown proxy exit {pxt.returncode()}: {pxt.log()[-300:]}', {})
    pxt.stop()

for o in (echo, deaf, flood, slow_http, slow_socks, mute):
    o.stop()
shutil.rmtree(scratch, ignore_errors=True)
if evals < 500 or len(distinct) < 100:
    machinery(f'vacuous: evals={evals} distinct={len(distinct)}')
cov = {'evaluations': evals, 'states': nstates, 'distinct_nontrivial': len(distinct), 'transitions': evals, 'traces_validated_against_impl': evals,
       'worst_probe_latency_s': round(worst, 3), 'deadline_s': DEADLINE,
       'rule': 'stalled states = client stopped after k bytes of the handshake (k = every offset in thorough, a stride + first/last in quick) for http, socks5, socks5+auth, socks4, socks4a, inside the TLS handshake and behind it for https / socks+tls; hanging auth command; request stuck on an upstream proxy that never replies / is mute (http, socks, TLS) entered via http and socks5; tunnel whose origin / client does not read (http, socks5, reverse); x useSplice true/false; each state alone and all together (3 probe rounds); then 130 (thorough 300) clients stalled in the same handshake state, per handshake kind (the dispatcher queue holds 100); plus a QUIC client whose handshake never completes (answers dropped by a one-way forwarder) with a new QUIC connection, an established one and the API probed; plus the proxy-initiated teardown (timeouts.idle = 2) of 32 tunnels whose peer stopped reading, probed for 7 s. probes = 7 API calls (live, status, history, metrics, rules GET, rules POST, logrotate) then a fresh echo round trip on http, https, socks5, socks5+tls, socks5+auth, socks4, reverse and the QUIC listener (through a second proxy), then live and rules again; every probe must answer within the deadline',
       'schedule_control': 'kernel', 'samples': samples}
sys.exit(chk.finish('model_checking', cov, ['E4 part: real loopback sockets, kernel scheduling uncontrolled; deadlines are 3 s against millisecond expectations; TPROXY and UDP sessions are not stalled; a QUIC client stalled inside its own handshake is not built (QUIC is probed as a fresh connection only)']))
