#!/usr/bin/env python3
"""C13 (real binary): wiring of timeouts.idle / timeouts.udp into every kind of tunnel, and actual close timing.
Grid: timeouts.idle in {absent,0,3,7} x timeouts.udp in {absent,0,4,9}; one live tunnel per kind (http, socks5,
reverse tcp / socks5 UDP associate, reverse udp, http CONNECT with Proxy-Protocol: udp); /api/live must report the
configured (or default 600) period for that kind. Timing: a silent tunnel is closed after T (+ticker+slack), not
before; T = 0 never closes within the horizon."""
import sys, json, itertools, ssl
sys.path.insert(0, '/verif/e4')
from lib import *

ensure_certs()
chk = Check('C13')
echo = Origin('echo')
uecho = socket.socket(socket.AF_INET, socket.SOCK_DGRAM)
uecho.bind(('127.0.0.1', 0))
uport = uecho.getsockname()[1]
def _uecho():
    while True:
        try:
            d, a = uecho.recvfrom(65536)
            uecho.sendto(d, a)
        except OSError:
            return
threading.Thread(target=_uecho, daemon=True).start()

def make_cfg(idle, udp):
    ports = {k: free_port() for k in ('http', 'socks', 'rtcp', 'rudp', 'api')}
    cfg = {
        'listeners': [
            {'name': 'http', 'bind': f"127.0.0.1:{ports['http']}"},
            {'name': 'socks', 'bind': f"127.0.0.1:{ports['socks']}"},
            {'name': 'rtcp', 'type': 'reverse', 'bind': f"127.0.0.1:{ports['rtcp']}", 'target': f'127.0.0.1:{echo.port}'},
            {'name': 'rudp', 'type': 'reverse', 'bind': f"127.0.0.1:{ports['rudp']}", 'target': f'127.0.0.1:{uport}', 'protocol': 'udp'},
        ],
        'connectors': [{'name': 'direct'}], 'rules': [{'target': 'direct'}],
        'metrics': {'bind': f"127.0.0.1:{ports['api']}", 'ui': None},
    }
    t = {}
    if idle is not None: t['idle'] = idle
    if udp is not None: t['udp'] = udp
    if t: cfg['timeouts'] = t
    return cfg, ports

def open_tunnels(ports):
    """opens one tunnel of each kind; returns dict kind -> socket(s) (kept open)"""
    keep = {}
    s, code, head, rest = http_connect(ports['http'], f'127.0.0.1:{echo.port}', timeout=4)
    keep['http'] = (s, code == 200)
    s, r = socks5_connect(ports['socks'], '127.0.0.1', echo.port, timeout=4)
    keep['socks'] = (s, r['rep'] == 0)
    s = socket.create_connection(('127.0.0.1', ports['rtcp']), timeout=4)
    s.sendall(b'x'); ok = recv_exact(s, 1, 3) == b'x'
    keep['rtcp'] = (s, ok)
    # socks5 udp associate
    s, r = socks5_connect(ports['socks'], '0.0.0.0', 0, cmd=3, timeout=4)
    ok = r['rep'] == 0
    u = socket.socket(socket.AF_INET, socket.SOCK_DGRAM)
    if ok and len(r['reply']) >= 10:
        bport = struct.unpack('>H', r['reply'][8:10])[0]
        u.sendto(b'\0\0\0' + socks5_addr('127.0.0.1', uport) + b'hello', ('127.0.0.1', bport))
        u.settimeout(3)
        try:
            u.recvfrom(65536)
        except OSError:
            pass
    keep['socks-udp'] = ((s, u), ok)
    # reverse udp
    u2 = socket.socket(socket.AF_INET, socket.SOCK_DGRAM)
    u2.sendto(b'one', ('127.0.0.1', ports['rudp']))
    u2.sendto(b'two', ('127.0.0.1', ports['rudp']))
    keep['rudp'] = (u2, True)
    # http connect carrying udp (inline frames)
    s, code, head, rest = http_connect(ports['http'], f'127.0.0.1:{uport}', extra_headers=b'Proxy-Protocol: udp\r\n', timeout=4)
    keep['http-udp'] = (s, code == 200)
    # ... and the same with a bind source (feature UdpBind: what a full-cone tproxy hop in front of this proxy sends)
    s, code, head, rest = http_connect(ports['http'], f'127.0.0.1:{uport}', extra_headers=b'Proxy-Protocol: udp\r\nUdp-Bind-Source: 127.0.0.1:0\r\n', timeout=4)
    keep['http-udp-bind'] = (s, code == 200)
    return keep

KIND_OF = {  # listener name + feature -> kind
    ('http', 'TcpForward'): 'http', ('socks', 'TcpForward'): 'socks', ('rtcp', 'TcpForward'): 'rtcp',
    ('socks', 'UdpForward'): 'socks-udp', ('rudp', 'UdpForward'): 'rudp', ('http', 'UdpForward'): 'http-udp',
    ('http', 'UdpBind'): 'http-udp-bind',
}
IS_UDP = {'http': False, 'socks': False, 'rtcp': False, 'socks-udp': True, 'rudp': True, 'http-udp': True, 'http-udp-bind': True}

def wiring(case):
    idle, udp = case
    cfg, ports = make_cfg(idle, udp)
    px = Proxy(cfg, 'c13')
    px.api_port = ports['api']
    if not px.start([ports['http'], ports['socks'], ports['rtcp'], ports['api']]):
        return {'error': 'proxy did not start: ' + px.log()[-300:]}
    try:
        keep = open_tunnels(ports)
        # UDP sessions are registered when the listener task has handled the first datagram: poll until every tunnel
        # that was established is listed (bounded), so that a slow machine does not read as 'not listed'
        t0 = time.time()
        while True:
            st, body = px.api('GET', '/live')
            seen = {}
            if st == 200:
                for c in json.loads(body):
                    k = KIND_OF.get((c['listener'], c['request_feature']))
                    if k:
                        seen[k] = c['idle_timeout']
            if all(k in seen for k, v in keep.items() if v[1]) or time.time() - t0 > 3.0:
                break
            time.sleep(0.1)
        return {'seen': seen, 'established': {k: v[1] for k, v in keep.items()}, 'alive': px.alive()}
    finally:
        px.stop()

grid = list(itertools.product([None, 0, 3, 7], [None, 0, 4, 9]))
# the whole grid in both tiers: a subsample by position dropped every (idle, udp=0) pair, the cases where one period is
# disabled and the other is not
results = run_parallel(grid, wiring, workers=8)
evals = 0
distinct = set()
samples = []
for (idle, udp), r in zip(grid, results):
    if isinstance(r, tuple) or 'error' in r:
        machinery(f'wiring {idle},{udp}: {r}')
    for kind, is_udp in IS_UDP.items():
        evals += 1
        want = (udp if udp is not None else 600) if is_udp else (idle if idle is not None else 600)
        got = r['seen'].get(kind)
        distinct.add((kind, got == want))
        replay = {'timeouts': {'idle': idle, 'udp': udp}, 'tunnel': kind, 'reported_idle_timeout': got, 'configured': want, 'established': r['established'].get(kind)}
        if got is None:
            if r['established'].get(kind):
                chk.violation('timeout.wiring', f'tunnel-not-listed-live:{kind}', f'timeouts idle={idle} udp={udp}: the established {kind} tunnel is not in /api/live', replay)
            else:
                chk.violation('timeout.wiring', f'tunnel-not-established:{kind}', f'the {kind} tunnel could not be opened', replay)
        elif got != want:
            chk.violation('timeout.wiring', f'configured-period-not-applied:{kind}', f'timeouts idle={idle} udp={udp}: {kind} tunnel reports idle_timeout {got}, configured {want}', replay)
    if len(samples) < 2:
        samples.append({'timeouts': {'idle': idle, 'udp': udp}, 'live_idle_timeouts': r['seen']})

# ---- timing on the real binary: silent tunnels with idle=2 / udp=2, and idle=0
def timing(case):
    idle, udp = case
    cfg, ports = make_cfg(idle, udp)
    px = Proxy(cfg, 'c13t')
    px.api_port = ports['api']
    if not px.start([ports['http'], ports['socks'], ports['rtcp'], ports['api']]):
        return {'error': px.log()[-300:]}
    try:
        t0 = time.time()
        s, code, head, rest = http_connect(ports['http'], f'127.0.0.1:{echo.port}', timeout=4)
        u2 = socket.socket(socket.AF_INET, socket.SOCK_DGRAM)
        u2.sendto(b'one', ('127.0.0.1', ports['rudp'])); u2.sendto(b'two', ('127.0.0.1', ports['rudp']))
        # poll both: when does the tcp tunnel end, when does the udp session leave /live?
        tcp_closed = udp_gone = None
        # the session exists once the listener task has handled the first datagram: see it listed before watching it go
        # (a first poll that came earlier than that once read as 'gone after 0.00 s')
        seen = False
        while not seen and time.time() - t0 < 3.0:
            st, body = px.api('GET', '/live')
            seen = st == 200 and any(c['listener'] == 'rudp' for c in json.loads(body))
            if not seen:
                time.sleep(0.02)
        if not seen:
            return {'error': 'the reverse-udp session never appeared in /api/live'}
        s.setblocking(False)
        while time.time() - t0 < 8.0 and (tcp_closed is None or udp_gone is None):
            if tcp_closed is None:
                try:
                    d = s.recv(4096)
                    if d == b'':
                        tcp_closed = time.time() - t0
                except BlockingIOError:
                    pass
                except OSError:
                    tcp_closed = time.time() - t0
            if udp_gone is None:
                st, body = px.api('GET', '/live')
                if st == 200 and not any(c['listener'] == 'rudp' for c in json.loads(body)):
                    udp_gone = time.time() - t0
            time.sleep(0.1)
        return {'tcp_closed': tcp_closed, 'udp_gone': udp_gone}
    finally:
        px.stop()

# periods whose millisecond count does not fit 64 bits must not turn into short ones
HUGE = [18446744073709552, 2**64 - 1, 2**63, 36893488147419104]
TCASES = [(2, 2), (0, 0)] + [(h, h) for h in HUGE]
for (idle, udp), r in zip(TCASES, run_parallel(TCASES, timing, workers=6)):
    evals += 2
    if isinstance(r, tuple) or 'error' in r:
        machinery(f'timing {idle},{udp}: {r}')
    replay = {'timeouts': {'idle': idle, 'udp': udp}, 'observed': r}
    distinct.add(('timing', idle, r['tcp_closed'] is not None, r['udp_gone'] is not None))
    if idle == 2:
        if r['tcp_closed'] is None or r['tcp_closed'] > 2 + 1 + 2.0:
            chk.violation('timeout.timing', 'silent-tcp-tunnel-not-closed-in-time', f'idle=2: silent http tunnel closed at {r["tcp_closed"]}', replay)
        elif r['tcp_closed'] < 2 - 0.3:
            chk.violation('timeout.timing', 'tcp-tunnel-closed-early', f'idle=2: closed after {r["tcp_closed"]:.2f}s', replay)
        if r['udp_gone'] is None or r['udp_gone'] > 2 + 1 + 1 + 2.5:
            chk.violation('timeout.timing', 'silent-udp-session-not-closed-in-time', f'udp=2: reverse-udp session gone at {r["udp_gone"]}', replay)
        elif r['udp_gone'] < 2 - 0.3:
            chk.violation('timeout.timing', 'udp-session-closed-early', f'udp=2: gone after {r["udp_gone"]:.2f}s', replay)
    elif idle == 0:
        if r['tcp_closed'] is not None:
            chk.violation('timeout.timing', 'closed-although-timeout-is-0', f'idle=0: tunnel closed after {r["tcp_closed"]:.2f}s', replay)
        if r['udp_gone'] is not None:
            chk.violation('timeout.timing', 'closed-although-timeout-is-0:udp', f'udp=0: session gone after {r["udp_gone"]:.2f}s', replay)
    else:
        if r['tcp_closed'] is not None:
            chk.violation('timeout.timing', 'huge-period-closes-early', f'idle={idle} s: silent tunnel closed after {r["tcp_closed"]:.2f}s', replay)
        if r['udp_gone'] is not None:
            chk.violation('timeout.timing', 'huge-period-closes-early:udp', f'udp={udp} s: session gone after {r["udp_gone"]:.2f}s', replay)
    samples.append(replay)


# ---- the idle period belongs to the tunnel: a set-up (client handshake, upstream connect / handshake) that takes longer
#      than the period must not make the freshly established tunnel count as idle already
SETUP_T, SETUP_DELAY = 2, 3.0
def late_any(c, a, rec):
    """an upstream HTTP proxy that answers every CONNECT after SETUP_DELAY seconds, then echoes"""
    head, rest = recv_head(c, 10)
    time.sleep(SETUP_DELAY)
    c.sendall(b'HTTP/1.1 200 OK\r\n\r\n')
    _echo_loop(c)

def slow_setup(kind):
    up = Origin(fake_http_proxy)
    upl = Origin(late_any)
    hp, sp, ap, slp = free_port(), free_port(), free_port(), free_port()
    cfg = {'listeners': [{'name': 'http', 'bind': f'127.0.0.1:{hp}'}, {'name': 'socks', 'bind': f'127.0.0.1:{sp}'}, {'name': 'socksl', 'type': 'socks', 'bind': f'127.0.0.1:{slp}'}],
           'connectors': [{'name': 'direct'}, {'name': 'h', 'type': 'http', 'server': '127.0.0.1', 'port': up.port}, {'name': 'hl', 'type': 'http', 'server': '127.0.0.1', 'port': upl.port}],
           'rules': [{'filter': 'request.listener == "socksl"', 'target': 'hl'}, {'filter': 'request.target.host =~ "late-"', 'target': 'h'}, {'target': 'direct'}],
           'timeouts': {'idle': SETUP_T, 'udp': SETUP_T}, 'metrics': {'bind': f'127.0.0.1:{ap}', 'ui': None}}
    px = Proxy(cfg, 'c13s')
    px.api_port = ap
    if not px.start([hp, sp, ap]):
        return {'error': px.log()[-300:]}
    try:
        if kind == 'socks5 client pauses inside its request':
            s = socket.create_connection(('127.0.0.1', sp), timeout=5)
            s.sendall(b'\x05\x01\x00')
            if recv_exact(s, 2, 3) != b'\x05\x00':
                return {'error': 'method selection'}
            req = b'\x05\x01\x00' + socks5_addr('127.0.0.1', echo.port)
            s.sendall(req[:5]); time.sleep(SETUP_DELAY); s.sendall(req[5:])
            rep = recv_exact(s, 10, 5)
            ok = rep is not None and len(rep) == 10 and rep[1] == 0
        elif kind == 'http client pauses inside its request head':
            s = socket.create_connection(('127.0.0.1', hp), timeout=5)
            s.sendall(f'CONNECT 127.0.0.1:{echo.port} HTTP/1.1\r\nHost: x'.encode()); time.sleep(SETUP_DELAY); s.sendall(b'\r\n\r\n')
            head, rest = recv_head(s, 5)
            ok = head.startswith(b'HTTP/1.1 200')
        elif kind == 'socks5 udp associate, client pauses inside its request':
            s = socket.create_connection(('127.0.0.1', sp), timeout=5)
            s.sendall(b'\x05\x01\x00')
            if recv_exact(s, 2, 3) != b'\x05\x00':
                return {'error': 'method selection'}
            req = b'\x05\x03\x00' + socks5_addr('0.0.0.0', 0)
            s.sendall(req[:5]); time.sleep(SETUP_DELAY); s.sendall(req[5:])
            rep = recv_exact(s, 10, 5)
            ok = rep is not None and len(rep) == 10 and rep[1] == 0
        elif kind == 'socks5 udp associate through an upstream proxy that answers late':
            s, r = socks5_connect(slp, '0.0.0.0', 0, cmd=3, timeout=SETUP_DELAY + 5)
            ok = r['rep'] == 0
        elif kind == 'http udp tunnel through an upstream proxy that answers late':
            s, code, head, rest = http_connect(hp, f'late-{SETUP_DELAY:.0f}.test:80', extra_headers=b'Proxy-Protocol: udp\r\n', timeout=SETUP_DELAY + 5)
            ok = code == 200
        else:  # the upstream proxy takes its time to answer
            s, code, head, rest = http_connect(hp, f'late-{SETUP_DELAY:.0f}.test:80', timeout=SETUP_DELAY + 5)
            ok = code == 200
        if not ok:
            return {'error': f'{kind}: tunnel not established'}
        t0 = time.time()
        s.settimeout(SETUP_T + 1 + 3.0)
        try:
            d = s.recv(100)
            closed = time.time() - t0 if d == b'' else None
            extra = d
        except socket.timeout:
            closed, extra = None, b''
        except OSError:
            closed, extra = time.time() - t0, b''
        s.close()
        return {'closed_after_established_s': closed, 'unexpected_bytes': len(extra)}
    finally:
        px.stop(); up.stop(); upl.stop()

SETUPS = ['socks5 client pauses inside its request', 'http client pauses inside its request head', 'upstream proxy answers late',
          'socks5 udp associate, client pauses inside its request', 'socks5 udp associate through an upstream proxy that answers late', 'http udp tunnel through an upstream proxy that answers late']
for kind, r in zip(SETUPS, run_parallel(SETUPS, slow_setup, workers=6)):
    evals += 1
    if isinstance(r, tuple) or 'error' in r:
        machinery(f'slow set-up {kind}: {r}')
    c = r['closed_after_established_s']
    replay = {'timeouts': {'idle': SETUP_T}, 'set_up_takes_s': SETUP_DELAY, 'case': kind, 'observed': r}
    # the client may see the last bytes of a reply written in two small pieces up to a delayed-ACK period (40-200 ms)
    # after the proxy has handed them to the kernel and started the tunnel: that much of the period may be gone
    SETUP_SLACK = 0.3
    distinct.add(('slow-setup', kind, c is not None and c < SETUP_T - SETUP_SLACK))
    if c is None:
        chk.violation('timeout.timing', ('silent-udp-tunnel-not-closed-in-time:after-slow-set-up' if 'udp' in kind else 'silent-tcp-tunnel-not-closed-in-time:after-slow-set-up'), f'idle=udp={SETUP_T}: {kind}: silent tunnel still open {SETUP_T + 4} s after it was established', replay)
    elif c < SETUP_T - SETUP_SLACK:
        chk.violation('timeout.timing', f'fresh-tunnel-closed-for-idleness:{kind}', f'idle={SETUP_T}, set-up took {SETUP_DELAY} s: the tunnel was closed {c:.2f} s after the client was told it is established', replay)
    samples.append(replay)
# ---- a tunnel that carries data all the time, slowly: the receiver takes a few KiB twice a second (small receive
#      buffer), the sender keeps its side full. Bytes arrive at the receiver every half second - the tunnel is not idle
#      however long the proxy needs to get rid of one relay buffer
DRAIN_T = 3
def slow_drain(case):
    splice, direction, tls = case
    hp, ap = free_port(), free_port()
    got = {'n': 0, 'eof': None, 'last': None}
    stop = threading.Event()
    stop_w = threading.Event()
    def slow_reader(c):
        c.settimeout(1.0)
        while not stop.is_set():
            try:
                d = c.recv(6144)
            except socket.timeout:
                continue
            except OSError:
                got['eof'] = ('reset', time.time()); return
            if not d:
                got['eof'] = ('end-of-stream', time.time()); return
            got['n'] += len(d); got['last'] = time.time()
            if not stop_w.is_set():
                time.sleep(0.5)      # (once the sender has stopped, what is still on its way is taken at once)
    def fast_writer(c):
        c.settimeout(1.0)
        blob = b'x' * 65536
        while not stop.is_set() and not stop_w.is_set():
            try:
                c.send(blob)
            except socket.timeout:
                continue
            except OSError as e:
                got['writer_error'] = (repr(e), time.time()); return
    srv = socket.socket(); srv.setsockopt(socket.SOL_SOCKET, socket.SO_REUSEADDR, 1)
    if direction == 'client-to-origin':
        srv.setsockopt(socket.SOL_SOCKET, socket.SO_RCVBUF, 4096)
    srv.bind(('127.0.0.1', 0)); srv.listen(2)
    def origin_side():
        try:
            c, _ = srv.accept()
        except OSError:
            return
        (slow_reader if direction == 'client-to-origin' else fast_writer)(c)
        try: c.close()
        except OSError: pass
    threading.Thread(target=origin_side, daemon=True).start()
    cfg = {'listeners': [dict({'name': 'http', 'bind': f'127.0.0.1:{hp}'}, **({'tls': {'cert': f'{CERTS}/server.crt', 'key': f'{CERTS}/server.key'}} if tls else {}))], 'connectors': [{'name': 'direct'}], 'rules': [{'target': 'direct'}],
           'timeouts': {'idle': DRAIN_T, 'udp': DRAIN_T}, 'ioParams': {'bufferSize': 65536, 'useSplice': splice}, 'metrics': {'bind': f'127.0.0.1:{ap}', 'ui': None}}
    px = Proxy(cfg, 'c13d')
    px.api_port = ap
    if not px.start([hp, ap]):
        return {'error': px.log()[-300:]}
    try:
        raw = socket.socket()
        if direction == 'origin-to-client':
            raw.setsockopt(socket.SOL_SOCKET, socket.SO_RCVBUF, 4096)
        raw.settimeout(5)
        raw.connect(('127.0.0.1', hp))
        if tls:
            raw = ssl.create_default_context(cafile=f'{CERTS}/ca.crt').wrap_socket(raw, server_hostname='localhost')
        s, code, head, rest = http_connect(None, '127.0.0.1:%d' % srv.getsockname()[1], sock=raw, timeout=5)
        if code != 200:
            return {'error': f'CONNECT -> {code}'}
        t0 = time.time()
        th = threading.Thread(target=(fast_writer if direction == 'client-to-origin' else slow_reader), args=(s,), daemon=True)
        th.start()
        RUN = 4 * DRAIN_T + 1
        while time.time() - t0 < RUN and got['eof'] is None and 'writer_error' not in got:
            time.sleep(0.1)
        ended = got['eof'] or got.get('writer_error')
        out = {'received_by_slow_side': got['n'], 'seconds': round(time.time() - t0, 1), 'ended': None if ended is None else (ended[0], round(ended[1] - t0, 1)),
               'since_last_bytes_at_receiver_s': None if ended is None or got['last'] is None else round(ended[1] - got['last'], 2), 'log': px.log()[-200:] if ended else ''}
        # ... and then silence: the sender stops, the receiver takes what is still on its way; from the last byte on
        # the tunnel IS idle and has to go within the period (+ ticker, + slack)
        if ended is None and direction == 'client-to-origin' and not tls:
            stop_w.set()        # the fast writer stops; the slow reader goes on until its socket ends
            th.join(2)
            t_sil = time.time()
            while time.time() - t_sil < 40 and got['eof'] is None:
                time.sleep(0.2)
            if got['eof'] is None and time.time() - (got['last'] or t_sil) < DRAIN_T + 4:
                out['after_the_burst'] = ('inconclusive: data was still arriving', round(time.time() - (got['last'] or t_sil), 1))
            elif got['eof'] is None:
                out['after_the_burst'] = ('still open', round(time.time() - (got['last'] or t_sil), 1))
            else:
                out['after_the_burst'] = ('closed', round(got['eof'][1] - (got['last'] or t_sil), 1))
        stop.set()
        th.join(2)
        try: s.close()
        except OSError: pass
        return out
    finally:
        stop.set()
        srv.close()
        px.stop()

DRAINS = [(sp_, d, False) for sp_ in (True, False) for d in ('client-to-origin', 'origin-to-client')] + [(True, 'origin-to-client', True), (False, 'client-to-origin', True)]
for case, r in zip(DRAINS, run_parallel(DRAINS, slow_drain, workers=6)):
    evals += 1
    if isinstance(r, tuple) or 'error' in r:
        machinery(f'slow drain {case}: {r}')
    distinct.add(('slow-drain', case, r['ended'] is None))
    replay = {'timeouts': {'idle': DRAIN_T}, 'useSplice': case[0], 'direction': case[1], 'tls_listener': case[2], 'observed': r}
    if r['received_by_slow_side'] < 20000:
        machinery(f'slow drain {case}: the slow side received only {r["received_by_slow_side"]} bytes: {r}')
    if r['ended'] is not None:
        chk.violation('timeout.timing', f'tunnel-carrying-data-closed-for-idleness:{case[1]}|splice={case[0]}' + ('|tls' if case[2] else ''), f'idle={DRAIN_T}, useSplice={case[0]}{", TLS listener" if case[2] else ""}: {case[1]} with a receiver that takes 6 KiB twice a second and a sender that never pauses: the tunnel ended ({r["ended"][0]}) after {r["ended"][1]} s, {r["since_last_bytes_at_receiver_s"]} s after bytes last arrived at the receiver; proxy log: {r["log"]}', replay)
    if r.get('after_the_burst') and r['after_the_burst'][0] == 'still open':
        chk.violation('timeout.timing', f'silent-tcp-tunnel-not-closed-in-time:after-a-slowly-drained-burst|splice={case[0]}', f'idle={DRAIN_T}, useSplice={case[0]}: after a burst that its receiver drained slowly the tunnel fell silent: {r["after_the_burst"][1]} s after the last byte arrived it is still open', replay)
    samples.append(replay)
# ---- the idle period of one tunnel is not extended by another tunnel's traffic: tunnel A is half-closed by its client
#      (FIN) in front of an origin that stays silent; tunnel B, opened right afterwards (it inherits whatever
#      descriptor numbers A's finished direction gave back), moves 3 MiB to a slow receiver for ~15 s
HALF_T = 4
def neighbour_traffic(splice):
    quiet = Origin(lambda c, a, rec: time.sleep(60))
    def burst(c, a, rec):
        try:
            c.sendall(b'x' * (3 << 20))
            time.sleep(30)
        except OSError:
            pass
    loud = Origin(burst)
    pa, pb, ap = free_port(), free_port(), free_port()
    cfg = {'listeners': [{'name': 'a', 'type': 'reverse', 'bind': f'127.0.0.1:{pa}', 'target': f'127.0.0.1:{quiet.port}'},
                         {'name': 'b', 'type': 'reverse', 'bind': f'127.0.0.1:{pb}', 'target': f'127.0.0.1:{loud.port}'}],
           'connectors': [{'name': 'direct'}], 'rules': [{'target': 'direct'}], 'timeouts': {'idle': HALF_T, 'udp': HALF_T},
           'ioParams': {'bufferSize': 65536, 'useSplice': splice}, 'metrics': {'bind': f'127.0.0.1:{ap}', 'ui': None}}
    px = Proxy(cfg, 'c13n')
    px.api_port = ap
    if not px.start([pa, pb, ap]):
        return {'error': px.log()[-300:]}
    stop = threading.Event()
    try:
        time.sleep(1.2)
        a = socket.create_connection(('127.0.0.1', pa), timeout=5)
        time.sleep(0.3)
        a.shutdown(socket.SHUT_WR)
        t0 = time.time()
        time.sleep(0.3)
        b = socket.socket(); b.setsockopt(socket.SOL_SOCKET, socket.SO_RCVBUF, 4096); b.settimeout(5); b.connect(('127.0.0.1', pb))
        got = [0]
        def drain():
            b.settimeout(1)
            while not stop.is_set():
                try:
                    d = b.recv(20480)
                except socket.timeout:
                    continue
                except OSError:
                    return
                if not d:
                    return
                got[0] += len(d)
                time.sleep(0.1)
        threading.Thread(target=drain, daemon=True).start()
        a.settimeout(HALF_T + 6)
        try:
            d = a.recv(10)
            closed = round(time.time() - t0, 2)
        except socket.timeout:
            closed = None
        except OSError:
            closed = round(time.time() - t0, 2)
        return {'half_closed_tunnel_ended_after_s': closed, 'neighbour_bytes_so_far': got[0]}
    finally:
        stop.set()
        px.stop(); quiet.stop(); loud.stop()

for splice, r in zip((True, False), run_parallel([True, False], neighbour_traffic, workers=2)):
    evals += 1
    if isinstance(r, tuple) or 'error' in r:
        machinery(f'neighbour traffic splice={splice}: {r}')
    if r['neighbour_bytes_so_far'] < 100_000:
        machinery(f'neighbour traffic splice={splice}: the neighbouring tunnel moved only {r["neighbour_bytes_so_far"]} bytes')
    c = r['half_closed_tunnel_ended_after_s']
    distinct.add(('neighbour-traffic', splice, c is None))
    replay = {'timeouts': {'idle': HALF_T}, 'useSplice': splice, 'observed': r}
    if c is None:
        chk.violation('timeout.timing', f'silent-tcp-tunnel-not-closed-in-time:while-another-tunnel-carries-data|splice={splice}', f'idle={HALF_T}, useSplice={splice}: a tunnel whose client has ended its stream and whose origin is silent was still open {HALF_T + 6} s later while ANOTHER tunnel was moving data', replay)
    elif c < HALF_T - 0.3:
        chk.violation('timeout.timing', f'closed-early:half-closed-tunnel|splice={splice}', f'idle={HALF_T}: half-closed silent tunnel closed after {c} s', replay)
    samples.append(replay)
echo.stop(); uecho.close()
if evals < 30 or len(distinct) < 3:
    machinery(f'vacuous: evals={evals} distinct={len(distinct)}')
cov = {'evaluations': evals, 'distinct_nontrivial': len(distinct), 'transitions': evals, 'traces_validated_against_impl': evals,
       'rule': 'real binary: timeouts.idle x timeouts.udp grid (16 cells) x 7 tunnel kinds, idle_timeout reported by /api/live vs configured/default; close timing of silent tcp and udp tunnels with T=2, T=0 and four periods whose millisecond count exceeds 64 bits; tcp tunnels and udp associations (socks5, http inline) whose set-up (client handshake / upstream answer) takes longer than the period must get a whole period once established; a tunnel whose receiver drains 6 KiB twice a second under a sender that never pauses (both directions, both I/O modes) stays open for 4 periods; a half-closed silent tunnel is closed in time while a neighbouring tunnel moves 3 MiB to a slow receiver (both I/O modes)',
       'grid_cells': len(grid), 'tunnel_kinds': list(IS_UDP), 'schedule_control': 'kernel', 'samples': samples}
sys.exit(chk.finish('model_checking', cov, ['E4 part: real clock; late bounds carry 1 s ticker (+1 s GC for the registry) + 2 s slack, early bounds 300 ms (a reply written in two small pieces reaches the client up to a delayed-ACK period after the proxy started the tunnel)']))
