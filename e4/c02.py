#!/usr/bin/env python3
"""C02 (real binary): the attributes filters see are the real connection's. Clients from 127.0.0.1, 127.0.0.2 and ::1
reach dual-stack http / socks / reverse listeners and ask for IPv4, IPv6 and domain targets; a rule list that tests
request.source.*, request.listener, request.target.* and the feature routes to differently named connectors. The
connector recorded for each connection must be the one the first-match reference picks from the TRUE attributes, the
recorded source must be the client's real address, and a denied request must not reach any origin."""
import sys, json
sys.path.insert(0, '/verif/e4')
from lib import *

chk = Check('C02')
o4 = Origin('echo')
o6 = Origin('echo', host='::1')
DENYPORT = free_port()
p = {k: free_port() for k in ('http', 'socks', 'rev', 'api')}
CONNS = ['c-src-v6-loopback', 'c-src-127-0-0-2', 'c-src-type-v6', 'c-socks-listener', 'c-target-domain', 'c-target-v6', 'c-default']
RULES = [
    ('deny', lambda a: a['tport'] == DENYPORT, f'request.target.port == {DENYPORT}'),
    ('c-src-v6-loopback', lambda a: a['shost'] == '::1' and a['ttype'] == 'ipv4', 'request.source.host == "::1" && request.target.type == "ipv4"'),
    ('c-src-127-0-0-2', lambda a: a['shost'] == '127.0.0.2', 'cidr_match(request.source.host, "127.0.0.2/32")'),
    ('c-src-type-v6', lambda a: a['stype'] == 'ipv6' and a['ttype'] == 'domain', 'request.source.type == "ipv6" && request.target.type == "domain"'),
    ('c-socks-listener', lambda a: a['listener'] == 'socks' and a['ttype'] == 'ipv4', 'request.listener == "socks" && request.target.type == "ipv4"'),
    ('c-target-domain', lambda a: a['ttype'] == 'domain', 'request.target.type == "domain"'),
    ('c-target-v6', lambda a: a['thost'] == '::1', 'cidr_match(request.target.host, "::1/128")'),
    ('c-default', lambda a: True, None),
]
cfg = {'listeners': [{'name': 'http', 'bind': f"[::]:{p['http']}"}, {'name': 'socks', 'bind': f"[::]:{p['socks']}"},
                     {'name': 'rev', 'type': 'reverse', 'bind': f"[::]:{p['rev']}", 'target': f'127.0.0.1:{o4.port}'}],
       'connectors': [{'name': n, 'type': 'direct'} for n in CONNS],
       'rules': [dict(target=t, **({'filter': f} if f else {})) for t, _, f in RULES],
       'metrics': {'bind': f"127.0.0.1:{p['api']}", 'ui': None, 'historySize': 1000}}
px = Proxy(cfg, 'c02')
px.api_port = p['api']
if not px.start([p['http'], p['socks'], p['rev'], p['api']]):
    machinery('proxy did not start: ' + px.log()[-500:])
time.sleep(1.3)
base = {r['id'] for r in json.loads(px.api('GET', '/history')[1])}

SOURCES = [('127.0.0.1', 'ipv4'), ('127.0.0.2', 'ipv4'), ('::1', 'ipv6')]
TARGETS = [('127.0.0.1', o4.port, 'ipv4', o4), ('localhost', o4.port, 'domain', o4), ('::1', o6.port, 'ipv6', o6), ('127.0.0.1', DENYPORT, 'ipv4', None)]
made = []
for shost, stype in SOURCES:
    for lname in ('http', 'socks5', 'socks4', 'rev'):
        for thost, tport, ttype, org in TARGETS:
            if lname == 'rev' and (thost, tport) != ('127.0.0.1', o4.port):
                continue
            if lname == 'socks4' and ttype == 'ipv6':
                continue
            fam = socket.AF_INET6 if ':' in shost else socket.AF_INET
            s = socket.socket(fam, socket.SOCK_STREAM)
            s.settimeout(4)
            s.bind((shost, 0))
            port = p['http'] if lname == 'http' else p['rev'] if lname == 'rev' else p['socks']
            s.connect(('::1' if fam == socket.AF_INET6 else '127.0.0.1', port))
            me = s.getsockname()
            tag = ('tag-%s-%s-%s-%d' % (shost, lname, thost, tport)).encode()
            ok = None
            try:
                if lname == 'http':
                    t = f'[{thost}]:{tport}' if ':' in thost else f'{thost}:{tport}'
                    _, code, head, rest = http_connect(None, t, sock=s, timeout=4)
                    ok = code == 200
                elif lname == 'socks5':
                    _, r = socks5_connect(None, thost, tport, sock=s, timeout=4)
                    ok = r['rep'] == 0
                elif lname == 'socks4':
                    s.sendall(b'\x04\x01' + struct.pack('>H', tport) + (socket.inet_aton(thost) if thost[0].isdigit() else b'\0\0\0\x01') + b'id\0' + (b'' if thost[0].isdigit() else thost.encode() + b'\0'))
                    r = recv_exact(s, 8, 4)
                    ok = len(r) == 8 and r[1] == 90
                else:
                    ok = True
                echoed = False
                if ok:
                    s.sendall(tag)
                    echoed = recv_exact(s, len(tag), 3) == tag
            except OSError as e:
                ok, echoed = False, False
            s.close()
            attrs = {'shost': shost, 'stype': stype, 'listener': {'http': 'http', 'socks5': 'socks', 'socks4': 'socks', 'rev': 'rev'}[lname], 'thost': thost, 'tport': tport, 'ttype': ttype}
            want = next(t for t, pred, _ in RULES if pred(attrs))
            made.append({'attrs': attrs, 'client': lname, 'me': me, 'want': want, 'ok': ok, 'echoed': echoed, 'tag': tag, 'origin': org})
time.sleep(1.6)
hist = [r for r in json.loads(px.api('GET', '/history')[1]) if r['id'] not in base]
evals = 0
distinct = set()
samples = []
for m in made:
    a = m['attrs']
    evals += 1
    # records are found by listener + client port (the port is truthful even where the address is not)
    recs = [r for r in hist if r['listener'] == a['listener'] and r['source'].rsplit(':', 1)[1] == str(m['me'][1])]
    rp = {'source': a['shost'], 'client': m['client'], 'target': f"{a['thost']}:{a['tport']}"}
    if len(recs) != 1:
        chk.violation('attributes.record', 'connection-record-not-found', f'{rp}: {len(recs)} records for client port {m["me"][1]}', rp)
        continue
    r = recs[0]
    distinct.add((a['shost'], m['client'], a['ttype'], m['want']))
    true_src = (f'[{m["me"][0]}]' if ':' in m['me'][0] else m['me'][0]) + f':{m["me"][1]}'
    if r['source'] != true_src:
        chk.violation('attributes.source', f'source-misreported:{a["stype"]}-client', f'{m["client"]} client at {true_src} is recorded (and shown to filters) as {r["source"]}', rp)
    got = r.get('connector')
    if m['want'] == 'deny':
        if m['ok'] or got is not None:
            chk.violation('routing.real', 'denied-request-served', f'{rp}: told established={m["ok"]}, connector {got}', rp)
    else:
        if got != m['want']:
            chk.violation('routing.real', f'wrong-rule-selected:{a["stype"]}-source/{a["ttype"]}-target', f'{rp}: routed to {got!r}, the first rule matching the real attributes is {m["want"]!r}', rp)
        elif not m['echoed']:
            chk.violation('routing.real', 'selected-upstream-did-not-serve', f'{rp}: connector {got} but no echo', rp)
    if len(samples) < 3:
        samples.append({'request': rp, 'expected': m['want'], 'recorded_connector': got, 'recorded_source': r['source']})
# nothing of a denied request reached an origin
for o in (o4, o6):
    for c in o.conns:
        if b'-%d' % DENYPORT in c['rx']:
            chk.violation('routing.real', 'denied-payload-forwarded', f'origin received {c["rx"][:60]!r}', {})
# ---- one destination, several spellings: an IPv4 destination written as an IPv4-mapped IPv6 address is connected to
#      over IPv4 (there is no other way to reach it) - the filter has to see what is connected to. Rules: deny
#      127.0.0.0/8, everything else direct; the origin listens on 127.0.0.1 only
def mapped_forms():
    org = Origin('echo')
    q = {k: free_port() for k in ('http', 'socks', 'api')}
    cfgm = {'listeners': [{'name': 'http', 'bind': f"127.0.0.1:{q['http']}"}, {'name': 'socks', 'bind': f"127.0.0.1:{q['socks']}"}],
            'connectors': [{'name': 'direct'}],
            'rules': [{'filter': 'cidr_match(request.target.host, "127.0.0.0/8")', 'target': 'deny'}, {'target': 'direct'}],
            'metrics': {'bind': f"127.0.0.1:{q['api']}", 'ui': None}}
    pm = Proxy(cfgm, 'c02m')
    pm.api_port = q['api']
    if not pm.start([q['http'], q['socks'], q['api']]):
        machinery('mapped forms: proxy did not start: ' + pm.log()[-300:])
    out = []
    try:
        for form in ('127.0.0.1', '::ffff:127.0.0.1', '::ffff:7f00:1', '0:0:0:0:0:ffff:127.0.0.1'):
            for client in ('http', 'socks5'):
                before = len(org.conns)
                try:
                    if client == 'http':
                        t = f'[{form}]:{org.port}' if ':' in form else f'{form}:{org.port}'
                        s_, code, head, rest = http_connect(q['http'], t, timeout=4)
                        ok = code == 200
                    else:
                        s_, r = socks5_connect(q['socks'], form, org.port, timeout=4)
                        ok = r['rep'] == 0
                    if ok:
                        s_.sendall(b'payload-for-a-denied-destination')
                        time.sleep(0.2)
                    s_.close()
                except OSError:
                    ok = False
                time.sleep(0.1)
                out.append((form, client, ok, len(org.conns) - before))
    finally:
        pm.stop(); org.stop()
    return out
for form, client, ok, reached in mapped_forms():
    evals += 1
    distinct.add(('mapped-form', form, client, ok, reached))
    if ok or reached:
        chk.violation('routing.real', f'denied-destination-reached-under-another-spelling:{"ipv4-mapped-ipv6" if ":" in form else "plain"}', f'rules deny 127.0.0.0/8: {client} request for {form} was {"served" if ok else "refused"} and {reached} connection(s) reached the origin on 127.0.0.1 (the filter saw an IPv6 host, the connection is IPv4)', {'form': form, 'client': client})
    if len(samples) < 6:
        samples.append({'destination_form': form, 'client': client, 'served': ok, 'origin_connections': reached})

# ---- the `feature` attribute: what a filter is shown is what the request asks for (TCP tunnel, UDP session to one
#      destination, UDP session standing for a source = `Udp-Bind-Source`); each kind has its own rule here
def feature_routes():
    org = Origin('echo'); uo = UdpOrigin()
    q = {k: free_port() for k in ('http', 'api')}
    cfgf = {'listeners': [{'name': 'http', 'bind': f"127.0.0.1:{q['http']}"}],
            'connectors': [{'name': n, 'type': 'direct'} for n in ('c-bind', 'c-fwd', 'c-tcp', 'c-other')],
            'rules': [{'filter': 'request.feature == "UdpBind" && request.target.port == 1', 'target': 'deny'},
                      {'filter': 'request.feature == "UdpBind"', 'target': 'c-bind'}, {'filter': 'request.feature == "UdpForward"', 'target': 'c-fwd'},
                      {'filter': 'request.feature == "TcpForward"', 'target': 'c-tcp'}, {'target': 'c-other'}],
            'metrics': {'bind': f"127.0.0.1:{q['api']}", 'ui': None, 'historySize': 100}}
    pf = Proxy(cfgf, 'c02f')
    pf.api_port = q['api']
    if not pf.start([q['http'], q['api']]):
        machinery('feature routes: proxy did not start: ' + pf.log()[-300:])
    out = []
    try:
        time.sleep(1.2)
        base_ids = {r['id'] for r in json.loads(pf.api('GET', '/history')[1])}
        reqs = [('TcpForward', f'127.0.0.1:{org.port}', b'', 'c-tcp'), ('UdpForward', f'127.0.0.1:{uo.port}', b'Proxy-Protocol: udp\r\n', 'c-fwd'),
                ('UdpBind', f'127.0.0.1:{uo.port}', b'Proxy-Protocol: udp\r\nUdp-Bind-Source: 127.0.0.1:0\r\n', 'c-bind'), ('UdpBind', '127.0.0.1:1', b'Proxy-Protocol: udp\r\nUdp-Bind-Source: 127.0.0.1:0\r\n', 'deny')]
        for feat, target, hdr, want in reqs:
            s_, code, head, rest = http_connect(q['http'], target, extra_headers=hdr, timeout=4)
            port = s_.getsockname()[1]
            got = None
            if code == 200:
                # (a UDP session outlives its client by timeouts.udp: the record is read while the request is live)
                got = 'no-record'
                for _ in range(20):
                    rec = [r for r in json.loads(pf.api('GET', '/live')[1]) if r['source'].endswith(f':{port}')]
                    if rec and rec[0].get('connector'):
                        got = rec[0]['connector']
                        break
                    time.sleep(0.05)
            s_.close()
            out.append([feat, target, want, code, port, got])
    finally:
        pf.stop(); org.stop(); uo.stop()
    return out
for feat, target, want, code, port, got in feature_routes():
    evals += 1
    distinct.add(('feature', feat, want, got))
    rp = {'feature': feat, 'target': target}
    if want == 'deny':
        if code == 200 or got not in (None,):
            chk.violation('routing.real', f'denied-request-served:feature-{feat}', f'{feat} request for {target}: the deny rule for its feature was not applied (status {code}, connector {got})', rp)
    elif got != want:
        chk.violation('routing.real', f'wrong-rule-selected:feature-{feat}', f'{feat} request for {target}: routed to {got!r} (status {code}), the first rule matching its real feature is {want!r}', rp)

# ---- an upstream that cannot carry the requested feature: UDP requests routed to a SOCKS4 upstream (SOCKS4 has no UDP
#      ASSOCIATE) or to a load balancer (TCP only) are refused, and no connection to the upstream is opened
def no_udp_case(kind):
    uo = UdpOrigin()
    up = Origin(fake_socks_proxy)
    q = {k: free_port() for k in ('ru', 's', 'h', 'api')}
    conn = {'s4': {'name': 'x', 'type': 'socks', 'server': '127.0.0.1', 'port': up.port, 'version': 4},
            'lb': {'name': 'x', 'type': 'loadbalance', 'connectors': ['direct']}}[kind]
    c2 = {'listeners': [{'name': 'ru', 'type': 'reverse', 'bind': f"127.0.0.1:{q['ru']}", 'target': f'127.0.0.1:{uo.port}', 'protocol': 'udp'},
                        {'name': 's', 'type': 'socks', 'bind': f"127.0.0.1:{q['s']}"}, {'name': 'h', 'type': 'http', 'bind': f"127.0.0.1:{q['h']}"}],
          'connectors': [{'name': 'direct'}, conn], 'rules': [{'target': 'x'}], 'metrics': {'bind': f"127.0.0.1:{q['api']}", 'ui': None}}
    p2 = Proxy(c2, 'c02u')
    p2.api_port = q['api']
    if not p2.start([q['s'], q['h'], q['api']]):
        return {'error': p2.log()[-300:]}
    out = {}
    try:
        u = socket.socket(socket.AF_INET, socket.SOCK_DGRAM)
        u.sendto(b'via-reverse', ('127.0.0.1', q['ru']))
        sk, r = socks5_connect(q['s'], '0.0.0.0', 0, cmd=3, timeout=4)
        out['socks5-associate'] = r['rep']
        if r['rep'] == 0 and len(r['reply']) >= 10:
            u.sendto(b'\0\0\0' + socks5_addr('127.0.0.1', uo.port) + b'via-socks', ('127.0.0.1', struct.unpack('>H', r['reply'][8:10])[0]))
        hs, code, head, rest = http_connect(q['h'], f'127.0.0.1:{uo.port}', extra_headers=b'Proxy-Protocol: udp\r\n', timeout=4)
        out['http-udp'] = code
        if code == 200:
            body = socks5_addr('127.0.0.1', uo.port)  # not a valid frame necessarily: any bytes must not reach the origin
            hs.sendall(b'\x00\x10' + body + b'via-http')
        time.sleep(0.8)
        out['upstream_connections'] = [c['rx'][:16].hex() for c in up.conns]
        with uo.lock:
            out['origin_datagrams'] = [d[:16].hex() for (_, d, a) in uo.rx]
        out['alive'] = p2.alive()
        sk.close(); hs.close(); u.close()
        return out
    finally:
        p2.stop(); up.stop()

for kind in ('s4', 'lb'):
    evals += 1
    r = no_udp_case(kind)
    if 'error' in r:
        machinery(f'feature case {kind}: {r}')
    distinct.add(('no-udp', kind, bool(r['upstream_connections']), bool(r['origin_datagrams'])))
    rp = {'connector': kind, 'observed': r}
    if r['upstream_connections']:
        chk.violation('routing.feature', f'upstream-opened-for-a-feature-it-cannot-carry:{kind}', f'UDP requests routed to {kind}: the upstream was connected {len(r["upstream_connections"])} time(s), first bytes {r["upstream_connections"][0]}', rp)
    if r['origin_datagrams']:
        chk.violation('routing.feature', f'payload-forwarded-although-refused:{kind}', f'{r["origin_datagrams"]}', rp)
    if r['socks5-associate'] == 0 or r['http-udp'] == 200:
        chk.violation('routing.feature', f'client-told-established:{kind}', f'socks5 associate reply {r["socks5-associate"]}, http {r["http-udp"]}', rp)
    if not r['alive']:
        chk.violation('process', 'proxy-died', kind, rp)
    samples.append(rp)

if not px.alive():
    chk.violation('process', 'proxy-died', px.log()[-300:], {})
px.stop(); o4.stop(); o6.stop()
if evals < 30 or len(distinct) < 10:
    machinery(f'vacuous: evals={evals} distinct={len(distinct)}')
cov = {'evaluations': evals, 'distinct_nontrivial': len(distinct), 'transitions': evals, 'traces_validated_against_impl': evals,
       'rule': 'real binary with dual-stack listeners: client source {127.0.0.1, 127.0.0.2, ::1} x client protocol {http, socks5, socks4, reverse} x target {IPv4, domain, IPv6, a denied port}; 8 rules over request.source.host/type, request.listener, request.target.host/type/port; the recorded connector must equal the first-match reference evaluated on the true attributes, the recorded source must be the real client address, denied requests are refused and reach no origin; an IPv4 destination written as IPv4-mapped IPv6 (3 spellings x http / socks5) is still inside a denied IPv4 range; one rule per request.feature value (TcpForward, UdpForward, UdpBind) with a deny for one UdpBind destination',
       'feature_cases': 'UDP requests (reverse-udp datagram, socks5 associate, http CONNECT udp) routed to a SOCKS4 upstream / a load balancer: refused, upstream never connected', 'schedule_control': 'kernel', 'samples': samples}
sys.exit(chk.finish('model_checking', cov, ['E4 part: the attribute values filters see are observed through the routing decision and the connection record; TPROXY and QUIC listeners are not driven']))
