"""E4 `xnet` — real-socket script / fault enumeration against the real redproxy-rs binary built from /repo.

The enumeration of configurations, scripts and fault points is exhaustive within each check's grid; the kernel's
scheduling between script steps is not controlled, so scripts are lock-step (send, then wait for the specified
reaction) with generous one-sided deadlines. Verdicts that rest on a deadline are re-run once before being reported.
"""
import json, os, socket, struct, subprocess, sys, tempfile, threading, time, http.client, shutil, signal, hashlib

VERIF = '/verif'
BIN = os.environ.get('VERIF_REPO_BIN', '/verif/target/repo-bin/debug/redproxy-rs')
RUNDIR = '/verif/target/e4'
os.makedirs(RUNDIR, exist_ok=True)


def tier():
    return 'thorough' if os.environ.get('VERIF_TIER') == 'thorough' else 'quick'


def seed():
    try:
        return int(os.environ.get('VERIF_SEED', '0'))
    except ValueError:
        return 0


# ------------------------------------------------------------------ findings / evidence (same contract as the Rust side)

class Check:
    def __init__(self, pid):
        self.id = pid
        self.start = time.time()
        self.sigs = {}
        try:
            self.known = json.load(open(f'{VERIF}/known_findings.json'))['findings']
        except Exception:
            self.known = []
        self.notes = []

    def violation(self, site, cls, detail, replay=None):
        key = (site, cls)
        if key not in self.sigs:
            known = None
            for k in self.known:
                if k.get('property') == self.id and k.get('status') == 'known' and k.get('site') == site and k.get('class') == cls:
                    known = k.get('text', '')
            self.sigs[key] = {'count': 0, 'detail': detail, 'replay': replay, 'known': known}
        self.sigs[key]['count'] += 1

    def finish(self, level, coverage, assumptions, merge=True):
        """Writes (or merges into) the evidence file, prints KNOWN-FINDING / VIOLATION lines, returns exit code."""
        wall = time.time() - self.start
        path = os.environ.get('VERIF_EVIDENCE_FILE', f'{VERIF}/evidence/{self.id}.json')
        n_viol = 0
        lines = []
        for (site, cls), s in sorted(self.sigs.items()):
            if s['known'] is not None:
                lines.append(f"KNOWN-FINDING: property={self.id} site={site} class={cls} cases={s['count']} :: {s['known']}")
            else:
                n_viol += 1
                d = f'{VERIF}/replays/{self.id}'
                os.makedirs(d, exist_ok=True)
                fn = f"{d}/e4_{sanitize(site)}__{sanitize(cls)}.json"
                json.dump({'property': self.id, 'site': site, 'class': cls, 'cases': s['count'], 'detail': s['detail'], 'replay': s['replay']}, open(fn, 'w'), indent=1, default=str)
                lines.append(f"VIOLATION property={self.id} replay={fn}  # site={site} class={cls} cases={s['count']} :: {s['detail'][:400]}")
        known_n = sum(1 for s in self.sigs.values() if s['known'] is not None)
        coverage = dict(coverage)
        coverage['known_findings_reproduced'] = known_n
        if self.notes:
            coverage['notes'] = self.notes
        ev = None
        if merge and os.path.exists(path):
            try:
                ev = json.load(open(path))
                if ev.get('property_id') != self.id:
                    ev = None
            except Exception:
                ev = None
        if ev is None:
            ev = {'property_id': self.id, 'tier': tier(), 'seed': seed(), 'level': level, 'coverage': coverage,
                  'assumptions': assumptions, 'wall_s': wall, 'violations': n_viol}
        else:
            c = ev['coverage']
            c['e4'] = coverage
            for k in ('evaluations', 'transitions', 'traces_validated_against_impl'):
                if k in c and k in coverage:
                    c[k] += coverage[k]
            c.setdefault('samples', []).extend(coverage.get('samples', [])[:3])
            c['known_findings_reproduced'] = c.get('known_findings_reproduced', 0) + known_n
            ev['assumptions'] = ev.get('assumptions', []) + assumptions
            ev['wall_s'] = ev.get('wall_s', 0) + wall
            ev['violations'] = ev.get('violations', 0) + n_viol
        os.makedirs(os.path.dirname(path), exist_ok=True)
        json.dump(ev, open(path, 'w'), indent=1, default=str)
        for l in lines:
            print(l)
        print(f"CHECK-DONE property={self.id} tier={tier()} part=e4 violations={n_viol} known={known_n} wall_s={wall:.1f}")
        sys.stdout.flush()
        return 1 if n_viol else 0


def sanitize(s):
    return ''.join(c if (c.isalnum() or c in '.-') else '_%02x' % ord(c) for c in s)[:120]


def machinery(msg):
    print('MACHINERY: ' + msg)
    sys.stdout.flush()
    sys.exit(2)


# ------------------------------------------------------------------ ports, sockets

_port_lock = threading.Lock()
_port_next = [21000 + (os.getpid() % 400) * 20]


def free_port(kind='tcp', host='127.0.0.1'):
    with _port_lock:
        for _ in range(2000):
            p = _port_next[0]
            _port_next[0] += 1
            if _port_next[0] > 60000:
                _port_next[0] = 21000
            try:
                fam = socket.AF_INET6 if ':' in host else socket.AF_INET
                s = socket.socket(fam, socket.SOCK_STREAM)
                s.bind((host, p))
                s.close()
                u = socket.socket(fam, socket.SOCK_DGRAM)
                u.bind((host, p))
                u.close()
                return p
            except OSError:
                continue
    machinery('no free port')


def recv_exact(s, n, timeout=5.0):
    s.settimeout(timeout)
    buf = b''
    while len(buf) < n:
        try:
            c = s.recv(n - len(buf))
        except socket.timeout:
            return buf
        except OSError:
            return buf
        if not c:
            return buf
        buf += c
    return buf


def recv_until_eof(s, timeout=5.0, limit=1 << 26):
    """Returns (bytes, how) with how in {'eof','timeout','reset'}"""
    s.settimeout(timeout)
    buf = b''
    while len(buf) < limit:
        try:
            c = s.recv(65536)
        except socket.timeout:
            return buf, 'timeout'
        except ConnectionResetError:
            return buf, 'reset'
        except OSError:
            return buf, 'reset'
        if not c:
            return buf, 'eof'
        buf += c
    return buf, 'limit'


def recv_head(s, timeout=5.0):
    """Reads an HTTP head (up to CRLFCRLF). Returns (head, leftover)."""
    s.settimeout(timeout)
    buf = b''
    while b'\r\n\r\n' not in buf and len(buf) < 65536:
        try:
            c = s.recv(4096)
        except (socket.timeout, OSError):
            break
        if not c:
            break
        buf += c
    i = buf.find(b'\r\n\r\n')
    if i < 0:
        return buf, b''
    return buf[:i + 4], buf[i + 4:]


# ------------------------------------------------------------------ origin servers

class Origin:
    """Threaded TCP origin. mode: 'echo' | 'record' (collect until EOF then close) | callable(conn, addr, self)."""

    def __init__(self, mode='echo', host='127.0.0.1', banner=b''):
        self.mode = mode
        self.banner = banner
        fam = socket.AF_INET6 if ':' in host else socket.AF_INET
        self.sock = socket.socket(fam, socket.SOCK_STREAM)
        self.sock.setsockopt(socket.SOL_SOCKET, socket.SO_REUSEADDR, 1)
        self.sock.bind((host, 0))
        self.sock.listen(64)
        self.port = self.sock.getsockname()[1]
        self.host = host
        self.conns = []  # dicts: {'rx': bytes, 'eof': bool, 'peer':..}
        self.lock = threading.Lock()
        self.stopped = False
        self.t = threading.Thread(target=self._accept, daemon=True)
        self.t.start()

    def _accept(self):
        while not self.stopped:
            try:
                c, a = self.sock.accept()
            except OSError:
                return
            rec = {'rx': b'', 'eof': False, 'peer': a, 'sock': c, 'closed': False, 'how': None}
            with self.lock:
                self.conns.append(rec)
            threading.Thread(target=self._serve, args=(c, a, rec), daemon=True).start()

    def _serve(self, c, a, rec):
        try:
            if self.banner:
                c.sendall(self.banner)
            if callable(self.mode):
                self.mode(c, a, rec)
                return
            c.settimeout(900)
            while True:
                try:
                    d = c.recv(65536)
                except ConnectionResetError:
                    rec['how'] = 'reset'
                    break
                except (socket.timeout, OSError):
                    rec['how'] = 'timeout'
                    break
                if not d:
                    rec['eof'] = True
                    rec['how'] = 'eof'
                    break
                rec['rx'] += d
                if self.mode == 'echo':
                    c.sendall(d)
        except OSError:
            pass
        finally:
            try:
                c.close()
            except OSError:
                pass
            rec['closed'] = True

    def stop(self):
        self.stopped = True
        try:
            # wakes a thread blocked in accept(): otherwise the kernel keeps the listening socket (and the port) alive
            self.sock.shutdown(socket.SHUT_RDWR)
        except OSError:
            pass
        try:
            self.sock.close()
        except OSError:
            pass
        with self.lock:
            for r in self.conns:
                try:
                    r['sock'].close()
                except OSError:
                    pass

    def wait_conns(self, n, timeout=3.0):
        t = time.time()
        while time.time() - t < timeout:
            with self.lock:
                if len(self.conns) >= n:
                    return True
            time.sleep(0.01)
        return False


# ------------------------------------------------------------------ the proxy under test

_ALL_PROXIES = []


def _stop_all_proxies():
    for p in list(_ALL_PROXIES):
        try:
            p.stop(keep=True)
        except Exception:
            pass


import atexit
atexit.register(_stop_all_proxies)


class Proxy:
    def __init__(self, cfg, name='p'):
        self.cfg = cfg
        self.dir = tempfile.mkdtemp(prefix=f'{name}-', dir=RUNDIR)
        self.cfg_path = os.path.join(self.dir, 'config.yaml')
        cfg.setdefault('apiVersion', 'v1alpha')
        cfg.setdefault('kind', 'ProxyDefinition')
        json.dump(cfg, open(self.cfg_path, 'w'), indent=1)  # JSON is YAML
        self.proc = None
        self.logf = None
        _ALL_PROXIES.append(self)

    def test_mode(self, timeout=20):
        """runs `--test x`; returns (returncode, output)"""
        try:
            r = subprocess.run([BIN, '-c', self.cfg_path, '--test', 'x', '-l', 'warn'], cwd=self.dir, capture_output=True, timeout=timeout)
            return r.returncode, (r.stdout + r.stderr).decode('utf8', 'replace')
        except subprocess.TimeoutExpired:
            return 'timeout', ''

    def start(self, wait_ports=(), timeout=10.0, env=None, log_level='warn', preexec=None):
        self.logf = open(os.path.join(self.dir, 'log.txt'), 'wb')
        e = dict(os.environ)
        e['NO_COLOR'] = '1'
        if env:
            e.update(env)
        self.proc = subprocess.Popen([BIN, '-c', self.cfg_path, '-l', log_level], cwd=self.dir, stdout=self.logf, stderr=subprocess.STDOUT, env=e, preexec_fn=preexec)
        t = time.time()
        pending = list(wait_ports)
        while pending and time.time() - t < timeout:
            if self.proc.poll() is not None:
                return False
            p = pending[0]
            host, port = p if isinstance(p, tuple) else ('127.0.0.1', p)
            try:
                s = socket.create_connection((host, port), timeout=0.3)
                s.close()
                pending.pop(0)
            except OSError:
                time.sleep(0.02)
        return not pending and self.proc.poll() is None

    def alive(self):
        return self.proc is not None and self.proc.poll() is None

    def returncode(self):
        return None if self.proc is None else self.proc.poll()

    def log(self):
        try:
            self.logf.flush()
            return open(os.path.join(self.dir, 'log.txt'), 'rb').read().decode('utf8', 'replace')
        except Exception:
            return ''

    def stop(self, keep=False):
        if self.proc is not None and self.proc.poll() is None:
            self.proc.terminate()
            try:
                self.proc.wait(timeout=3)
            except subprocess.TimeoutExpired:
                self.proc.kill()
                self.proc.wait()
        if self.logf:
            self.logf.close()
        if not keep and not os.environ.get('VERIF_KEEP'):
            shutil.rmtree(self.dir, ignore_errors=True)

    def api(self, method, path, body=None, port=None, timeout=5.0, prefix='/api'):
        port = port or self.api_port
        try:
            c = http.client.HTTPConnection('127.0.0.1', port, timeout=timeout)
            hdr = {'Content-Type': 'application/json'} if body is not None else {}
            c.request(method, prefix + path, body=body, headers=hdr)
            r = c.getresponse()
            data = r.read()
            c.close()
            return r.status, data
        except Exception as e:
            return None, repr(e).encode()


# ------------------------------------------------------------------ protocol clients

def http_connect(port, target, early=b'', host='127.0.0.1', extra_headers=b'', timeout=5.0, sock=None):
    """Returns (sock, status_code or None, head bytes, leftover bytes)"""
    s = sock or socket.create_connection((host, port), timeout=timeout)
    s.sendall(b'CONNECT ' + target.encode() + b' HTTP/1.1\r\nHost: ' + target.encode() + b'\r\n' + extra_headers + b'\r\n' + early)
    head, rest = recv_head(s, timeout)
    code = None
    try:
        code = int(head.split(b' ')[1])
    except Exception:
        pass
    return s, code, head, rest


def socks5_addr(host, port):
    try:
        return b'\x01' + socket.inet_aton(host) + struct.pack('>H', port)
    except (OSError, ValueError, TypeError):
        pass
    try:
        return b'\x04' + socket.inet_pton(socket.AF_INET6, host) + struct.pack('>H', port)
    except (OSError, ValueError, TypeError):
        pass
    hb = host.encode() if isinstance(host, str) else host
    return b'\x03' + bytes([len(hb)]) + hb + struct.pack('>H', port)


def socks5_connect(port, thost, tport, methods=(0,), userpass=None, early=b'', cmd=1, host='127.0.0.1', timeout=5.0, sock=None):
    """Returns (sock, dict(method=..., auth=..., rep=..., reply=bytes, leftover=bytes))"""
    s = sock or socket.create_connection((host, port), timeout=timeout)
    out = {'method': None, 'auth': None, 'rep': None, 'reply': b'', 'leftover': b''}
    s.sendall(bytes([5, len(methods)]) + bytes(methods))
    r = recv_exact(s, 2, timeout)
    if len(r) < 2:
        return s, out
    out['method'] = r[1]
    if r[1] == 0xff:
        return s, out
    if r[1] == 2:
        u, p = userpass if userpass else (b'', b'')
        s.sendall(b'\x01' + bytes([len(u)]) + u + bytes([len(p)]) + p)
        a = recv_exact(s, 2, timeout)
        if len(a) < 2:
            return s, out
        out['auth'] = a[1]
    s.sendall(bytes([5, cmd, 0]) + socks5_addr(thost, tport) + early)
    h = recv_exact(s, 4, timeout)
    out['reply'] = h
    if len(h) < 4:
        return s, out
    out['rep'] = h[1]
    n = {1: 6, 4: 18}.get(h[3])
    if h[3] == 3:
        l = recv_exact(s, 1, timeout)
        out['reply'] += l
        n = (l[0] if l else 0) + 2
    if n:
        out['reply'] += recv_exact(s, n, timeout)
    return s, out


def socks4_connect(port, thost, tport, userid=b'id', early=b'', host='127.0.0.1', timeout=5.0):
    s = socket.create_connection((host, port), timeout=timeout)
    try:
        ip = socket.inet_aton(thost)
        msg = bytes([4, 1]) + struct.pack('>H', tport) + ip + userid + b'\0'
    except OSError:
        msg = bytes([4, 1]) + struct.pack('>H', tport) + b'\0\0\0\x07' + userid + b'\0' + thost.encode() + b'\0'
    s.sendall(msg + early)
    r = recv_exact(s, 8, timeout)
    return s, r


def pattern(n, salt=0):
    """position-dependent byte pattern"""
    import itertools
    base = bytes((i * 7 + salt + (i >> 8)) & 0xff for i in range(4096))
    reps = n // 4096 + 1
    return (base * reps)[:n]


def run_parallel(items, fn, workers=12):
    out = [None] * len(items)
    idx = [0]
    lock = threading.Lock()

    def w():
        while True:
            with lock:
                i = idx[0]
                idx[0] += 1
            if i >= len(items):
                return
            try:
                out[i] = fn(items[i])
            except Exception as e:
                out[i] = ('exception', repr(e))
    ts = [threading.Thread(target=w, daemon=True) for _ in range(min(workers, max(1, len(items))))]
    for t in ts:
        t.start()
    for t in ts:
        t.join()
    return out


# ------------------------------------------------------------------ fake upstream proxies (behaviour chosen by the requested host name)

def _echo_loop(c):
    c.settimeout(900)
    try:
        while True:
            d = c.recv(65536)
            if not d:
                break
            c.sendall(d)
    except OSError:
        pass


def fake_http_proxy(c, a, rec):
    """ok.test -> 200 then echo; no.test -> 403 with body; close.test -> close; garbage.test -> garbage; slow.test -> never answers"""
    head, rest = recv_head(c, 10)
    rec['rx'] += head
    try:
        target = head.split(b' ')[1].decode()
    except Exception:
        return
    host = target.rsplit(':', 1)[0]
    rec['target'] = target
    if host == 'ok.test' or host.startswith('127.') or host.startswith('['):
        c.sendall(b'HTTP/1.1 200 OK\r\n\r\n')
        if rest:
            c.sendall(rest)
        _echo_loop(c)
    elif host == 'no.test':
        c.sendall(b'HTTP/1.1 403 Forbidden\r\nContent-Length: 2\r\n\r\nno')
    elif host.startswith('wordy-'):
        # a refusal the way real proxies word it: several headers, n bytes of explanation
        n = int(host.split('-')[1].split('.')[0])
        c.sendall(b'HTTP/1.1 403 Forbidden\r\nServer: fake/1.0\r\nVia: 1.1 fake\r\nX-Reason: ' + b'r' * n + b'\r\nContent-Length: 2\r\nConnection: close\r\n\r\nno')
    elif host == 'garbage.test':
        c.sendall(b'\x00\x01\x02 garbage\r\n\r\n')
    elif host == 'slow.test':
        time.sleep(30)
    elif host.startswith('status-'):
        # other legal spellings of a success status line (RFC 7230: the reason phrase may be empty)
        line = {'status-noreason': b'HTTP/1.1 200 ', 'status-http10': b'HTTP/1.0 200 OK', 'status-longreason': b'HTTP/1.1 200 Connection established, go ahead',
                'status-201': b'HTTP/1.1 201 Created', 'status-299': b'HTTP/1.1 299 Fine',
                # header fields without the optional blank behind the colon, with blanks around the value
                'status-hdr-nospace': b'HTTP/1.1 200 OK\r\nVia:1.1 fake\r\nX-A:b', 'status-hdr-spaces': b'HTTP/1.1 200 OK\r\nVia:   1.1 fake  \r\nX-Empty:',
                }.get(host.split('.')[0], b'HTTP/1.1 200 OK')
        c.sendall(line + b'\r\n\r\n')
        if rest:
            c.sendall(rest)
        _echo_loop(c)
    elif host == 'blankline.test':
        # a line of blanks inside the head is not the end of the head: what follows it must not reach the client as payload
        c.sendall(b'HTTP/1.1 200 OK\r\nA: b\r\n \r\nSecret-Header: must-not-leak\r\n\r\n')
        time.sleep(0.5)
    elif host.startswith('dressed-'):
        # a 200 with headers a CONNECT reply may carry and that mean nothing there (RFC 9110 9.3.6: Content-Length and
        # Transfer-Encoding in a 2xx reply to CONNECT are ignored), then the origin's n bytes, glued or 0.3 s later
        _, k, n, how = host.split('.')[0].split('-')
        c.sendall(b'HTTP/1.1 200 Connection established\r\nContent-Length: %d\r\nVia: 1.1 fake\r\nConnection: keep-alive\r\n\r\n' % int(k) + (b'B' * int(n) if how == 'glued' else b''))
        if how != 'glued':
            time.sleep(0.3)
            c.sendall(b'B' * int(n))
        if rest:
            c.sendall(rest)
        _echo_loop(c)
    elif host.startswith('glued-'):
        # the origin speaks first and its n bytes travel in the same segment as the proxy's reply
        n = int(host.split('-')[1].split('.')[0])
        c.sendall(b'HTTP/1.1 200 OK\r\n\r\n' + b'B' * n)
        if rest:
            c.sendall(rest)
        _echo_loop(c)
    elif host.startswith('late-'):
        # answers 200 after n seconds, then echoes
        time.sleep(float(host.split('-')[1].split('.')[0]))
        c.sendall(b'HTTP/1.1 200 OK\r\n\r\n')
        _echo_loop(c)
    # close.test: just return (close)


def fake_socks_proxy(c, a, rec):
    v = recv_exact(c, 1, 10)
    if v == b'\x05':
        n = recv_exact(c, 1, 5)
        recv_exact(c, n[0] if n else 0, 5)
        # peek the behaviour later from the request; greeting reply first
        c.sendall(b'\x05\x00')
        h = recv_exact(c, 4, 5)
        if len(h) < 4:
            return
        host = ''
        if h[3] == 1:
            host = socket.inet_ntoa(recv_exact(c, 4, 5))
        elif h[3] == 4:
            host = socket.inet_ntop(socket.AF_INET6, recv_exact(c, 16, 5))
        elif h[3] == 3:
            l = recv_exact(c, 1, 5)
            host = recv_exact(c, l[0], 5).decode('utf8', 'replace')
        port = struct.unpack('>H', recv_exact(c, 2, 5))[0]
        rec['target'] = f'{host}:{port}'
        rec['cmd'] = h[1]
        if host == 'no.test':
            c.sendall(b'\x05\x05\x00\x01\0\0\0\0\0\0')
        elif host == 'garbage.test':
            c.sendall(b'\x09\x09\x09')
        elif host == 'close.test':
            return
        elif host == 'slow.test':
            time.sleep(30)
        elif host.startswith('glued-'):
            n = int(host.split('-')[1].split('.')[0])
            c.sendall(b'\x05\x00\x00\x01\0\0\0\0\0\0' + b'B' * n)
            _echo_loop(c)
        elif host.startswith('v4reply-'):
            # a SOCKS4-format reply on a SOCKS5 session
            c.sendall(b'\x00' + bytes([int(host.split('-')[1].split('.')[0])]) + b'\0\0\0\0\0\0')
            time.sleep(1)
        else:
            c.sendall(b'\x05\x00\x00\x01\0\0\0\0\0\0')
            _echo_loop(c)
    elif v == b'\x04':
        h = recv_exact(c, 7, 5)
        if len(h) < 7:
            return
        port = struct.unpack('>H', h[1:3])[0]
        ip = h[3:7]
        buf = b''
        while not buf.endswith(b'\0'):
            d = recv_exact(c, 1, 5)
            if not d:
                return
            buf += d
        host = socket.inet_ntoa(ip)
        if ip[:3] == b'\0\0\0' and ip[3] != 0:
            buf = b''
            while not buf.endswith(b'\0'):
                d = recv_exact(c, 1, 5)
                if not d:
                    return
                buf += d
            host = buf[:-1].decode('utf8', 'replace')
        rec['target'] = f'{host}:{port}'
        if host == 'no.test':
            c.sendall(b'\x00\x5b\0\0\0\0\0\0')
        elif host.startswith('cd-'):
            # any reply code: only 90 means granted
            c.sendall(b'\x00' + bytes([int(host.split('-')[1].split('.')[0])]) + b'\0\0\0\0\0\0')
            if int(host.split('-')[1].split('.')[0]) == 90:
                _echo_loop(c)
        elif host == 'garbage.test':
            c.sendall(b'\x09\x09\x09')
        elif host == 'close.test':
            return
        elif host == 'slow.test':
            time.sleep(30)
        else:
            c.sendall(b'\x00\x5a\0\0\0\0\0\0')
            _echo_loop(c)


# ------------------------------------------------------------------ UDP helpers

CERTS = '/verif/target/certs'


def ensure_certs():
    if not os.path.exists(f'{CERTS}/done'):
        subprocess.run(['/verif/bin/mkcerts'], check=True)


def rpfm_addr(host, port):
    try:
        return bytes([1, 6]) + socket.inet_aton(host) + struct.pack('>H', port)
    except OSError:
        pass
    try:
        return bytes([2, 18]) + socket.inet_pton(socket.AF_INET6, host) + struct.pack('>H', port)
    except OSError:
        pass
    hb = host.encode()
    return bytes([3, len(hb) + 2]) + hb + struct.pack('>H', port)


def rpfm_frame(session, host, port, body):
    a = rpfm_addr(host, port) if host is not None else b''
    return b'RPFM' + struct.pack('>IHH', session, len(a), len(body)) + a + body


def rpfm_read(sock, timeout=3.0):
    """reads one frame from a stream socket: returns (session, addr(str)|None, body) or None on timeout/EOF"""
    h = recv_exact(sock, 12, timeout)
    if len(h) < 12 or h[:4] != b'RPFM':
        return None
    session, al, bl = struct.unpack('>IHH', h[4:12])
    rest = recv_exact(sock, al + bl, timeout)
    if len(rest) < al + bl:
        return None
    attr, body = rest[:al], rest[al:]
    addr = None
    if al >= 2:
        t, l = attr[0], attr[1]
        v = attr[2:2 + l]
        if t == 1 and len(v) == 6:
            addr = f'{socket.inet_ntoa(v[:4])}:{struct.unpack(">H", v[4:])[0]}'
        elif t == 2 and len(v) == 18:
            addr = f'[{socket.inet_ntop(socket.AF_INET6, v[:16])}]:{struct.unpack(">H", v[16:])[0]}'
        elif t == 3 and len(v) >= 2:
            addr = f'{v[:-2].decode("utf8", "replace")}:{struct.unpack(">H", v[-2:])[0]}'
    return session, addr, body


def socks_udp_decode(d):
    """returns (addr str, payload) of a SOCKS5 UDP datagram"""
    if len(d) < 4:
        return None, d
    at = d[3]
    if at == 1 and len(d) >= 10:
        return f'{socket.inet_ntoa(d[4:8])}:{struct.unpack(">H", d[8:10])[0]}', d[10:]
    if at == 4 and len(d) >= 22:
        return f'[{socket.inet_ntop(socket.AF_INET6, d[4:20])}]:{struct.unpack(">H", d[20:22])[0]}', d[22:]
    if at == 3 and len(d) >= 5:
        l = d[4]
        return f'{d[5:5 + l].decode("utf8", "replace")}:{struct.unpack(">H", d[5 + l:7 + l])[0]}', d[7 + l:]
    return None, d


class UdpOrigin:
    """UDP echo origin on 127.0.0.1 and ::1 (same port): logs every datagram, replies with b'R' + payload"""

    def __init__(self, reply=True):
        self.s4 = socket.socket(socket.AF_INET, socket.SOCK_DGRAM)
        self.s4.bind(('127.0.0.1', 0))
        self.port = self.s4.getsockname()[1]
        self.s6 = socket.socket(socket.AF_INET6, socket.SOCK_DGRAM)
        try:
            self.s6.bind(('::1', self.port))
        except OSError:
            self.s6 = None
        for s in (self.s4, self.s6):
            if s:
                s.setsockopt(socket.SOL_SOCKET, socket.SO_RCVBUF, 4 << 20)
        self.rx = []  # (family, payload, from)
        self.lock = threading.Lock()
        self.reply = reply
        for s, fam in ((self.s4, 4), (self.s6, 6)):
            if s:
                threading.Thread(target=self._loop, args=(s, fam), daemon=True).start()

    def _loop(self, s, fam):
        while True:
            try:
                d, a = s.recvfrom(70000)
            except OSError:
                return
            with self.lock:
                self.rx.append((fam, d, a))
            if self.reply:
                try:
                    s.sendto(b'R' + d, a)
                except OSError:
                    pass

    def count(self, payload, peers=None):
        with self.lock:
            return sum(1 for (_, d, a) in self.rx if d == payload and (peers is None or a[:2] in peers))

    def peers_of(self, payload):
        with self.lock:
            return set(a[:2] for (_, d, a) in self.rx if d == payload)

    def stop(self):
        for s in (self.s4, self.s6):
            if s:
                s.close()
