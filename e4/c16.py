#!/usr/bin/env python3
"""C16 (real binary): accounting on real sockets. One long history per proxy configuration (historySize x useSplice):
(1) every ordered pair of operations from the alphabet {relayed, early data, origin closes first, denied, connect
refused, dead upstream proxy, aborted, handshake garbage, handshake EOF, relayed via an upstream proxy, relayed / refused through nested load balancers (the record must name the leaf connector)} x {http, https,
socks5, socks4, reverse} run strictly one after the other; (2) groups of three connections held open together (all must
be listed live, with distinct ids) and closed in every order; (3) a burst larger than the history with the log rotated
(rename + POST /logrotate or SIGUSR1) in the middle. At every checkpoint: /live, /history (newest-first, bounded) and
the access log (exactly once) are compared with what the clients and origins actually did."""
import sys, json, ssl, signal, itertools
sys.path.insert(0, '/verif/e4')
from lib import *

chk = Check('C16')
ensure_certs()
THOROUGH = tier() == 'thorough'
echo = Origin('echo')
echo2 = Origin('echo')
fakeh = Origin(fake_http_proxy)    # upstream proxies that glue the origin's first bytes to their own reply
fakes = Origin(fake_socks_proxy)
echo3 = Origin('echo')
CLOSED_LB = free_port()
def once(c, a, rec):
    c.sendall(b'BYE!!')
    c.close()
bye = Origin(once)
class SlowSink:
    """origin with a small receive buffer that starts reading late and reads in small pieces (back-pressure on the
    proxy's upstream leg), then answers b'DONE' and closes"""
    def __init__(self):
        self.sock = socket.socket(socket.AF_INET, socket.SOCK_STREAM)
        self.sock.setsockopt(socket.SOL_SOCKET, socket.SO_REUSEADDR, 1)
        self.sock.setsockopt(socket.SOL_SOCKET, socket.SO_RCVBUF, 8192)
        self.sock.bind(('127.0.0.1', 0))
        self.sock.listen(16)
        self.port = self.sock.getsockname()[1]
        self.got = {}
        threading.Thread(target=self._accept, daemon=True).start()
    def _accept(self):
        while True:
            try:
                c, a = self.sock.accept()
            except OSError:
                return
            threading.Thread(target=self._serve, args=(c, a), daemon=True).start()
    def _serve(self, c, a):
        n = 0
        try:
            time.sleep(0.5)
            c.settimeout(20)
            while True:
                d = c.recv(3000)
                if not d:
                    break
                n += len(d)
            c.sendall(b'DONE')
        except OSError:
            pass
        self.got[a[1]] = n
        c.close()
    def stop(self):
        try:
            self.sock.shutdown(socket.SHUT_RDWR)
        except OSError:
            pass
        self.sock.close()
sink = SlowSink()
CLOSED = free_port()
DEADP = free_port()
TLSS = {'cert': f'{CERTS}/server.crt', 'key': f'{CERTS}/server.key'}

hopb_port = free_port()
hopb = Proxy({'listeners': [{'name': 'http', 'bind': f'127.0.0.1:{hopb_port}'}], 'connectors': [{'name': 'direct'}], 'rules': [{'target': 'direct'}]}, 'c16b')
if not hopb.start([hopb_port]):
    machinery('hop B did not start')

def mk(hsize, splice):
    p = {k: free_port() for k in ('http', 'https', 'socks', 'rev', 'api')}
    cfg = {'listeners': [
        {'name': 'http', 'bind': f"127.0.0.1:{p['http']}"},
        {'name': 'https', 'type': 'http', 'bind': f"127.0.0.1:{p['https']}", 'tls': TLSS},
        {'name': 'socks', 'bind': f"127.0.0.1:{p['socks']}"},
        {'name': 'rev', 'type': 'reverse', 'bind': f"127.0.0.1:{p['rev']}", 'target': f'127.0.0.1:{echo.port}'}],
        'connectors': [{'name': 'direct'}, {'name': 'up', 'type': 'http', 'server': '127.0.0.1', 'port': hopb_port},
                       {'name': 'fakeh', 'type': 'http', 'server': '127.0.0.1', 'port': fakeh.port}, {'name': 'fakes', 'type': 'socks', 'server': '127.0.0.1', 'port': fakes.port},
                       {'name': 'dead', 'type': 'http', 'server': '127.0.0.1', 'port': DEADP},
                       {'name': 'lb-inner', 'type': 'loadbalance', 'connectors': ['direct']},
                       {'name': 'lb-outer', 'type': 'loadbalance', 'connectors': ['lb-inner']}],
        'rules': [{'filter': 'request.target.host == "deny.test"', 'target': 'deny'},
                  {'filter': 'request.target.host == "dead.test"', 'target': 'dead'},
                  {'filter': f'request.target.port == {echo2.port}', 'target': 'up'},
                  {'filter': 'request.target.host =~ "^glued-" && request.target.port == 81', 'target': 'fakeh'},
                  {'filter': 'request.target.host =~ "^glued-" && request.target.port == 82', 'target': 'fakes'},
                  {'filter': f'request.target.port == {echo3.port}', 'target': 'lb-outer'},
                  {'filter': f'request.target.port == {CLOSED_LB}', 'target': 'lb-inner'},
                  {'target': 'direct'}],
        'accessLog': {'path': 'access.log', 'format': 'json'},
        'metrics': {'bind': f"127.0.0.1:{p['api']}", 'ui': None, 'historySize': hsize},
        'ioParams': {'bufferSize': 4096, 'useSplice': splice}}
    px = Proxy(cfg, 'c16')
    px.api_port = p['api']
    if not px.start([p['http'], p['https'], p['socks'], p['rev'], p['api']]):
        machinery('proxy did not start: ' + px.log()[-600:])
    return px, p

def tls_wrap(s):
    return ssl.create_default_context(cafile=f'{CERTS}/ca.crt').wrap_socket(s, server_hostname='localhost')

SEQ = itertools.count()
BANNER_FAILS = [0]

class Conn:
    """one client connection and what it actually did"""
    def __init__(self, p, listener, kind):
        self.listener, self.kind = listener, kind
        self.p = p
        self.sock = None
        self.source = None
        self.target = None
        self.connector = None
        self.terminal = None       # expected terminal state
        self.up = self.down = None  # payload bytes relayed client->origin / origin->client (None: not judged)
        self.handshake_failed = False
        self.note = ''

    def lname(self):
        return {'http': 'http', 'https': 'https', 'socks5': 'socks', 'socks4': 'socks', 'rev': 'rev'}[self.listener]

    def _tcp(self):
        port = self.p[{'http': 'http', 'https': 'https', 'socks5': 'socks', 'socks4': 'socks', 'rev': 'rev'}[self.listener]]
        s = socket.create_connection(('127.0.0.1', port), timeout=5)
        self.source = '%s:%d' % s.getsockname()
        self.seq = next(SEQ)
        if self.listener == 'https':
            s = tls_wrap(s)
        self.sock = s
        return s

    def _request(self, host, port, early=b''):
        """returns True when the proxy reported the tunnel established"""
        s = self._tcp()
        self.target = f'{host}:{port}'
        if self.listener in ('http', 'https'):
            _, code, head, rest = http_connect(None, self.target, early=early, sock=s, timeout=5)
            self.rest = rest
            return code == 200
        if self.listener == 'socks5':
            _, r = socks5_connect(None, host, port, early=early, sock=s, timeout=5)
            self.rest = b''
            return r['rep'] == 0
        if self.listener == 'socks4':
            s.sendall(b'\x04\x01' + struct.pack('>H', port) + (socket.inet_aton(host) if host[0].isdigit() else b'\0\0\0\x01') + b'id\0' + (b'' if host[0].isdigit() else host.encode() + b'\0') + early)
            r = recv_exact(s, 8, 5)
            self.rest = b''
            return len(r) == 8 and r[1] == 90
        self.rest = b''
        if early:
            s.sendall(early)
        return True

    def open(self):
        """first half: everything up to the point where the connection is held open; returns False when it already ended"""
        k = self.kind
        if k == 'via-lb-refused':
            self._request('127.0.0.1', CLOSED_LB)
            self.connector = 'direct'   # the member the balancer asked, not the balancer
            self.terminal = 'ErrorOccured'
            return True
        if k in ('relay', 'early', 'abort', 'via-up', 'hold', 'via-lb'):
            o = echo2 if k == 'via-up' else echo3 if k == 'via-lb' else echo
            early = b'EARLY' if k == 'early' else b''
            if self.listener == 'rev':
                self.target = f'127.0.0.1:{echo.port}'
            ok = self._request('127.0.0.1', o.port, early)
            if not ok:
                self.note = 'tunnel not established'
                self.terminal = '?'
                return False
            self.connector = 'up' if k == 'via-up' else 'direct'
            n = 0
            if early:
                got = self.rest + recv_exact(self.sock, 5 - len(self.rest), 5)
                n = len(got)
            msg = {'relay': b'payload', 'early': b'abc', 'abort': b'abrt', 'via-up': b'via-up', 'hold': b'h', 'via-lb': b'via-lb'}[k]
            self.sock.sendall(msg)
            got = recv_exact(self.sock, len(msg), 5)
            self.up = self.down = n + len(got)
            if len(got) != len(msg):
                self.note = 'echo incomplete'
            self.terminal = 'ErrorOccured' if k == 'abort' else 'Terminated'
            return True
        if k in ('banner-glued-http', 'banner-glued-socks'):
            # the upstream proxy's reply and the origin's first 43 bytes arrive together: they are payload of the
            # origin -> client direction
            ok = self._request('glued-43.test', 81 if k.endswith('http') else 82)
            if not ok:
                self.note = 'tunnel not established'
                self.terminal = '?'
                return False
            self.connector = 'fakeh' if k.endswith('http') else 'fakes'
            # (on a tree that loses these bytes every such connection would wait out its deadline: after three
            # failures the deadline shrinks, the verdict is the same)
            dl = 5 if BANNER_FAILS[0] < 3 else 0.3
            banner = self.rest + recv_exact(self.sock, 43 - len(self.rest), dl)
            self.sock.sendall(b'x' * 1000)
            got = recv_exact(self.sock, 1000, dl)
            if len(banner) != 43 or len(got) != 1000:
                BANNER_FAILS[0] += 1
            self.up, self.down = 1000, len(banner) + len(got)
            if banner != b'B' * 43 or len(got) != 1000:
                self.note = f'banner {banner[:10]!r} / echo {len(got)}'
            self.terminal = 'Terminated'
            return True
        if k == 'slow-bulk':
            ok = self._request('127.0.0.1', sink.port)
            if not ok:
                self.note = 'tunnel not established'
                self.terminal = '?'
                return False
            self.connector = 'direct'
            n = 6 << 20
            self.sock.settimeout(30)
            self.sock.sendall(pattern(n, 7))
            self.sock.shutdown(socket.SHUT_WR)
            got = self.rest + recv_until_eof(self.sock, 30)[0]
            self.up, self.down = n, len(got)
            if got != b'DONE':
                self.note = f'answer {got[:20]!r}'
            self.terminal = 'Terminated'
            return True
        if k == 'origin-closes':
            ok = self._request('127.0.0.1', bye.port)
            self.connector = 'direct'
            got = self.rest + recv_until_eof(self.sock, 5)[0]
            self.up, self.down = 0, len(got)
            self.terminal = 'Terminated'
            return True
        if k == 'denied':
            self._request('deny.test', 80)
            self.terminal = 'ErrorOccured'
            return True
        if k == 'refused':
            self._request('127.0.0.1', CLOSED)
            self.connector = 'direct'
            self.terminal = 'ErrorOccured'
            return True
        if k == 'dead-upstream':
            self._request('dead.test', 80)
            self.connector = 'dead'
            self.terminal = 'ErrorOccured'
            return True
        if k == 'garbage':
            s = self._tcp()
            s.sendall(b'\x00\xffgarbage\r\n\r\n')
            recv_until_eof(s, 3)
            self.handshake_failed = True
            self.terminal = 'ErrorOccured'
            return True
        if k == 'eof':
            self._tcp()
            if self.listener == 'rev':
                self.target = f'127.0.0.1:{echo.port}'
                self.connector = 'direct'
                self.up = self.down = 0
                self.terminal = 'Terminated'
                time.sleep(0.05)
            else:
                self.handshake_failed = True
                self.terminal = 'ErrorOccured'
            return True
        raise ValueError(k)

    def close(self):
        s = self.sock
        if s is None:
            return
        try:
            if self.kind == 'abort':
                raw = s
                raw.setsockopt(socket.SOL_SOCKET, socket.SO_LINGER, struct.pack('ii', 1, 0))
            elif isinstance(s, ssl.SSLSocket) and self.terminal == 'Terminated':
                # a clean end of a TLS stream is a close_notify; closing the TCP connection under it is a truncation
                try:
                    s.settimeout(3)
                    s = s.unwrap()
                except (OSError, ValueError):
                    pass
            s.close()
        except OSError:
            pass
        self.sock = None

KINDS = ['relay', 'early', 'origin-closes', 'denied', 'refused', 'dead-upstream', 'abort', 'garbage', 'eof', 'via-up', 'via-lb', 'via-lb-refused', 'banner-glued-http', 'banner-glued-socks']
def alphabet():
    out = []
    for l in ('http', 'https', 'socks5', 'socks4', 'rev'):
        for k in KINDS:
            if l == 'rev' and k not in ('relay', 'abort', 'eof'):
                continue
            if l == 'https' and k == 'abort':
                continue   # a TLS client cannot choose to reset without the library sending close_notify first
            if l == 'socks4' and k in ('dead-upstream',) and False:
                continue
            out.append((l, k))
    return out

def live(px):
    st, body = px.api('GET', '/live')
    if st != 200:
        machinery(f'GET /live -> {st} {body[:100]!r}')
    return json.loads(body)

def history(px):
    st, body = px.api('GET', '/history')
    if st != 200:
        machinery(f'GET /history -> {st} {body[:100]!r}')
    return json.loads(body)

def key(rec):
    return (rec.get('listener'), rec.get('source'))

def wait_gone(px, c, limit=3.0):
    t = time.time()
    while time.time() - t < limit:
        if not any(key(r) == (c.lname(), c.source) for r in live(px)):
            return True
        time.sleep(0.01)
    return False

evals = 0
distinct = set()
samples = []
GRAMMAR = ['ClientConnected', 'ClientRequested', 'ServerConnecting', 'Connected']
def lifecycle(states, has_err):
    i = 0
    if not states or states[0] != 'ClientConnected':
        return 'does not start with ClientConnected'
    i = 1
    if states[i:i + 1] == ['ClientRequested']:
        i += 1
        if states[i:i + 1] == ['ServerConnecting']:
            i += 1
            if states[i:i + 1] == ['Connected']:
                i += 1
                seen = set()
                while i < len(states) and states[i] in ('ClientShutdown', 'ServerShutdown') and states[i] not in seen:
                    seen.add(states[i])
                    i += 1
    if i != len(states) - 1:
        return f'no single terminal state at the end: {states}'
    if states[i] == 'Terminated':
        return 'Terminated but an error text is recorded' if has_err else None
    if states[i] == 'ErrorOccured':
        return None if has_err else 'ErrorOccured without error text'
    return f'unexpected state {states[i]}'

def judge_record(cfgname, c, rec):
    rp = {'listener': c.listener, 'kind': c.kind, 'config': cfgname}
    site = 'accounting.record'
    if not c.handshake_failed and c.target is not None and rec.get('target') != c.target:
        chk.violation(site, f'wrong-target:{c.listener}/{c.kind}', f'{cfgname}: recorded {rec.get("target")!r}, used {c.target!r}', rp)
    if not c.handshake_failed and rec.get('connector') != c.connector:
        chk.violation(site, f'wrong-upstream:{c.listener}/{c.kind}', f'{cfgname}: recorded connector {rec.get("connector")!r}, expected {c.connector!r}', rp)
    states = [s.get('state') for s in rec.get('state', [])]
    e = lifecycle(states, isinstance(rec.get('error'), str))
    if e:
        chk.violation('accounting.lifecycle', f'lifecycle:{c.listener}/{c.kind}', f'{cfgname}: {e} (states {states}, error {rec.get("error")!r})', rp)
    elif c.terminal in ('Terminated', 'ErrorOccured') and states[-1] != c.terminal:
        chk.violation('accounting.lifecycle', f'wrong-terminal-state:{c.listener}/{c.kind}', f'{cfgname}: states {states}, error {rec.get("error")!r}, expected {c.terminal}', rp)
    if c.up is not None and not c.note:
        cu = rec.get('client_stat', {}).get('read_bytes')
        sd = rec.get('server_stat', {}).get('read_bytes')
        if (cu, sd) != (c.up, c.down):
            chk.violation('accounting.counters', f'byte-counter:{c.listener}/{c.kind}', f'{cfgname}: recorded client->server {cu} server->client {sd}, relayed {c.up} / {c.down}', rp)

def read_logs(px):
    recs = []
    for fn in sorted(os.listdir(px.dir)):
        if fn.startswith('access.log'):
            for line in open(os.path.join(px.dir, fn), 'rb').read().split(b'\n'):
                line = line.strip()
                if line:
                    try:
                        recs.append(json.loads(line))
                    except Exception:
                        chk.violation('accounting.log', 'unparsable-line', f'{fn}: {line[:120]!r}', {})
    return recs

def checkpoint(px, cfgname, hsize, ended, segments, judged):
    """ended: all connections that have ended, in end order where known; segments: list of lists (end order known between segments, not inside one of length > 1)"""
    global evals
    want_n = len(ended)
    # wait for the collector
    t = time.time()
    while time.time() - t < 4:
        if not live(px) and (hsize == 0 or len(history(px)) >= min(hsize, want_n + len(BASE[cfgname]))):
            h = history(px)
            if hsize == 0 or not segments or (h and key(h[0]) in {(c.lname(), c.source) for c in segments[-1]}):
                break
        time.sleep(0.1)
    lv = live(px)
    if lv:
        chk.violation('accounting.live', 'ended-connection-still-listed-live', f'{cfgname}: {[(r["listener"], r["source"], [s["state"] for s in r["state"]]) for r in lv][:4]} still live 4 s after all clients had gone', {'config': cfgname})
    # the collector runs once a second and the log writer keeps lines buffered until a reopen: reopen until
    # everything expected is on disk (or 5 s have passed)
    recs = []
    t = time.time()
    while time.time() - t < 5:
        st, _ = px.api('POST', '/logrotate', '')
        if st != 200:
            chk.violation('accounting.log', 'logrotate-failed', f'{cfgname}: POST /logrotate -> {st}', {'config': cfgname})
            break
        time.sleep(0.15)
        recs = read_logs(px)
        if len(recs) >= want_n + len(BASE[cfgname]):
            break
        time.sleep(0.2)
    time.sleep(0.1)
    h = history(px)
    evals += 1
    nbase = len(BASE[cfgname])
    if len(h) != min(hsize, want_n + nbase):
        chk.violation('accounting.history', 'wrong-length', f'{cfgname}: history has {len(h)} entries, historySize {hsize}, {want_n} + {nbase} connections ended', {'config': cfgname})
    elif not set(r.get('id') for r in h[want_n:]) <= BASE[cfgname]:
        chk.violation('accounting.history', 'not-newest-first-or-wrong-entries', f'{cfgname}: the oldest entries {[r.get("id") for r in h[want_n:]]} are not the start-up probes {sorted(BASE[cfgname], reverse=True)}', {'config': cfgname})
    if len(h) != min(hsize, want_n + nbase):
        pass
        chk.violation('accounting.history', 'wrong-length', f'{cfgname}: history has {len(h)} entries, historySize {hsize}, {want_n} connections ended', {'config': cfgname})
    else:
        # newest-first: walk the segments from the newest; inside a segment any order
        pos = 0
        ok = True
        for seg in reversed(segments):
            if pos >= len(h):
                break
            take = min(len(seg), min(len(h), want_n) - pos)
            if take <= 0:
                break
            got = [key(r) for r in h[pos:pos + take]]
            allowed = {(c.lname(), c.source) for c in seg}
            if len(set(got)) != take or not set(got) <= allowed:
                ok = False
                chk.violation('accounting.history', 'not-newest-first-or-wrong-entries', f'{cfgname}: positions {pos}..{pos+take} hold {got}, expected {"any of " if len(seg) > 1 else ""}{sorted(allowed)[:6]}; not allowed: {sorted(set(got) - allowed)[:8]}; duplicates: {sorted({g for g in got if got.count(g) > 1})[:8]}; segment size {len(seg)}', {'config': cfgname})
                break
            pos += take
    ids = [r.get('id') for r in h]
    if len(set(ids)) != len(ids):
        chk.violation('accounting.ids', 'duplicate-id', f'{cfgname}: history ids {ids}', {'config': cfgname})
    # access log: flush by reopening, then read everything written so far
    recs = [r for r in recs if r.get('id') not in BASE[cfgname]]
    by = {}
    for r in recs:
        by.setdefault(key(r), []).append(r)
    lids = [r.get('id') for r in recs]
    if len(set(lids)) != len(lids):
        dup = sorted({i for i in lids if lids.count(i) > 1})
        chk.violation('accounting.log', 'connection-logged-twice-or-duplicate-id', f'{cfgname}: ids {dup[:6]} appear more than once in the access log', {'config': cfgname})
    cby = {}
    for c in ended:
        cby.setdefault((c.lname(), c.source), []).append(c)
    extra = 0
    for k, cs in cby.items():
        # the kernel reuses client ports: the j-th connection from an address is the j-th record (ids grow with time)
        cs.sort(key=lambda c: c.seq)
        rs = sorted(by.get(k, []), key=lambda r: r.get('id', 0))
        for j, c in enumerate(cs):
            evals += 1
            distinct.add((c.listener, c.kind))
            if j >= len(rs):
                chk.violation('accounting.log', f'connection-missing-from-log:{c.listener}/{c.kind}', f'{cfgname}: {c.listener} {c.kind} from {c.source} has no access-log line ({len(rs)} lines for {len(cs)} connections from that address)', {'config': cfgname, 'listener': c.listener, 'kind': c.kind})
            elif id(c) not in judged:
                judged.add(id(c))
                judge_record(cfgname, c, rs[j])
        if len(rs) > len(cs):
            extra += len(rs) - len(cs)
            chk.violation('accounting.log', f'connection-logged-twice:{cs[-1].listener}/{cs[-1].kind}', f'{cfgname}: {len(cs)} connections from {k} but {len(rs)} access-log lines: ids {[r.get("id") for r in rs]}', {'config': cfgname})
    for k in by:
        if k not in cby:
            extra += len(by[k])
            chk.violation('accounting.log', 'log-line-for-no-connection', f'{cfgname}: {len(by[k])} access-log lines from {k} match no connection any client made: {json.dumps(by[k][0])[:300]}', {'config': cfgname})

BASE = {}
def run_config(hsize, splice):
    global evals
    cfgname = f'historySize={hsize},useSplice={splice}'
    px, p = mk(hsize, splice)
    ended, segments, judged = [], [], set()
    # Proxy.start() probed the listening ports: those connections are real and are accounted too; learn their ids
    time.sleep(1.6)
    px.api('POST', '/logrotate', '')
    time.sleep(0.3)
    BASE[cfgname] = {r.get('id') for r in read_logs(px)}
    if len(BASE[cfgname]) not in (3, 4):
        machinery(f'{cfgname}: expected the 3 start-up probes in the log, found {len(BASE[cfgname])}')
    A = alphabet()
    def one(l, k):
        c = Conn(p, l, k)
        try:
            c.open()
        except Exception as e:
            c.note = f'client exception {e!r}'
        c.close()
        if c.source and not wait_gone(px, c):
            chk.violation('accounting.live', f'ended-connection-still-listed-live:{l}/{k}', f'{cfgname}: {l} {k} from {c.source} still listed 3 s after the client closed', {'config': cfgname, 'listener': l, 'kind': k})
        if c.source:
            ended.append(c)
            segments.append([c])
        return c
    # (1) every ordered pair, strictly sequential (quick: every operation after every kind-representative)
    pairs = [(a, b) for a in A for b in A]
    if not THOROUGH:
        firsts = A[::5]
        pairs = [(a, b) for a in firsts for b in A]
    n = 0
    for a, b in pairs:
        one(*a)
        one(*b)
        n += 2
        if n % 60 == 0:
            checkpoint(px, cfgname, hsize, ended, segments, judged)
    checkpoint(px, cfgname, hsize, ended, segments, judged)
    # (2) three connections held open together, closed in every order
    for trio in [('http', 'socks5', 'rev'), ('https', 'socks4', 'http')]:
        for order in itertools.permutations(range(3)):
            cs = [Conn(p, l, 'hold') for l in trio]
            for c in cs:
                c.open()
            lv = live(px)
            mine = [r for r in lv if key(r) in {(c.lname(), c.source) for c in cs}]
            evals += 1
            if len(mine) != 3 or len({r['id'] for r in mine}) != 3:
                chk.violation('accounting.live', 'open-connection-not-listed-live', f'{cfgname}: {len(mine)} of 3 open tunnels listed ({[key(r) for r in mine]}), ids {[r["id"] for r in mine]}', {'config': cfgname})
            for i in order:
                c = cs[i]
                c.close()
                if not wait_gone(px, c):
                    chk.violation('accounting.live', f'ended-connection-still-listed-live:{c.listener}/hold', f'{cfgname}: still listed 3 s after close', {'config': cfgname})
                still = [r for r in live(px) if key(r) in {(x.lname(), x.source) for x in cs if x.sock is not None}]
                if len(still) != sum(1 for x in cs if x.sock is not None):
                    chk.violation('accounting.live', 'open-connection-not-listed-live', f'{cfgname}: after closing one of three, {len(still)} of the remaining are listed', {'config': cfgname})
                ended.append(c)
                segments.append([c])
    checkpoint(px, cfgname, hsize, ended, segments, judged)
    # (2b) clients of the TLS listener whose TLS handshake does not complete: a connection gets its id after the
    #      handshake, so these are not connections - nothing in /live while they dawdle, no history entry, no log line
    #      (the next checkpoint counts every entry and matches every log line to a connection a client made)
    def tls_failure(kind):
        s = socket.create_connection(('127.0.0.1', p['https']), timeout=5)
        src = '%s:%d' % s.getsockname()
        try:
            if kind == 'plain-text CONNECT':
                s.sendall(f'CONNECT 127.0.0.1:{echo.port} HTTP/1.1\r\nHost: x\r\n\r\n'.encode())
            elif kind == 'garbage':
                s.sendall(b'\x16\x03\x01\x00\x05hello-this-is-no-client-hello' * 3)
            elif kind == 'truncated ClientHello':
                s.sendall(b'\x16\x03\x01\x02\x00\x01\x00\x01\xfc\x03\x03' + b'\x11' * 40)
            elif kind == 'certificate the client does not trust':
                try:
                    ssl.create_default_context().wrap_socket(s, server_hostname='localhost')
                except (ssl.SSLError, OSError):
                    pass
            # 'connect and close': nothing sent
            time.sleep(0.25)
            listed = [r for r in live(px) if key(r) == ('https', src)]
            if listed:
                chk.violation('accounting.live', f'listed-before-tls-handshake:{kind}', f'{cfgname}: a client of the TLS listener that has not completed the TLS handshake ({kind}) is listed in /live with id {listed[0].get("id")}', {'config': cfgname, 'kind': kind})
            if kind not in ('truncated ClientHello', 'certificate the client does not trust'):
                try: recv_until_eof(s, 2)
                except OSError: pass
        finally:
            try: s.close()
            except OSError: pass
    for kind in ('plain-text CONNECT', 'garbage', 'truncated ClientHello', 'connect and close', 'certificate the client does not trust'):
        for _ in range(2):
            tls_failure(kind)
            evals += 1
            distinct.add(('tls-failure', kind))
    one('https', 'relay')
    checkpoint(px, cfgname, hsize, ended, segments, judged)
    # (3) burst with rotation in the middle
    for rot in ('api', 'signal'):
        burst = []
        lock = threading.Lock()
        def worker(i):
            l, k = A[i % len(A)]
            c = Conn(p, l, k)
            try:
                c.open()
            except Exception as e:
                c.note = f'client exception {e!r}'
            c.close()
            if c.source:
                with lock:
                    burst.append(c)
        N = 120 if THOROUGH else 48
        def rotate():
            time.sleep(0.15)
            for j in range(3):
                src = os.path.join(px.dir, 'access.log')
                try:
                    os.rename(src, os.path.join(px.dir, f'access.log.{rot}.{j}.{time.time()}'))
                except OSError:
                    pass
                if rot == 'api':
                    px.api('POST', '/logrotate', '')
                else:
                    px.proc.send_signal(signal.SIGUSR1)
                time.sleep(0.4)
        rt = threading.Thread(target=rotate, daemon=True)
        rt.start()
        for wave in range(3):
            run_parallel(list(range(wave * N // 3, (wave + 1) * N // 3)), worker, workers=12)
            time.sleep(0.45)
        rt.join()
        for c in burst:
            wait_gone(px, c, 3.0)
        ended += burst
        segments.append(burst)
        checkpoint(px, cfgname, hsize, ended, segments, judged)
    # (3b) several hundred connections that end within one collector pass (the queue between the collector and the log
    #      task holds 100 records): established tunnels, connections that never sent their handshake, denied requests
    mass = []
    M = 360 if THOROUGH else 300
    def opener(i):
        l = ('http', 'socks5', 'https', 'socks4')[i % 4]
        k = ('hold', 'eof', 'hold')[i % 3] if l != 'https' else 'hold'
        c = Conn(p, l, k)
        try:
            c.open()
        except Exception as e:
            c.note = f'client exception {e!r}'
        return c
    opened = [c for c in run_parallel(list(range(M)), opener, workers=16) if isinstance(c, Conn) and c.source]
    time.sleep(1.2)      # a pass of the collector with all of them open
    for c in opened:
        c.close()
    t_end = time.time()
    for c in opened:
        wait_gone(px, c, max(0.2, 4.0 - (time.time() - t_end)))
    mass = opened
    ended += mass
    segments.append(mass)
    checkpoint(px, cfgname, hsize, ended, segments, judged)
    # (4) back-pressure: 6 MiB pushed at an origin that reads late and slowly (short writes on the upstream leg)
    for l in ('http', 'socks5'):
        c = one(l, 'slow-bulk')
        if c.note:
            chk.violation('accounting.record', f'slow-bulk-transfer-failed:{l}', f'{cfgname}: {c.note}', {'config': cfgname})
    checkpoint(px, cfgname, hsize, ended, segments, judged)
    if not px.alive():
        chk.violation('process', 'proxy-died', f'{cfgname}: exit {px.returncode()}: {px.log()[-300:]}', {})
    samples.append({'config': cfgname, 'connections': len(ended)})
    px.stop()
    return len(ended)

configs = [(100, True), (3, False), (0, True)] + ([(100, False), (3, True), (1, False)] if THOROUGH else [])
results = run_parallel(configs, lambda c: run_config(*c), workers=6)
for cfgc, r in zip(configs, results):
    if not isinstance(r, int):
        machinery(f'{cfgc}: {r}')
hopb.stop()
for o in (echo, echo2, echo3, bye, sink, fakeh, fakes):
    o.stop()
if evals < 300 or len(distinct) < 30:
    machinery(f'vacuous: evals={evals} distinct={len(distinct)}')
cov = {'evaluations': evals, 'distinct_nontrivial': len(distinct), 'transitions': evals, 'traces_validated_against_impl': evals, 'connections': sum(r for r in results),
       'rule': f'per configuration (historySize, useSplice) in {configs}: one long history on the real binary: (1) ordered pairs over the alphabet {KINDS} x [http, https, socks5, socks4, reverse] (quick: every operation after every fifth one; thorough: all pairs), strictly sequential; (2) trios held open together and closed in all 6 orders with /live compared at each step; (2b) ten clients of the TLS listener whose TLS handshake fails (plain text, garbage, truncated ClientHello, connect and close, untrusted certificate): not listed, no entry, no line; (4) 6 MiB pushed at an origin with an 8 KiB receive buffer that reads late and in 3000-byte pieces (byte counters under back-pressure, both I/O modes); (3) two bursts of concurrent mixed connections with the access log renamed and reopened (POST /logrotate, SIGUSR1) three times in the middle; (3b) 300 connections (held tunnels and silent connections on four listeners) closed within one collector pass. Checkpoints compare /live, /history (length, newest-first by known end order, distinct ids) and the access log files (exactly one line per connection, truthful listener/source/target/connector, lifecycle grammar with one terminal state, byte counters) with what clients and origins did',
       'schedule_control': 'kernel', 'samples': samples}
sys.exit(chk.finish('model_checking', cov, ['E4 part: real loopback sockets, kernel scheduling uncontrolled; buffered log lines are flushed by a reopen before the log is read; connections are matched to records by listener + client address; UDP sessions and QUIC/TPROXY listeners are not part of this history']))
