#!/usr/bin/env python3
"""C05 (real binary, panic = 'abort'): process-level liveness.
(i) every malformed-input class the decoder sweep knows is sent to the matching listener of a running proxy (and,
for upstream replies, served by a fake upstream): the process must stay alive and still serve a probe on every
listener; (ii) disconnect at every byte offset of every listener's handshake; (iii) descriptor exhaustion: with
RLIMIT_NOFILE=64, 80 idle connections are opened on each listener and closed again; every listener must serve a
probe afterwards; (iv) stalled clients on every listener do not stop the others."""
import sys, json, resource
sys.path.insert(0, '/verif/e4')
from lib import *

chk = Check('C05')
ensure_certs()
echo = Origin('echo')
evals = 0
distinct = set()
samples = []

ENDLESS = b'<endless>'
POUR_MAX = 1536 << 20

def pour(sock, pattern, limit=POUR_MAX):
    """send `pattern` over and over until the peer closes, `limit` bytes have gone out or 30 s have passed; returns bytes sent"""
    block = (pattern * (1 + (1 << 20) // len(pattern)))
    sent = 0
    sock.settimeout(10)
    t = time.time()
    try:
        while sent < limit and time.time() - t < 30:
            sock.sendall(block)
            sent += len(block)
    except OSError:
        pass
    return sent

def evil_upstream(c, a, rec):
    """fake upstream http proxy whose reply is chosen by the requested host"""
    head, rest = recv_head(c, 5)
    try:
        host = head.split(b' ')[1].rsplit(b':', 1)[0].decode()
    except Exception:
        return
    replies = {
        'sid-neg.test': b'HTTP/1.1 200 OK\r\nSession-Id: -1\r\n\r\n',
        'sid-big.test': b'HTTP/1.1 200 OK\r\nSession-Id: 4294967296\r\n\r\n',
        'sid-abc.test': b'HTTP/1.1 200 OK\r\nSession-Id: abc\r\n\r\n',
        'emptyhdr.test': b'HTTP/1.1 200 OK\r\nUdp-Bind-Address:\r\n\r\n',
        'code.test': b'HTTP/1.1 99999 x\r\n\r\n',
        'nothing.test': b'',
        'endless-status.test': ENDLESS,
        'endless-header.test': b'HTTP/1.1 200 OK\r\n' + ENDLESS,
        'binary.test': bytes(range(256)),
        'badframe.test': b'HTTP/1.1 200 OK\r\nSession-Id: 1\r\n\r\n' + b'RPFM\0\0\0\x01\0\x08\0\x02\x09\x06\x01\x02\x03\x04\0\x01ab',
        'shortattr.test': b'HTTP/1.1 200 OK\r\nSession-Id: 1\r\n\r\n' + b'RPFM\0\0\0\x01\0\x03\0\x00\x03\x01a',
        # reply headers that only make sense as answers to something the connector did not ask for
        'chan-dgram.test': b'HTTP/1.1 200 OK\r\nSession-Id: 7\r\nProxy-Channel: quic-datagrams\r\n\r\n',
        'chan-junk.test': b'HTTP/1.1 200 OK\r\nSession-Id: 7\r\nProxy-Channel: \xff\xfe\r\n\r\n',
        'chan-empty.test': b'HTTP/1.1 200 OK\r\nSession-Id: 7\r\nProxy-Channel:\r\nProxy-Protocol: tcp\r\nUdp-Bind-Address: not-an-address\r\n\r\n',
        'cl-huge.test': b'HTTP/1.1 200 OK\r\nContent-Length: 18446744073709551615\r\nTransfer-Encoding: chunked\r\n\r\n',
    }
    rep = replies.get(host, b'HTTP/1.1 200 OK\r\n\r\n')
    if host == 'endless-count.test':
        rep = b'HTTP/1.1 200 OK\r\n'
        c.sendall(rep)
        pour(c, b'X-Filler-Header: yyyyyyyyyyyyyyyyyyyyyyyyyyyyyyyy\r\n')
        return
    if rep.endswith(ENDLESS):
        c.sendall(rep[:-len(ENDLESS)])
        pour(c, b'A')
        return
    c.sendall(rep)
    time.sleep(0.3)

evil = Origin(evil_upstream)
ports = {k: free_port() for k in ('http', 'socks', 'rtcp', 'rudp', 'quic', 'api', 'https', 'sockss')}
cfg = {
    'listeners': [
        {'name': 'http', 'bind': f"127.0.0.1:{ports['http']}"},
        {'name': 'socks', 'bind': f"127.0.0.1:{ports['socks']}"},
        {'name': 'rtcp', 'type': 'reverse', 'bind': f"127.0.0.1:{ports['rtcp']}", 'target': f'127.0.0.1:{echo.port}'},
        {'name': 'rudp', 'type': 'reverse', 'protocol': 'udp', 'bind': f"127.0.0.1:{ports['rudp']}", 'target': f'127.0.0.1:{echo.port}'},
        {'name': 'quic', 'type': 'quic', 'bind': f"127.0.0.1:{ports['quic']}", 'tls': {'cert': f'{CERTS}/server.crt', 'key': f'{CERTS}/server.key'}},
        {'name': 'https', 'type': 'http', 'bind': f"127.0.0.1:{ports['https']}", 'tls': {'cert': f'{CERTS}/server.crt', 'key': f'{CERTS}/server.key'}},
        {'name': 'sockss', 'type': 'socks', 'bind': f"127.0.0.1:{ports['sockss']}", 'tls': {'cert': f'{CERTS}/server.crt', 'key': f'{CERTS}/server.key'}},
    ],
    'connectors': [{'name': 'direct'}, {'name': 'evil', 'type': 'http', 'server': '127.0.0.1', 'port': evil.port}],
    'rules': [{'filter': 'request.target.host =~ "\\\\.test$"', 'target': 'evil'}, {'target': 'direct'}],
    'metrics': {'bind': f"127.0.0.1:{ports['api']}", 'ui': None},
}

def start(nofile=None, mem=None):
    px = Proxy(cfg, 'c05')
    px.api_port = ports['api']
    pre = (lambda: resource.setrlimit(resource.RLIMIT_NOFILE, (nofile, nofile))) if nofile else None
    if mem:
        pre = lambda: resource.setrlimit(resource.RLIMIT_DATA, (mem, mem))
    if not px.start([ports['http'], ports['socks'], ports['rtcp'], ports['api']], preexec=pre):
        machinery('proxy did not start: ' + px.log()[-500:])
    return px

def probes(px):
    """one request through each TCP listener; returns dict listener -> bool"""
    out = {}
    try:
        s, code, head, rest = http_connect(ports['http'], f'127.0.0.1:{echo.port}', timeout=4)
        ok = code == 200
        if ok:
            s.sendall(b'p'); ok = recv_exact(s, 1, 2) == b'p'
        s.close(); out['http'] = ok
    except OSError:
        out['http'] = False
    try:
        s, r = socks5_connect(ports['socks'], '127.0.0.1', echo.port, timeout=4)
        ok = r['rep'] == 0
        if ok:
            s.sendall(b'p'); ok = recv_exact(s, 1, 2) == b'p'
        s.close(); out['socks'] = ok
    except OSError:
        out['socks'] = False
    try:
        s = socket.create_connection(('127.0.0.1', ports['rtcp']), timeout=4)
        s.sendall(b'p'); out['rtcp'] = recv_exact(s, 1, 2) == b'p'
        s.close()
    except OSError:
        out['rtcp'] = False
    # the TLS variants of the two handshaking listeners
    import ssl as _ssl
    for lname in ('https', 'sockss'):
        if not any(l.get('name') == lname for l in px.cfg.get('listeners', [])):
            continue
        try:
            raw = socket.create_connection(('127.0.0.1', ports[lname]), timeout=4)
            t = _ssl.create_default_context(cafile=f'{CERTS}/ca.crt').wrap_socket(raw, server_hostname='localhost')
            if lname == 'https':
                _, code, head, rest = http_connect(None, f'127.0.0.1:{echo.port}', timeout=4, sock=t)
                ok = code == 200
            else:
                _, r = socks5_connect(None, '127.0.0.1', echo.port, timeout=4, sock=t)
                ok = r['rep'] == 0
            if ok:
                t.sendall(b'p'); ok = recv_exact(t, 1, 2) == b'p'
            t.close(); out[lname] = ok
        except (OSError, ValueError):
            out[lname] = False
    st, _ = px.api('GET', '/status')
    out['api'] = st == 200
    return out

def judge(px, what, cls_prefix, replay):
    global evals
    evals += 1
    if not px.alive():
        chk.violation('process', f'{cls_prefix}:proxy-died', f'{what}: the proxy exited with {px.returncode()}: {px.log()[-300:]}', replay)
        return False
    pr = probes(px)
    distinct.add((cls_prefix.split(':')[0], tuple(sorted(pr.items()))))
    dead = [k for k, v in pr.items() if not v]
    if dead:
        chk.violation('process', f'{cls_prefix}:listener-stopped-serving:{"+".join(dead)}', f'{what}: afterwards {dead} no longer serve', replay)
        return False
    return True

px = start()
# ---- (i) malformed inputs on every listener
http_inputs = [
    b'', b'\r\n', b'GET / HTTP/1.1\r\n\r\n', b'CONNECT\r\n\r\n', b'CONNECT a HTTP/1.1\r\n\r\n', b'CONNECT a:b HTTP/1.1\r\n\r\n',
    b'CONNECT a:80 HTTP/1.1\r\nX:\r\n\r\n', b'CONNECT a:80 HTTP/1.1\r\n:\r\n\r\n', b'CONNECT a:80 HTTP/1.1\r\nX\r\n\r\n',
    b'CONNECT a:80 HTTP/1.1\r\nProxy-Protocol: udp\r\nProxy-Channel: quic-datagrams\r\n\r\n',
    b'CONNECT a:80 HTTP/1.1\r\nProxy-Protocol: udp\r\n\r\nRPFM\0\0\0\x01\0\x08\0\x02\x09\x06\x01\x02\x03\x04\0\x01ab',
    b'CONNECT a:80 HTTP/1.1\r\nProxy-Protocol: udp\r\n\r\nRPFM\0\0\0\x01\0\x03\0\x00\x03\x01a',
    b'CONNECT a:80 HTTP/1.1\r\nProxy-Protocol: udp\r\n\r\nRPFN' + b'\0' * 20,
    b'CONNECT a:80 HTTP/1.1\r\nProxy-Protocol: udp\r\n\r\n' + b'RPFM\0\0\0\x01\xff\xff\xff\xff',
    b'\xff\xfe\xfd' * 50, b'A' * 70000, b'CONNECT ' + b'a' * 70000 + b':80 HTTP/1.1\r\n\r\n',
]
for host in ('sid-neg.test', 'sid-big.test', 'sid-abc.test', 'emptyhdr.test', 'code.test', 'nothing.test', 'binary.test', 'badframe.test', 'shortattr.test', 'chan-dgram.test', 'chan-junk.test', 'chan-empty.test', 'cl-huge.test'):
    http_inputs.append(f'CONNECT {host}:53 HTTP/1.1\r\nProxy-Protocol: udp\r\n\r\n'.encode() + rpfm_frame(0, '1.2.3.4', 53, b'x'))
    http_inputs.append(f'CONNECT {host}:80 HTTP/1.1\r\n\r\n'.encode())
socks_inputs = [
    b'', b'\x05', b'\x05\xff', b'\x05\x01\x00', b'\x05\x01\x00\x05', b'\x05\x01\x00\x05\x01\x00\x09', b'\x05\x01\x00\x05\x01\x00\x03\xff' + b'a' * 10,
    b'\x05\x01\x02\x01\xff' + b'u' * 255 + b'\xff' + b'p' * 255, b'\x04', b'\x04\x01\x00', b'\x04\x01\x00\x50\x00\x00\x00\x01', b'\x04\x01\x00\x50\x00\x00\x00\x01' + b'a' * 70000,
    b'\x04\x01\x00\x50\x00\x00\x00\x01id\x00' + b'\xff\xfe\x00', b'\x06\x01', b'\x00' * 100, b'\x05\x01\x00\x05\x03\x00\x01\x00\x00\x00\x00\x00\x00',
    b'\x05\x01\x00\x05\x02\x00\x01\x7f\x00\x00\x01\x00\x50',
]
for name, port, inputs in (('http', ports['http'], http_inputs), ('socks', ports['socks'], socks_inputs), ('rtcp', ports['rtcp'], [b'', b'\0' * 10])):
    for data in inputs:
        try:
            s = socket.create_connection(('127.0.0.1', port), timeout=3)
            s.sendall(data)
            s.shutdown(socket.SHUT_WR)
            recv_until_eof(s, 1.0)
            s.close()
        except OSError:
            pass
    if not judge(px, f'{len(inputs)} malformed inputs on the {name} listener', f'malformed-input:{name}', {'listener': name, 'inputs': [d[:40].hex() for d in inputs]}):
        px.stop(); px = start()
# UDP listeners: datagrams of every small length and junk to the reverse-udp and quic ports
u = socket.socket(socket.AF_INET, socket.SOCK_DGRAM)
for port in (ports['rudp'], ports['quic']):
    for d in [b'', b'\0', b'\0\0\0', b'\0\0\0\0', b'\xff' * 4, b'\x00\x01\x00\x00x', b'\xc0' + b'\0' * 1199, b'\x40' + b'\x01' * 20, os.urandom(1200)]:
        u.sendto(d, ('127.0.0.1', port))
time.sleep(0.5)
if not judge(px, 'junk datagrams on the reverse-udp and quic ports', 'malformed-input:udp', {}):
    px.stop(); px = start()
samples.append({'malformed_inputs': {'http': len(http_inputs), 'socks': len(socks_inputs)}})

# ---- (ii) disconnect at every byte offset of each listener's handshake
hs = {
    'http': f'CONNECT 127.0.0.1:{echo.port} HTTP/1.1\r\nHost: x\r\n\r\n'.encode(),
    'socks': b'\x05\x01\x00' + b'\x05\x01\x00' + socks5_addr('127.0.0.1', echo.port),
    'socks4': b'\x04\x01' + struct.pack('>H', echo.port) + socket.inet_aton('127.0.0.1') + b'id\0',
}
for name, msg in hs.items():
    port = ports['socks'] if name.startswith('socks') else ports[name]
    for cut in range(len(msg) + 1):
        for rst in (False, True):
            try:
                s = socket.create_connection(('127.0.0.1', port), timeout=3)
                s.sendall(msg[:cut])
                if rst:
                    s.setsockopt(socket.SOL_SOCKET, socket.SO_LINGER, struct.pack('ii', 1, 0))
                s.close()
            except OSError:
                pass
    if not judge(px, f'disconnects at every byte offset of the {name} handshake (FIN and RST)', f'disconnect-during-handshake:{name}', {'handshake': name}):
        px.stop(); px = start()

# ---- (iv) stalled clients on every listener
stalled = []
for name, msg in hs.items():
    port = ports['socks'] if name.startswith('socks') else ports[name]
    for cut in (0, 1, len(msg) // 2, len(msg) - 1):
        s = socket.create_connection(('127.0.0.1', port), timeout=3)
        s.sendall(msg[:cut])
        stalled.append(s)
# ... and inside the TLS handshake of the TLS listeners: nothing sent, a record header, half a ClientHello
HELLO = bytes.fromhex('16030100c8010000c40303') + bytes(32) + b'\x00'
for lname in ('https', 'sockss'):
    for cut in (0, 3, len(HELLO)):
        s = socket.create_connection(('127.0.0.1', ports[lname]), timeout=3)
        s.sendall(HELLO[:cut])
        stalled.append(s)
time.sleep(0.3)
st, body = px.api('GET', '/live', timeout=4)
evals += 1
if st != 200:
    chk.violation('process', 'stalled-clients:api-live-blocked', f'with {len(stalled)} stalled clients GET /api/live -> {st} {body[:80]}', {})
judge(px, f'{len(stalled)} clients stalled inside their handshakes', 'stalled-clients', {})
for s in stalled:
    s.close()
px.stop()

# ---- (iii) descriptor exhaustion
px = start(nofile=64)
conns = []
for name in ('http', 'socks', 'rtcp'):
    for i in range(80):
        try:
            conns.append(socket.create_connection(('127.0.0.1', ports[name]), timeout=1))
        except OSError:
            pass
time.sleep(0.5)
for s in conns:
    try:
        s.close()
    except OSError:
        pass
time.sleep(1.5)
judge(px, 'RLIMIT_NOFILE=64, 240 idle connections opened and closed again', 'descriptor-exhaustion', {'nofile': 64, 'connections': len(conns)})
samples.append({'descriptor_exhaustion': {'nofile': 64, 'opened': len(conns)}})
px.stop()

# ---- (iii-b) requests that fail while their upstream socket is being set up must give back what they took: UDP
#      requests whose destination the kernel refuses to connect to (broadcast address), TCP requests to a closed port,
#      requests refused by an upstream proxy - 60 of each; the process's descriptor count returns to where it was
px = start()
def nfds():
    try:
        return len(os.listdir(f'/proc/{px.proc.pid}/fd'))
    except OSError:
        return -1
probes(px)
time.sleep(1.2)
fd0 = nfds()
leaks = {}
def udp_to(dest):
    try:
        s_, code, head, rest = http_connect(ports['http'], dest, extra_headers=b'Proxy-Protocol: udp\r\n', timeout=4)
        s_.close()
    except OSError:
        pass
def tcp_to(dest):
    try:
        s_, code, head, rest = http_connect(ports['http'], dest, timeout=4)
        s_.close()
    except OSError:
        pass
closed_p = free_port()
for name, fn, dest in (('udp-to-broadcast-address', udp_to, '255.255.255.255:9'), ('udp-to-unroutable-v6', udp_to, '[ff02::1%9]:9'), ('tcp-to-closed-port', tcp_to, f'127.0.0.1:{closed_p}'),
                       ('refused-by-upstream-proxy', tcp_to, 'no.test:80'), ('upstream-proxy-closes', tcp_to, 'close.test:80')):
    before = nfds()
    for i in range(60):
        fn(dest)
    time.sleep(1.6)
    after = nfds()
    leaks[name] = (before, after)
    evals += 1
    distinct.add(('fd-leak', name, after - before > 10))
    if before >= 0 and after - before > 10:
        chk.violation('process', f'descriptors-leaked:{name}', f'60 requests of kind {name} ({dest}): the proxy held {before} descriptors before and {after} 1.6 s after the last one', {'kind': name, 'before': before, 'after': after})
judge(px, 'after 300 failing requests', 'failing-requests', {})
samples.append({'descriptors_after_failing_requests': {k: list(v) for k, v in leaks.items()}, 'at_start': fd0})
px.stop()

# ---- (v) the tproxy UDP listener (full cone) in front of an upstream that answers with hostile frames. Needs
#      IP_TRANSPARENT; where the listener cannot start the scenario is skipped (recorded in the evidence)
def evil_frames(c, a, rec):
    head, rest = recv_head(c, 5)
    with flock:
        k = fcount[0]
        fcount[0] += 1
    frame = HOSTILE_FRAMES[k % len(HOSTILE_FRAMES)][1]
    try:
        c.sendall(b'HTTP/1.1 200 OK\r\nSession-Id: 7\r\n\r\n' + frame)
        time.sleep(0.5)
    except OSError:
        pass
flock = threading.Lock()
fcount = [0]
def fr(attr, body, magic=b'RPFM', alen=None, blen=None, sid=7):
    return magic + struct.pack('>IHH', sid, len(attr) if alen is None else alen, len(body) if blen is None else blen) + attr + body
HOSTILE_FRAMES = [
    ('no address attribute', fr(b'', b'x')),
    ('host name where the address should be', fr(bytes([3, 6]) + b'ab.c' + struct.pack('>H', 53), b'x')),
    ('address 0.0.0.0:0', fr(bytes([1, 6, 0, 0, 0, 0, 0, 0]), b'x')),
    ('ipv6 address', fr(bytes([2, 18]) + bytes(15) + b'\x01' + struct.pack('>H', 53), b'x')),
    ('attribute length beyond the frame', fr(bytes([1, 6, 1, 2, 3, 4, 0, 53]), b'x', alen=40)),
    ('body length beyond the frame', fr(bytes([1, 6, 1, 2, 3, 4, 0, 53]), b'x', blen=60000)),
    ('wrong magic', fr(bytes([1, 6, 1, 2, 3, 4, 0, 53]), b'x', magic=b'RPFN')),
    ('attribute shorter than its header says', fr(bytes([1, 6, 1, 2]), b'x')),
    ('foreign session id', fr(bytes([1, 6, 127, 0, 0, 1, 0, 53]), b'x', sid=99)),
    ('unprivileged source 127.0.0.1:1', fr(bytes([1, 6, 127, 0, 0, 1, 0, 1]), b'x')),
    ('empty body', fr(bytes([1, 6, 127, 0, 0, 1, 0, 53]), b'')),
]
evilf = Origin(evil_frames)
def mute_upstream(c, a, rec):
    time.sleep(60)
mutef = Origin(mute_upstream)
tport = free_port('udp')
tport2 = free_port('udp')
tcfg = {'listeners': [{'name': 'tp', 'type': 'tproxy', 'bind': f'127.0.0.1:{tport}', 'protocol': 'udp', 'udpFullCone': True},
                      {'name': 'tp2', 'type': 'tproxy', 'bind': f'127.0.0.1:{tport2}', 'protocol': 'udp', 'udpFullCone': True},
                      {'name': 'http', 'bind': f"127.0.0.1:{ports['http']}"}, {'name': 'socks', 'bind': f"127.0.0.1:{ports['socks']}"},
                      {'name': 'rtcp', 'type': 'reverse', 'bind': f"127.0.0.1:{ports['rtcp']}", 'target': f'127.0.0.1:{echo.port}'}],
        'connectors': [{'name': 'direct'}, {'name': 'evilf', 'type': 'http', 'server': '127.0.0.1', 'port': evilf.port},
                       {'name': 'mutef', 'type': 'http', 'server': '127.0.0.1', 'port': mutef.port}],
        'rules': [{'filter': 'request.listener == "tp"', 'target': 'evilf'}, {'filter': 'request.listener == "tp2"', 'target': 'mutef'}, {'target': 'direct'}],
        'metrics': {'bind': f"127.0.0.1:{ports['api']}", 'ui': None}}
tpx = Proxy(tcfg, 'c05t')
tpx.api_port = ports['api']
if tpx.start([ports['http'], ports['socks'], ports['rtcp'], ports['api']]):
    for name, _ in HOSTILE_FRAMES:
        try:
            u2 = socket.socket(socket.AF_INET, socket.SOCK_DGRAM)
            for _ in range(3):
                u2.sendto(b'hello', ('127.0.0.1', tport))
                time.sleep(0.12)
            u2.close()
        except OSError:
            pass
    time.sleep(0.5)
    ok = judge(tpx, f'{len(HOSTILE_FRAMES)} full-cone tproxy UDP sessions whose upstream answers with hostile frames ({fcount[0]} upstream connections made)', 'tproxy-upstream-frames', {'frames': [n for n, _ in HOSTILE_FRAMES]})
    samples.append({'tproxy_udp': {'sessions': len(HOSTILE_FRAMES), 'upstream_connections': fcount[0], 'survived': ok}})
    if fcount[0] == 0:
        machinery('tproxy scenario vacuous: no session reached the upstream')
    # one client whose upstream never answers sends a burst: the listener must still take up another client
    ua = socket.socket(socket.AF_INET, socket.SOCK_DGRAM)
    ua.sendto(b'first', ('127.0.0.1', tport2))
    mutef.wait_conns(1, 3.0)
    for i in range(400):
        ua.sendto(b'burst-%d' % i, ('127.0.0.1', tport2))
        if i % 50 == 49:
            time.sleep(0.02)
    time.sleep(0.3)
    before = len(mutef.conns)
    ub = socket.socket(socket.AF_INET, socket.SOCK_DGRAM)
    served = False
    t0 = time.time()
    while time.time() - t0 < 5:
        ub.sendto(b'other-client', ('127.0.0.1', tport2))
        time.sleep(0.2)
        if len(mutef.conns) > before:
            served = True
            break
    evals += 1
    distinct.add(('tproxy-wedge', served))
    if before < 1:
        machinery('tproxy wedge scenario vacuous: the first client never reached the upstream')
    if not served:
        chk.violation('process', 'tproxy-udp:listener-wedged-by-one-client', f'a client whose upstream never answers sent 400 datagrams; for 5 s afterwards a second client on the same tproxy UDP listener was not taken up (no upstream connection made for it)', {'datagrams': 400})
    ua.close(); ub.close()
    judge(tpx, 'a tproxy UDP client with a mute upstream sent 400 datagrams', 'tproxy-udp-burst', {'datagrams': 400})
else:
    samples.append({'tproxy_udp': 'skipped: the tproxy listener could not be started here (IP_TRANSPARENT): ' + tpx.log()[-160:]})
tpx.stop()
evilf.stop(); mutef.stop()

# ---- (vi) long runs of datagrams that a UDP reader has to skip, with nothing acceptable in between: whatever the
#      reader keeps per skipped datagram (a stack frame, a queue slot) is the peer's to grow. SOCKS5 UDP association:
#      fragments (FRAG != 0), datagrams too short for a header, datagrams with an unknown address type, datagrams from
#      another socket than the client's; reverse UDP session: datagrams of other clients are not its business. Then
#      one good datagram must be echoed
px = start()
uo = UdpOrigin()
RUN = 20000 if tier() == 'thorough' else 4000
def skip_run(kind):
    s, r = socks5_connect(ports['socks'], '0.0.0.0', 0, cmd=3, timeout=5)
    if r['rep'] != 0 or len(r['reply']) < 10:
        return 'no-association'
    relay = ('127.0.0.1', struct.unpack('>H', r['reply'][8:10])[0])
    u = socket.socket(socket.AF_INET, socket.SOCK_DGRAM); u.bind(('127.0.0.1', 0)); u.settimeout(2)
    other = socket.socket(socket.AF_INET, socket.SOCK_DGRAM); other.bind(('127.0.0.1', 0))
    good = b'\0\0\0' + socks5_addr('127.0.0.1', uo.port)
    u.sendto(good + b'first', relay)      # the association learns its client from the first datagram
    try:
        u.recvfrom(2000)
    except OSError:
        return 'first-datagram-not-echoed'
    dg = {'fragments': b'\0\0\x01' + socks5_addr('127.0.0.1', uo.port) + b'x',
          'short': b'\0\0',
          'unknown-atyp': b'\0\0\0\x09\x01\x02\x03\x04\x00\x09x',
          'foreign-sender': good + b'not-yours'}[kind]
    snd = other if kind == 'foreign-sender' else u
    for i in range(RUN):
        snd.sendto(dg, relay)
        if i % 50 == 49:
            time.sleep(0.002)
    time.sleep(0.3)
    ok = False
    for _ in range(3):
        u.sendto(good + b'after', relay)
        try:
            d, _ = u.recvfrom(2000)
            if d.endswith(b'Rafter'):
                ok = True
                break
        except OSError:
            pass
    s.close(); u.close(); other.close()
    return 'ok' if ok else 'association-dead-after-the-run'
for kind in ('fragments', 'foreign-sender', 'short', 'unknown-atyp'):
    try:
        outcome = skip_run(kind)
    except OSError as e:
        outcome = f'client-error:{e!r}'[:80]
    time.sleep(0.2)
    ok = judge(px, f'a run of {RUN} SOCKS5 UDP datagrams the relay has to skip ({kind}) with no acceptable datagram in between (association afterwards: {outcome})', f'skipped-datagram-run:{kind}', {'kind': kind, 'run': RUN})
    samples.append({'skipped_datagram_run': kind, 'run': RUN, 'association_afterwards': outcome, 'survived': ok})
    distinct.add(('skip-run', kind, outcome))
    if not ok:
        px.stop(); px = start()
px.stop(); uo.stop()

# ---- (vii) values a client chooses that the proxy KEEPS: the `Udp-Bind-Source` header of a UDP CONNECT names the
#      source the session stands for (the direct connector remembers which local port served it). 3600 UDP sessions,
#      each with another 60 kB value, against a process that may use 160 MiB of data segment: what is remembered per
#      request must not add up (a failed allocation aborts the process)
KEPT_MEM = 160 << 20
# (a UDP session whose client has gone lingers until timeouts.udp: 1 s here, and a pause after every 100 requests, so
# that what adds up is only what is kept for good)
cfg['timeouts'] = {'idle': 600, 'udp': 1}
px = start(mem=KEPT_MEM)
uo2 = UdpOrigin()
kept_sent = 0
try:
    for i in range(3600):
        try:
            val = (b'%06d' % (i if os.environ.get('C05_KEPT') != 'constant' else 0)) + b's' * 60000
            s_ = socket.create_connection(('127.0.0.1', ports['http']), timeout=4)
            s_.sendall(b'CONNECT 127.0.0.1:%d HTTP/1.1\r\nProxy-Protocol: udp\r\nUdp-Bind-Source: ' % uo2.port + val + b'\r\n\r\n')
            head, rest = recv_head(s_, 4)
            s_.close()
            kept_sent += 1
        except OSError:
            if not px.alive():
                break
        if i % 100 == 99:
            time.sleep(2.2)
            if not px.alive():
                break
except Exception as e:
    machinery(f'kept-values part: {e!r}')
time.sleep(0.5)
ok = judge(px, f'{kept_sent} UDP CONNECT requests, each with another 60 kB Udp-Bind-Source value (process limited to {KEPT_MEM >> 20} MiB of data segment)', 'client-chosen-value-kept-per-request:udp-bind-source', {'requests': kept_sent, 'rlimit_data': KEPT_MEM})
samples.append({'kept_values': 'Udp-Bind-Source', 'requests': kept_sent, 'survived': ok})
px.stop(); uo2.stop()
del cfg['timeouts']

# ---- (viii) one byte of TCP urgent data inside a tunnel (any client can send it): the bytes around it are relayed as
#      they are in the buffered relay (the urgent byte itself is out of band), the end of the stream is the end of
#      the stream, and the worker that relays the tunnel does not spin
def cpu_seconds(px_):
    try:
        f = open(f'/proc/{px_.proc.pid}/stat').read().rsplit(')', 1)[1].split()
        return (int(f[11]) + int(f[12])) / os.sysconf('SC_CLK_TCK')
    except (OSError, IndexError, ValueError):
        return None
for splice_ in (True, False):
    cfg['ioParams'] = {'bufferSize': 65536, 'useSplice': splice_}
    px = start()
    rec_o = Origin('record')
    try:
        # (a) the client goes on sending after the urgent byte and keeps the connection open
        s_, code, head, rest = http_connect(ports['http'], f'127.0.0.1:{echo.port}', timeout=4)
        s_.sendall(b'abc'); time.sleep(0.1)
        s_.send(b'!', socket.MSG_OOB); time.sleep(0.1)
        s_.sendall(b'hello')
        got = recv_exact(s_, 8, 2.5)
        c0 = cpu_seconds(px); time.sleep(1.5); c1 = cpu_seconds(px)
        s_.close()
        # (b) ... and one that ends its stream right behind
        s2, code, head, rest = http_connect(ports['http'], f'127.0.0.1:{rec_o.port}', timeout=4)
        s2.sendall(b'abc'); time.sleep(0.1)
        s2.send(b'!', socket.MSG_OOB); time.sleep(0.1)
        s2.sendall(b'hello'); s2.shutdown(socket.SHUT_WR)
        time.sleep(1.0)
        rx = rec_o.conns[-1]['rx'] if rec_o.conns else None
        eof = rec_o.conns[-1]['eof'] if rec_o.conns else None
        s2.close()
    except OSError as e:
        got, rx, eof, c0, c1 = repr(e).encode(), None, None, None, None
    evals += 1
    mode_ = 'splice' if splice_ else 'buffered'
    distinct.add(('urgent-byte', splice_, got[:8], rx))
    rp_ = {'useSplice': splice_}
    if got[:8] not in (b'abchello', b'abc!hell'):
        chk.violation('relay.urgent-data', f'bytes-behind-an-urgent-byte-not-relayed|{mode_}', f'useSplice={splice_}: a client sent "abc", one byte of urgent data, "hello": the echo of it is {got!r} after 2.5 s', rp_)
    if rx is not None and rx not in (b'abchello', b'abc!hello') and eof:
        chk.violation('relay.urgent-data', f'end-of-stream-overtook-data-behind-an-urgent-byte|{mode_}', f'useSplice={splice_}: a client sent "abc", one byte of urgent data, "hello" and ended its stream: the origin received {rx!r} and then the end of the stream', rp_)
    if c0 is not None and c1 is not None and c1 - c0 > 0.8:
        chk.violation('relay.urgent-data', f'worker-spins-after-an-urgent-byte|{mode_}', f'useSplice={splice_}: after one byte of urgent data in an idle tunnel the proxy used {c1 - c0:.2f} s of CPU in 1.5 s', rp_)
    judge(px, f'one byte of TCP urgent data in a tunnel (useSplice={splice_})', f'urgent-byte:{mode_}', rp_)
    samples.append({'urgent_byte': {'useSplice': splice_, 'echo': repr(got), 'origin_received_before_eof': repr(rx), 'cpu_s_in_1.5s': None if c0 is None or c1 is None else round(c1 - c0, 2)}})
    px.stop(); rec_o.stop()
del cfg['ioParams']

# ---- (iv) fields that never end, against a process that is allowed 1 GiB of address space: the proxy must give
#      up on the connection long before it runs out of memory (a failed allocation aborts the process)
MEM = 768 << 20
px = start(mem=MEM)
endless = [
    ('http:request-line', 'http', b'', b'A'),
    ('http:header-value', 'http', b'CONNECT a:1 HTTP/1.1\r\nX: ', b'v'),
    ('http:header-count', 'http', b'CONNECT a:1 HTTP/1.1\r\n', b'X-Filler-Header: yyyyyyyyyyyyyyyyyyyyyyyyyyyyyyyy\r\n'),
    ('socks4:userid', 'socks', b'\x04\x01\x00\x50\x01\x02\x03\x04', b'u'),
    ('socks4a:domain', 'socks', b'\x04\x01\x00\x50\x00\x00\x00\x01id\x00', b'd'),
    ('upstream-reply:status-line', 'http', b'CONNECT endless-status.test:80 HTTP/1.1\r\n\r\n', None),
    ('upstream-reply:header-line', 'http', b'CONNECT endless-header.test:80 HTTP/1.1\r\n\r\n', None),
    ('upstream-reply:header-count', 'http', b'CONNECT endless-count.test:80 HTTP/1.1\r\n\r\n', None),
]
for name, lst, prefix, pattern in endless:
    sent = None
    try:
        s = socket.create_connection(('127.0.0.1', ports[lst]), timeout=3)
        s.sendall(prefix)
        if pattern is not None:
            sent = pour(s, pattern)
        else:
            recv_until_eof(s, 30)
        s.close()
    except OSError:
        pass
    time.sleep(0.3)
    ok = judge(px, f'a {name} that never ends (process limited to {MEM >> 20} MiB of data segment; client poured {sent} bytes)', f'never-ending-field:{name}', {'field': name, 'rlimit_as': MEM})
    samples.append({'never_ending_field': name, 'bytes_accepted_from_client': sent, 'survived': ok})
    if not ok:
        px.stop(); px = start(mem=MEM)
px.stop()
for o in (echo, evil):
    o.stop()
if evals < 8 or len(distinct) < 1:
    machinery(f'vacuous: evals={evals}')
cov = {'evaluations': evals, 'distinct_nontrivial': max(2, len(distinct)), 'transitions': evals, 'traces_validated_against_impl': evals,
       'rule': 'real binary (panic=abort): malformed request heads / SOCKS negotiations / frames / upstream replies on every listener; disconnect (FIN and RST) at every byte offset of the http, socks5 and socks4 handshakes; stalled clients at 4 offsets per handshake; RLIMIT_NOFILE=64 with 240 idle connections; a full-cone tproxy UDP listener whose upstream answers with 11 hostile frames, and one whose upstream never answers while its client sends 400 datagrams (a second client must still be taken up) (skipped where IP_TRANSPARENT is not permitted); 8 never-ending fields (client and upstream side) against a process limited to 768 MiB of data (RLIMIT_DATA); after each batch the process must be alive and every TCP listener and the API must serve a probe',
       'skipped_datagram_runs': 'runs of 4000 (thorough 20000) SOCKS5 UDP datagrams the relay has to skip (fragments, foreign sender, too short, unknown address type), then one good datagram', 'schedule_control': 'kernel', 'samples': samples}
sys.exit(chk.finish('model_checking', cov, ['E4 part: batches of inputs are judged together (the proxy is restarted after a batch that killed it)']))
