#!/usr/bin/env python3
"""C18 (real binary part): `--test` verdicts and start-up. For each configuration of a grid of mutants of a runnable
base document: `--test x` must end with exit 0 or a clean error (never a signal / abort); a configuration it accepts
must start, serve one request per listener and one UDP association, accept a rule POST naming every connector, and stay alive."""
import sys, json, copy, shutil
sys.path.insert(0, '/verif/e4')
from lib import *

chk = Check('C18')
origin = Origin('echo')
uorigin = UdpOrigin()
evals = 0
distinct = set()
samples = []

def base():
    hp, sp, ap = free_port(), free_port(), free_port()
    return {
        'listeners': [{'name': 'http', 'bind': f'127.0.0.1:{hp}'}, {'name': 'socks', 'bind': f'127.0.0.1:{sp}'}],
        'connectors': [{'name': 'direct'}],
        'rules': [{'target': 'direct'}],
        'metrics': {'bind': f'127.0.0.1:{ap}', 'ui': None},
    }, hp, sp, ap

def setp(cfg, path, val):
    cur = cfg
    for k in path[:-1]:
        cur = cur[k]
    if val is DELETE:
        del cur[path[-1]]
    else:
        cur[path[-1]] = val

DELETE = object()
lb = lambda name, members, **kw: dict({'name': name, 'type': 'loadbalance', 'connectors': members}, **kw)
MUTANTS = [
    ('unchanged', []),
    ('metrics.cors = control chars', [(['metrics', 'cors'], 'a\nb')]),
    ('metrics.cors = empty', [(['metrics', 'cors'], '')]),
    ('metrics.apiPrefix = no leading slash', [(['metrics', 'apiPrefix'], 'api')]),
    ('metrics.apiPrefix = empty', [(['metrics', 'apiPrefix'], '')]),
    ('metrics.apiPrefix = /', [(['metrics', 'apiPrefix'], '/')]),
    ('metrics.apiPrefix = wildcard', [(['metrics', 'apiPrefix'], '/*x')]),
    ('metrics.ui = missing dir', [(['metrics', 'ui'], '/nonexistent/dir')]),
    ('metrics.historySize = 0', [(['metrics', 'historySize'], 0)]),
    ('metrics.historySize = -1', [(['metrics', 'historySize'], -1)]),
    ('metrics.bind = garbage', [(['metrics', 'bind'], 'notanaddress')]),
    ('metrics.bind = address of a listener', [(['metrics', 'bind'], 'LISTENER0')]),
    ('metrics.bind = address that is not local', [(['metrics', 'bind'], '192.0.2.1:18918')]),
    ('listener bind = address that is not local', [(['listeners', 1, 'bind'], '192.0.2.1:18919')]),
    ('timeouts.idle = -1', [(['timeouts'], {'idle': -1})]),
    ('timeouts.idle = string', [(['timeouts'], {'idle': 'x'})]),
    ('timeouts = {}', [(['timeouts'], {})]),
    ('ioParams.bufferSize = -1', [(['ioParams'], {'bufferSize': -1, 'useSplice': True})]),
    ('ioParams.bufferSize = huge', [(['ioParams'], {'bufferSize': 2**60, 'useSplice': False})]),
    ('ioParams missing field', [(['ioParams'], {'bufferSize': 4096})]),
    ('two listeners, same port', [(['listeners', 1, 'bind'], 'SAME')]),
    ('duplicate listener name', [(['listeners', 1, 'name'], 'http'), (['listeners', 1, 'type'], 'socks')]),
    ('listener name = 123', [(['listeners', 0, 'name'], 123)]),
    ('listener type unknown', [(['listeners', 0, 'type'], 'nosuch')]),
    ('connector name = deny', [(['connectors', 0, 'name'], 'deny')]),
    ('connector name = 123', [(['connectors', 0, 'name'], 123)]),
    ('connector type = list', [(['connectors', 0, 'type'], ['direct'])]),
    ('connectors empty', [(['connectors'], []), (['rules'], [])]),
    ('rule target unknown', [(['rules', 0, 'target'], 'nosuch')]),
    ('rule filter type error', [(['rules', 0, 'filter'], '1 + 1')]),
    ('rule filter syntax error', [(['rules', 0, 'filter'], '1 +')]),
    ('rule filter deep nesting', [(['rules', 0, 'filter'], '(' * 3000 + 'true' + ')' * 3000)]),
    ('rule filter tuple index', [(['rules', 0, 'filter'], '(1, 2).5 == 1')]),
    ('rule filter function without arguments', [(['rules', 0, 'filter'], 'to_string() == "a"')]),
    ('rule filter function with one argument too few', [(['rules', 0, 'filter'], 'cidr_match(request.target.host)')]),
    ('rule filter function with one argument too many', [(['rules', 0, 'filter'], 'to_integer("1", 2) == 1')]),
    ('accessLog in missing dir', [(['accessLog'], {'path': '/nonexistent/dir/a.log', 'format': 'json'})]),
    ('accessLog script type error', [(['accessLog'], {'path': 'a.log', 'format': {'script': 'request.target.port'}})]),
    ('accessLog script ok', [(['accessLog'], {'path': 'a.log', 'format': {'script': '`${request.listener} ${request.target}`'}})]),
    ('accessLog script runtime error', [(['accessLog'], {'path': 'a.log', 'format': {'script': 'to_string(to_integer(request.target.host))'}})]),
    # passes the load-time check (which sees an empty request) and fails for the probe's real request
    ('accessLog script fails on a real request', [(['accessLog'], {'path': 'a.log', 'format': {'script': f'to_string(100 / (request.target.port - {origin.port}))'}})]),
    ('accessLog script fails on every real request', [(['accessLog'], {'path': 'a.log', 'format': {'script': 'to_string(to_integer(request.listener))'}})]),
    ('tls cert missing', [(['listeners', 0, 'tls'], {'cert': 'missing.crt', 'key': 'missing.key'})]),
    ('tls key file without PEM block', [(['listeners', 0, 'tls'], {'cert': 'EMPTYFILE', 'key': 'EMPTYFILE'})]),
    ('tls client ca missing', [(['listeners', 0, 'tls'], {'cert': 'EMPTYFILE', 'key': 'EMPTYFILE', 'client': {'ca': 'missing', 'required': True}})]),
    ('socks auth cmd empty string', [(['listeners', 1, 'auth'], {'required': True, 'cmd': [''], 'users': []})]),
    ('socks connector version 6', [(['connectors'], [{'name': 'direct'}, {'name': 's', 'type': 'socks', 'server': '127.0.0.1', 'port': 1, 'version': 6}])]),
    ('quic connector bind garbage', [(['connectors'], [{'name': 'direct'}, {'name': 'q', 'type': 'quic', 'server': '127.0.0.1', 'port': 1, 'bind': 'zzz', 'tls': {'insecure': True}}])]),
    # load balancer graphs
    ('lb self loop', [(['connectors'], [{'name': 'direct'}, lb('lb', ['lb'])]), (['rules', 0, 'target'], 'lb')]),
    ('lb two-cycle', [(['connectors'], [{'name': 'direct'}, lb('a', ['b']), lb('b', ['a'])]), (['rules', 0, 'target'], 'a')]),
    ('lb cycle with exit', [(['connectors'], [{'name': 'direct'}, lb('a', ['a', 'direct'], algo='random')]), (['rules', 0, 'target'], 'a')]),
    ('lb empty', [(['connectors'], [{'name': 'direct'}, lb('a', [])]), (['rules', 0, 'target'], 'a')]),
    ('lb undefined member', [(['connectors'], [{'name': 'direct'}, lb('a', ['ghost'])]), (['rules', 0, 'target'], 'a')]),
    ('lb nested undefined member', [(['connectors'], [{'name': 'direct'}, lb('pool', ['backup']), lb('backup', ['ghost'])]), (['rules', 0, 'target'], 'pool')]),
    ('lb unused with undefined member', [(['connectors'], [{'name': 'direct'}, lb('spare', ['ghost'])])]),
    ('lb unused empty', [(['connectors'], [{'name': 'direct'}, lb('spare', [])])]),
    ('listeners = []', [(['listeners'], [])]),
    ('connectors = [] and rules = []', [(['connectors'], []), (['rules'], [])]),
    ('connectors = [] (rule names direct)', [(['connectors'], [])]),
    ('rules = []', [(['rules'], [])]),
    ('rules absent', [(['rules'], DELETE)]),
    ('listeners absent', [(['listeners'], DELETE)]),
    ('connectors absent', [(['connectors'], DELETE)]),
    ('metrics absent', [(['metrics'], DELETE)]),
    ('one listener only', [(['listeners'], 'FIRST-ONLY')]),
    ('lb with no members', [(['connectors'], [{'name': 'direct'}, lb('pool', [])]), (['rules', 0, 'target'], 'pool')]),
    ('accessLog on a full device', [(['accessLog'], {'path': '/dev/full', 'format': 'json'})]),
    ('accessLog directory removed while running', [(['accessLog'], 'LOGDIR')]),
    ('accessLog path is a directory', [(['accessLog'], {'path': '/tmp', 'format': 'json'})]),
    ('accessLog path in a missing directory', [(['accessLog'], {'path': '/nonexistent/dir/access.log', 'format': 'json'})]),
    ('lb nested ok', [(['connectors'], [{'name': 'direct'}, lb('pool', ['backup']), lb('backup', ['direct'])]), (['rules', 0, 'target'], 'pool')]),
    ('lb hashBy non-string', [(['connectors'], [{'name': 'direct'}, lb('a', ['direct'], algo={'hashBy': 'request.target.port'})]), (['rules', 0, 'target'], 'a')]),
    ('connector pointing at a listener of the same proxy', [(['connectors'], 'SELF-LOOP'), (['rules', 0, 'target'], 'selfc')]),
    ('connector pointing at a listener of the same proxy by name', [(['connectors'], 'SELF-LOOP:localhost'), (['rules', 0, 'target'], 'selfc')]),
    ('socks connector pointing at the socks listener of the same proxy', [(['connectors'], 'SELF-LOOP:socks'), (['rules', 0, 'target'], 'selfc')]),
    # other spellings of "this host" (the listener on 127.0.0.1 / on the wildcard address)
    ('self-loop via 0.0.0.0', [(['connectors'], 'SELF-LOOP:0.0.0.0'), (['rules', 0, 'target'], 'selfc')]),
    ('self-loop via 127.1', [(['connectors'], 'SELF-LOOP:127.1'), (['rules', 0, 'target'], 'selfc')]),
    ('self-loop via 2130706433', [(['connectors'], 'SELF-LOOP:2130706433'), (['rules', 0, 'target'], 'selfc')]),
    ('self-loop via 0x7f000001', [(['connectors'], 'SELF-LOOP:0x7f000001'), (['rules', 0, 'target'], 'selfc')]),
    ('self-loop wildcard listener via 127.0.0.2', [(['listeners', 0, 'bind'], 'WILD'), (['connectors'], 'SELF-LOOP:127.0.0.2'), (['rules', 0, 'target'], 'selfc')]),
    ('self-loop wildcard listener via ::ffff:127.0.0.1', [(['listeners', 0, 'bind'], 'WILD'), (['connectors'], 'SELF-LOOP:::ffff:127.0.0.1'), (['rules', 0, 'target'], 'selfc')]),
    ('self-loop wildcard v6 listener via ::1', [(['listeners', 0, 'bind'], 'WILD6'), (['connectors'], 'SELF-LOOP:::1'), (['rules', 0, 'target'], 'selfc')]),
    ('lb hashBy runtime error', [(['connectors'], [{'name': 'direct'}, lb('a', ['direct'], algo={'hashBy': 'to_string(1 / (request.target.port - request.target.port))'})]), (['rules', 0, 'target'], 'a')]),
]
# the listener `auth` sub-document: every combination of its three parts (the probe logs in as a listed user and as one
# that only the command could vouch for)
for req in (True, False):
    for uname, users in (('absent', DELETE), ('empty', []), ('alice', [{'username': 'alice', 'password': 'wonderland'}])):
        for cname, cmd in (('absent', DELETE), ('empty list', []), ('empty string', ['']), ('missing program', ['/nonexistent/prog']), ('true', ['/bin/true']), ('false', ['/bin/false']),
                           ('sh exit 3', ['/bin/sh', '-c', 'exit 3']), ('placeholders', ['/usr/bin/test', '#USER#', '=', '#PASS#']), ('a string', '/bin/true'), ('numbers', [1, 2]), ('null', None)):
            doc = {'required': req}
            if users is not DELETE:
                doc['users'] = users
            if cmd is not DELETE:
                doc['cmd'] = cmd
            MUTANTS.append((f'socks auth required={req} users {uname} cmd {cname}', [(['listeners', 1, 'auth'], doc)]))
# settings that are validated together: every bad cors / apiPrefix value under every spelling of `ui`
for uiname, uiedit in (('absent', [(['metrics', 'ui'], DELETE)]), ('<embedded>', [(['metrics', 'ui'], '<embedded>')]), ('a directory', [(['metrics', 'ui'], '/tmp')]), ('null', [])):
    for bname, bedit in (('cors = line break', (['metrics', 'cors'], 'a\nb')), ('cors = control char', (['metrics', 'cors'], '\x01')), ('apiPrefix = api', (['metrics', 'apiPrefix'], 'api')),
                         ('apiPrefix = /api/*rest', (['metrics', 'apiPrefix'], '/api/*rest')), ('apiPrefix = /:x', (['metrics', 'apiPrefix'], '/:x')), ('cors = *', (['metrics', 'cors'], '*'))):
        MUTANTS.append((f'metrics.ui {uiname} + {bname}', uiedit + [bedit]))
# every numeric field at its boundaries (negative / non-numeric values are above)
BIG = [0, 1, 2**31, 2**32 + 1, 2**53, 2**63 - 1, 2**63, 2**64 - 1]
for v in BIG:
    MUTANTS.append((f'timeouts.idle = {v}', [(['timeouts'], {'idle': v, 'udp': 600})]))
    MUTANTS.append((f'timeouts.udp = {v}', [(['timeouts'], {'idle': 600, 'udp': v})]))
    if v not in (0,):
        MUTANTS.append((f'metrics.historySize = {v}', [(['metrics', 'historySize'], v)]))
    MUTANTS.append((f'ioParams.bufferSize = {v}', [(['ioParams'], {'bufferSize': v, 'useSplice': v % 2 == 0})]))
    MUTANTS.append((f'tproxy maxUdpSocket = {v}', [(['listeners'], 'PLUS-TPROXY:%d' % v)]))
    MUTANTS.append((f'socks auth cache timeout = {v}', [(['listeners', 1, 'auth'], {'required': False, 'users': [], 'cmd': ['/bin/true'], 'cache': {'timeout': v}})]))

def probe(px, hp, sp):
    """one request per listener; returns list of outcomes"""
    out = []
    try:
        s, code, head, rest = http_connect(hp, f'127.0.0.1:{origin.port}', timeout=4)
        if code == 200:
            s.sendall(b'x')
            out.append('http:200:' + ('echo' if recv_exact(s, 1, 2) == b'x' else 'noecho'))
        else:
            out.append(f'http:{code}')
        s.close()
    except OSError as e:
        out.append('http:error')
    try:
        s, r = socks5_connect(sp, '127.0.0.1', origin.port, timeout=4)
        out.append(f"socks:{r['rep']}")
        s.close()
    except OSError as e:
        out.append('socks:error')
    # user/password logins (a listed user, then one only an auth command could know)
    for up in ((b'alice', b'wonderland'), (b'mallory', b'guess')):
        try:
            s, r = socks5_connect(sp, '127.0.0.1', origin.port, methods=(2,), userpass=up, timeout=4)
            out.append(f"login-{up[0].decode()}:{r.get('rep')}")
            s.close()
        except (OSError, KeyError, TypeError, IndexError) as e:
            out.append(f'login-{up[0].decode()}:error')
    # a UDP association with one datagram (timeouts.udp applies to it)
    try:
        s, r = socks5_connect(sp, '0.0.0.0', 0, cmd=3, timeout=4)
        if r['rep'] == 0 and len(r['reply']) >= 10:
            u = socket.socket(socket.AF_INET, socket.SOCK_DGRAM)
            u.settimeout(1.5)
            u.sendto(b'\0\0\0' + socks5_addr('127.0.0.1', uorigin.port) + b'ping', ('127.0.0.1', struct.unpack('>H', r['reply'][8:10])[0]))
            try:
                d, _ = u.recvfrom(2000)
                out.append('udp:' + ('echo' if d.endswith(b'Rping') else 'other'))
            except OSError:
                out.append('udp:noreply')
            u.close()
        else:
            out.append(f"udp:{r['rep']}")
        s.close()
    except OSError:
        out.append('udp:error')
    return out

def nfds(px):
    try:
        return len(os.listdir(f'/proc/{px.proc.pid}/fd'))
    except OSError:
        return None

def one(m):
    global evals
    name, edits = m
    cfg, hp, sp, ap = base()
    for path, val in edits:
        if val == 'SAME' or val == 'LISTENER0':
            val = cfg['listeners'][0]['bind']
        if val == 'FIRST-ONLY':
            val = cfg['listeners'][:1]
        if isinstance(val, str) and val.startswith('PLUS-TPROXY:'):
            val = cfg['listeners'] + [{'name': 'tp', 'type': 'tproxy', 'bind': f'127.0.0.1:{free_port()}', 'protocol': 'udp', 'maxUdpSocket': int(val.split(':')[1])}]
        if val == 'WILD':
            val = f'0.0.0.0:{hp}'
        if val == 'WILD6':
            val = f'[::]:{hp}'
        if isinstance(val, str) and val.startswith('SELF-LOOP'):
            how = val.partition(':')[2]
            val = [{'name': 'direct'}, {'name': 'selfc', 'type': 'socks', 'server': '127.0.0.1', 'port': sp}] if how == 'socks' else [{'name': 'direct'}, {'name': 'selfc', 'type': 'http', 'server': how or '127.0.0.1', 'port': hp}]
        if val == 'LOGDIR':
            val = {'path': 'logs/access.log', 'format': 'json'}
        setp(cfg, path, val)
    px = Proxy(cfg, 'c18')
    px.api_port = ap
    open(os.path.join(px.dir, 'EMPTYFILE'), 'w').write('not a pem file\n')
    os.makedirs(os.path.join(px.dir, 'logs'), exist_ok=True)
    res = {'name': name}
    try:
        rc, out = px.test_mode()
        if rc == 0 and 'accessLog' in json.dumps(cfg):
            # the exit path of a run with an access log had a rare crash: look more than once
            for _ in range(11):
                rc, out = px.test_mode()
                if rc != 0:
                    break
        res['test_rc'] = rc
        if rc not in (0, 1):
            return dict(res, verdict=('config.test', f'crash-in-test-mode', f'{name}: `--test` ended with {rc}: {out[-300:]}'))
        if rc == 1:
            return dict(res, outcome='rejected')
        # accepted: must start and run
        ls = cfg.get('listeners') if isinstance(cfg.get('listeners'), list) else []
        ok = px.start([hp, sp][:len(ls)] if ls and isinstance(ls[0].get('name'), str) and 'tls' not in ls[0] else [], timeout=8)
        time.sleep(0.3)
        if not px.alive():
            rc2 = px.returncode()
            if rc2 is not None and rc2 not in (0, 1):
                return dict(res, verdict=('config.startup', 'accepted-by-test-then-crash-at-startup', f'{name}: `--test` says ok, start-up ends with {rc2}: {px.log()[-300:]}'))
            return dict(res, outcome=f'accepted-then-clean-startup-error:{rc2}')
        fds_before = nfds(px)
        outs = probe(px, hp, sp)
        # name every connector in a rule POST, then another request
        if isinstance(cfg.get('connectors'), list):
            for c in cfg['connectors']:
                if isinstance(c.get('name'), str):
                    st, body = px.api('POST', '/rules', json.dumps([{'target': c['name']}]))
                    outs.append(f"post:{c['name']}:{st}")
                    outs += probe(px, hp, sp)
                    if not px.alive():
                        break
        if isinstance(cfg.get('accessLog'), dict):
            # enough records to fill the log task's buffer, with the log directory gone in between, and a rotation
            for i in range(60):
                if i == 20:
                    shutil.rmtree(os.path.join(px.dir, 'logs'), ignore_errors=True)
                if i == 40:
                    outs.append(f"logrotate:{px.api('POST', '/logrotate')[0]}")
                try:
                    s_, code_, _, _ = http_connect(hp, f'127.0.0.1:{origin.port}', timeout=3)
                    s_.close()
                except OSError:
                    outs.append('http:error-while-logging')
                    break
        time.sleep(1.3)  # one GC / log pass
        if px.alive() and fds_before is not None:
            # all clients are gone: whatever the traffic set in motion has to come to an end
            quiet = None
            for _ in range(320):
                n = nfds(px)
                if n is None or n <= fds_before + 12:
                    quiet = n
                    break
                time.sleep(0.25)
            if quiet is None and px.alive():
                return dict(res, verdict=('config.traffic', 'accepted-then-never-comes-to-rest', f'{name}: accepted; 80 s after the last client had gone the process holds {nfds(px)} descriptors ({fds_before} before the traffic): what the requests set in motion does not end: {px.log()[-200:]}'))
        if not px.alive():
            return dict(res, verdict=('config.traffic', 'accepted-then-dies-under-traffic', f'{name}: accepted, then the process ended with {px.returncode()} after {outs}: {px.log()[-400:]}'))
        return dict(res, outcome='accepted-and-alive:' + ','.join(o.split(':')[0] + ':' + o.split(':')[-1] for o in outs[:2]))
    finally:
        px.stop()

results = run_parallel(MUTANTS, one, workers=10)
for m, r in zip(MUTANTS, results):
    evals += 1
    if isinstance(r, tuple):
        machinery(f'{m[0]}: {r}')
    if 'verdict' in r:
        site, cls, detail = r['verdict']
        chk.violation(site, f"{cls}:{m[0]}", detail, {'mutation': m[0]})
    distinct.add((r.get('test_rc'), (r.get('outcome') or r.get('verdict', [''])[1]).split(':')[0]))
    if len(samples) < 4:
        samples.append({'mutation': m[0], 'test_rc': r.get('test_rc'), 'outcome': r.get('outcome')})

# ------------------------------------------------------------------ expressions that are heavy, or fail only when evaluated
# A filter / posted rule list / log script is configuration too: it is refused with a message, or accepted and then
# survives traffic. Families: (a) arithmetic at the edges of i64 for every operator, (b) every nesting construct x depth
# and operator chains x length (the tree an operator chain folds into is as deep as the chain is long), (c) syntax
# errors inside n parentheses (time to the verdict).
def nest(k, n, op='+1', leaf='1'):
    e = leaf
    for _ in range(k):
        e = '(' + e + ')' + op * n
    return e

EDGE = ['(1 << 63)', '(0 - 1)', '0', '1', '9223372036854775807', 'request.target.port']
OPS = ['+', '-', '*', '/', '%', '<<', '>>']
ARITH = {op: [f'({a} {op} {b}) == 0' for a in EDGE for b in EDGE] for op in OPS}
thorough = tier() == 'thorough'
HEAVY = []
for k in ((1, 2, 3, 4, 6, 8, 12, 16, 24, 31) if thorough else (2, 6, 8, 31)):
    for n in ((1, 4, 16, 64, 127, 255) if thorough else (1, 255)):
        HEAVY.append((f'chains: {k} parentheses x {n} operators', nest(k, n) + ' == 1'))
        if thorough:
            HEAVY.append((f'chains: {k} parentheses x {n} ||', nest(k, n, ' || false', 'true')))
for k in ((4, 8, 12, 14, 15, 16, 17, 24, 30, 31, 32, 40) if thorough else (15, 16, 31)):
    HEAVY += [
        (f'arrays nested {k}', '[' * k + '1' + ']' * k + '[0]' * k + ' == 1'),
        (f'tuples nested {k}', '(' * k + '1' + ',)' * k + '.0' * k + ' == 1'),
        (f'unary x {k}', '!' * k + 'true'),
        (f'templates nested {k}', '`${' * k + '"x"' + '}`' * k + ' == "x"'),
        (f'calls nested {k}', 'to_integer(to_string(' * k + '1' + '))' * k + ' == 1'),
        (f'if nested {k}', 'if true then (' * k + 'true' + ') else false' * k),
        (f'let nested {k}', 'let a=1 in (' * k + 'a == 1' + ')' * k),
    ]
for n in ((4, 6, 8, 10, 12, 14, 20, 31) if thorough else (10, 14, 31)):
    for tail in (('1,2', '1 1', '1,2)', '1 ; ', '"abc') if thorough else ('1,2', '1 1')):
        HEAVY.append((f'syntax error inside {n} parentheses ({tail})', '(' * n + tail))
        if thorough:
            HEAVY.append((f'syntax error inside {n} x if ( ({tail})', 'if (' * n + tail))
# a name bound by `let` that is used more than once: each level mentions the previous one w times (the work must not be w^n)
def let_tower(n, w):
    e = 'let v0 = 1 in '
    for i in range(1, n + 1):
        e += f'let v{i} = ' + ' + '.join([f'v{i-1}'] * w) + ' in '
    return e + f'v{n} == 0'
for n, w in (((8, 2), (14, 2), (20, 2), (24, 2), (28, 2), (8, 8), (8, 24), (12, 16)) if thorough else ((14, 2), (26, 2), (8, 24))):
    HEAVY.append((f'let tower: {n} levels x {w} uses', let_tower(n, w)))
# towers of lets whose bindings are operator chains: the tree is shallow (about K + N levels), evaluating the last name
# walks through all K x N levels; and operator chains inside the aggregates (array, tuple, binding, template)
def let_chain(k, n):
    e = 'let x0 = 1 in '
    for i in range(1, k + 1):
        e += f'let x{i} = x{i-1}' + '+0' * n + ' in '
    return e + f'x{k} == 1'
for k, n in (((2, 60), (2, 88), (2, 92), (3, 58), (3, 61), (2, 100), (3, 80), (5, 100), (8, 100), (12, 100), (16, 100), (20, 100), (25, 100), (30, 120)) if thorough else ((2, 88), (3, 58), (2, 100), (5, 100), (12, 100), (30, 120))):
    HEAVY.append((f'let chain: {k} bindings x {n} operators', let_chain(k, n)))
for k, n in (((1, 120), (2, 60), (4, 250), (6, 250), (8, 250), (12, 250)) if thorough else ((1, 120), (4, 250), (8, 250))):
    e = nest(k, n)
    HEAVY += [(f'chains: {k} parentheses x {n} operators inside an array', f'[{e}][0] == 1'),
              (f'chains: {k} parentheses x {n} operators inside a tuple', f'({e},).0 == 1'),
              (f'chains: {k} parentheses x {n} operators inside a binding', f'let a = {e} in a == 1'),
              (f'chains: {k} parentheses x {n} operators inside a template', '`${to_string(' + e + ')}` == "1"')]
# words of the language in other letter cases (the grammar takes some of them whatever the case)
for w in ('and', 'or', 'xor'):
    for sp in (w.upper(), w.capitalize(), w[0] + w[1:].upper()):
        HEAVY.append((f'keyword case: {sp}', f'true {sp} false'))
for text in ('IF true THEN true ELSE false', 'If true Then true Else false', 'LET a = true IN a', 'TRUE', 'False', 'true AND NOT false', 'request.listener AND true'):
    HEAVY.append((f'keyword case: {text.split()[0]}', text))
LIMIT = 20.0

def rules_case(c):
    """path 1: the filters in the configuration file (--test, then start and traffic)"""
    name, filters = c
    cfg, hp, sp, ap = base()
    cfg['rules'] = [{'filter': f, 'target': 'direct'} for f in filters] + [{'target': 'direct'}]
    px = Proxy(cfg, 'c18x')
    px.api_port = ap
    try:
        t0 = time.time()
        rc, out = px.test_mode(timeout=LIMIT)
        if rc == 'timeout':
            return {'verdict': ('config.test', 'no-verdict-in-time', f'{name}: `--test` gave no verdict within {LIMIT:.0f} s')}
        if rc not in (0, 1):
            return {'verdict': ('config.test', 'crash-in-test-mode', f'{name}: `--test` ended with {rc}: {out[-200:]}')}
        if rc == 1:
            return {'outcome': 'rejected'}
        if not px.start([hp, sp], timeout=8):
            return {'verdict': ('config.startup', 'accepted-by-test-then-no-startup', f'{name}: `--test` says ok, start-up ends with {px.returncode()}: {px.log()[-200:]}')}
        outs = probe(px, hp, sp)
        time.sleep(0.2)
        if not px.alive():
            return {'verdict': ('config.traffic', 'accepted-then-dies-under-traffic', f'{name}: accepted, then the process ended with {px.returncode()} after {outs}: {px.log()[-300:]}')}
        if not outs[0].startswith('http:200'):
            return {'verdict': ('config.traffic', 'request-not-served-by-a-later-rule', f'{name}: the catch-all rule after the filter did not serve the request: {outs}')}
        return {'outcome': 'accepted-and-alive'}
    finally:
        px.stop()

def post_case(c):
    """path 2: the same filters posted to a running proxy"""
    name, filters = c
    cfg, hp, sp, ap = base()
    px = Proxy(cfg, 'c18p')
    px.api_port = ap
    try:
        if not px.start([hp, sp, ap], timeout=8):
            return ('machinery', px.log()[-200:])
        body = json.dumps([{'filter': f, 'target': 'direct'} for f in filters] + [{'target': 'direct'}])
        st, data = px.api('POST', '/rules', body, timeout=LIMIT)
        time.sleep(0.1)
        if not px.alive():
            return {'verdict': ('rules.post', 'posted-rule-list-kills-proxy', f'{name}: POST /api/rules ({len(body)} bytes) ended the process with {px.returncode()}: {px.log()[-300:]}')}
        if st is None:
            return {'verdict': ('rules.post', 'posted-rule-list-never-answered', f'{name}: POST /api/rules got no answer within {LIMIT:.0f} s: {data[:100]}')}
        outs = probe(px, hp, sp)
        time.sleep(0.2)
        if not px.alive():
            return {'verdict': ('rules.post', 'accepted-post-then-dies-under-traffic', f'{name}: POST answered {st}, then the process ended with {px.returncode()} after {outs}: {px.log()[-300:]}')}
        if not outs[0].startswith('http:200'):
            return {'verdict': ('rules.post', 'request-not-served-after-post', f'{name}: POST answered {st}; afterwards {outs}')}
        return {'outcome': f'post:{st}'}
    finally:
        px.stop()

def script_case(c):
    """path 3: the expression as access-log format script (evaluated when the configuration is loaded)"""
    name, expr = c
    cfg, hp, sp, ap = base()
    px = Proxy(cfg, 'c18s')
    cfg['accessLog'] = {'path': os.path.join(px.dir, 'access.log'), 'format': {'script': expr}}
    json.dump(cfg, open(px.cfg_path, 'w'), indent=1)
    rc, out = px.test_mode(timeout=LIMIT)
    px.stop()
    if rc == 'timeout':
        return {'verdict': ('config.test', 'no-verdict-in-time:log-script', f'{name}: `--test` gave no verdict within {LIMIT:.0f} s')}
    if rc not in (0, 1):
        return {'verdict': ('config.test', 'crash-in-test-mode:log-script', f'{name}: `--test` ended with {rc}: {out[-200:]}')}
    return {'outcome': f'script:{rc}'}

XCASES = [(f'arithmetic {op} at the edges of i64', fs) for op, fs in ARITH.items()] + [(n, [f]) for n, f in HEAVY]
SCASES = [(f'log script {a} {op} {b}', f'to_string({a} {op} {b})') for op in OPS for a in EDGE[:5] for b in EDGE[:5]] + \
         [(f'log script {n}', f'to_string({f})') for n, f in HEAVY]
xr = run_parallel(XCASES, rules_case, workers=12)
pr = run_parallel(XCASES, post_case, workers=12)
sr = run_parallel(SCASES, script_case, workers=12)
for path, cases, res in (('file', XCASES, xr), ('post', XCASES, pr), ('script', SCASES, sr)):
    for c, r in zip(cases, res):
        evals += 1
        if isinstance(r, tuple):
            machinery(f'{path} {c[0]}: {r}')
        if 'verdict' in r:
            site, cls, detail = r['verdict']
            fam = c[0].split(':')[0].split(' nested')[0].split(' inside')[0].split(' x ')[0]
            chk.violation(site, f'{cls}:{fam}', detail, {'path': path, 'case': c[0], 'expression': (c[1] if isinstance(c[1], str) else c[1][:3])})
        distinct.add((path, r.get('outcome') or r['verdict'][1]))
if len(samples) < 6:
    samples.append({'expression_cases': len(XCASES), 'script_cases': len(SCASES), 'example': HEAVY[1]})
origin.stop(); uorigin.stop()
if evals < 30 or len(distinct) < 3:
    machinery(f'vacuous: evals={evals} distinct={distinct}')
cov = {'evaluations': evals, 'distinct_nontrivial': len(distinct), 'transitions': evals, 'traces_validated_against_impl': evals,
       'rule': 'real binary: grid of configuration mutants (start-up-only fields, TLS files, balancer graphs, rule filters, every numeric field at 0, 1, 2^31, 2^32+1, 2^53, 2^63-1, 2^63, 2^64-1); `--test x` exit status, then start-up, one request per listener and one UDP association, a rule POST naming every connector, one GC pass; the process must stay alive. Expressions: arithmetic of every operator over the edges of i64, every nesting construct x depth, operator chains x length x parentheses, syntax errors inside n parentheses - each as rule filter in the file, as posted rule list and as log script: a verdict within 20 s, and an accepted one survives traffic',
       'mutants': len(MUTANTS), 'schedule_control': 'kernel', 'samples': samples}
sys.exit(chk.finish('model_checking', cov, ['E4 part: `--test` needs a dummy value (`--test x`) because the clap argument has no flag action']))
