#!/usr/bin/env python3
"""C19 (real sockets): service resumes after an upstream outage without restarting the proxy.
Fault enumeration: connector kind {direct, http, socks5, quic, loadbalance[http,direct]} x outage phase {idle,
during the upstream handshake, mid-transfer} x fault kind {upstream stopped (refused), upstream killed (RST),
upstream restarted on the same port}, single outages and (thorough) pairs. Oracle: once the upstream is reachable
again a probe succeeds within K attempts with a per-attempt deadline; tunnels open across the outage end (both sides
closed); a long-lived control tunnel on a healthy upstream keeps echoing throughout; the proxy stays alive."""
import sys, json, itertools
sys.path.insert(0, '/verif/e4')
from lib import *

chk = Check('C19')
ensure_certs()
K, DEADLINE = 5, 4.0

class Restartable:
    """python upstream (Origin with handler) that can be stopped and restarted on the same port"""
    def __init__(self, mode):
        self.mode = mode
        self.o = Origin(mode)
        self.port = self.o.port
    def stop(self, rst=False):
        # a handler thread blocked in recv() keeps the kernel socket alive after close() from here: nothing would go
        # out until it wakes (and by then the descriptor number may belong to a socket another thread has opened).
        # shutdown(SHUT_RD) wakes it without putting anything on the wire; the close that follows is the reset / the end
        with self.o.lock:
            for r in self.o.conns:
                try:
                    if rst:
                        r['sock'].setsockopt(socket.SOL_SOCKET, socket.SO_LINGER, struct.pack('ii', 1, 0))
                    r['sock'].shutdown(socket.SHUT_RD)
                except OSError:
                    pass
        self.o.stop()
    def start(self):
        for _ in range(100):
            try:
                o = Origin.__new__(Origin)
                o.mode, o.banner, o.host = self.mode, b'', '127.0.0.1'
                o.sock = socket.socket()
                o.sock.setsockopt(socket.SOL_SOCKET, socket.SO_REUSEADDR, 1)
                o.sock.bind(('127.0.0.1', self.port))
                o.sock.listen(64)
                o.port = self.port
                o.conns, o.lock, o.stopped = [], threading.Lock(), False
                o.t = threading.Thread(target=o._accept, daemon=True)
                o.t.start()
                self.o = o
                return
            except OSError:
                time.sleep(0.05)
        machinery('cannot rebind upstream port')

class QuicHop:
    """second redproxy hop with a quic listener (killed / restarted as a process)"""
    def __init__(self):
        self.port = free_port()
        self.api = free_port()
        self.px = None
        self.start()
    def cfg(self):
        return {'listeners': [{'name': 'quic', 'type': 'quic', 'bind': f'127.0.0.1:{self.port}', 'tls': {'cert': f'{CERTS}/server.crt', 'key': f'{CERTS}/server.key'}}],
                'connectors': [{'name': 'direct'}], 'rules': [{'target': 'direct'}], 'metrics': {'bind': f'127.0.0.1:{self.api}', 'ui': None}}
    def start(self):
        for _ in range(50):
            self.px = Proxy(self.cfg(), 'c19hop')
            self.px.api_port = self.api
            if self.px.start([self.api], timeout=5):
                return
            self.px.stop()
            time.sleep(0.1)
        machinery('quic hop does not start')
    def stop(self, rst=False):
        if self.px and self.px.proc:
            self.px.proc.kill()
            self.px.proc.wait()
        self.px.stop()

echo = Origin('echo')           # final origin for the quic hop and the control tunnel
def direct_origin(c, a, rec):
    _echo_loop(c)
ups = {
    'direct': Restartable('echo'),
    'http': Restartable(fake_http_proxy),
    'socks5': Restartable(fake_socks_proxy),
    'quic': QuicHop(),
    'lbdirect': Restartable('echo'),
}
hp, ap = free_port(), free_port()
cfg = {
    'listeners': [{'name': 'http', 'bind': f'127.0.0.1:{hp}'}],
    'connectors': [
        {'name': 'direct'},
        {'name': 'h', 'type': 'http', 'server': '127.0.0.1', 'port': ups['http'].port},
        {'name': 's5', 'type': 'socks', 'server': '127.0.0.1', 'port': ups['socks5'].port},
        {'name': 'q', 'type': 'quic', 'server': 'localhost', 'port': ups['quic'].port, 'bind': '127.0.0.1:0', 'tls': {'ca': f'{CERTS}/ca.crt'}},
        {'name': 'lb', 'type': 'loadbalance', 'connectors': ['h', 'direct'], 'algo': 'rr'},
    ],
    'rules': [
        {'filter': 'request.target.port == 1001', 'target': 'h'},
        {'filter': 'request.target.port == 1002', 'target': 's5'},
        {'filter': 'request.target.port == 1003', 'target': 'q'},
        {'filter': f"request.target.port == {ups['lbdirect'].port}", 'target': 'lb'},
        {'target': 'direct'},
    ],
    'metrics': {'bind': f'127.0.0.1:{ap}', 'ui': None, 'historySize': 100000},
    'accessLog': {'path': 'access.log', 'format': 'json'},
    'ioParams': {'bufferSize': 4096, 'useSplice': True},
}
px = Proxy(cfg, 'c19')
px.api_port = ap
if not px.start([hp, ap]):
    machinery('proxy did not start: ' + px.log()[-500:])

def target_for(kind):
    return {'direct': f'127.0.0.1:{ups["direct"].port}', 'http': 'ok.test:1001', 'socks5': 'ok.test:1002', 'quic': f'127.0.0.1:{echo.port}'.replace(f':{echo.port}', ':1003'), 'lb': 'ok.test:1004'}[kind]
# the quic route must end at a real origin: route by port 1003 -> q -> hop B -> direct to 127.0.0.1:1003?  use a dedicated echo on port-rule instead
qecho = Origin('echo')
cfg['rules'][2] = {'filter': f'request.target.port == {qecho.port}', 'target': 'q'}
px.stop()
px = Proxy(cfg, 'c19')
px.api_port = ap
if not px.start([hp, ap]):
    machinery('proxy did not start: ' + px.log()[-500:])
def target_for(kind):
    return {'direct': f'127.0.0.1:{ups["direct"].port}', 'http': 'ok.test:1001', 'socks5': 'ok.test:1002', 'quic': f'127.0.0.1:{qecho.port}', 'lb': f"127.0.0.1:{ups['lbdirect'].port}"}[kind]

def probe(kind, deadline=DEADLINE):
    """one request through connector `kind`: True iff a tunnel is established and echoes"""
    try:
        s, code, head, rest = http_connect(hp, target_for(kind), timeout=deadline)
    except OSError:
        return False
    try:
        if code != 200:
            return False
        s.sendall(b'probe!')
        return recv_exact(s, 6, deadline) == b'probe!'
    except OSError:
        return False
    finally:
        s.close()

def open_tunnel(kind):
    s, code, head, rest = http_connect(hp, target_for(kind), timeout=DEADLINE)
    if code != 200:
        s.close()
        return None
    s.sendall(b'hello'); 
    if recv_exact(s, 5, DEADLINE) != b'hello':
        s.close()
        return None
    return s

def upstream_of(kind):
    return {'direct': [ups['direct']], 'http': [ups['http']], 'socks5': [ups['socks5']], 'quic': [ups['quic']], 'lb': [ups['http'], ups['lbdirect']]}[kind]

control = open_tunnel('direct') if False else None
# the control tunnel runs through a healthy upstream that is never part of a fault: a separate echo via the default rule
cecho = Origin('echo')
def control_open():
    s, code, head, rest = http_connect(hp, f'127.0.0.1:{cecho.port}', timeout=DEADLINE)
    return s if code == 200 else None
control = control_open()
if control is None:
    machinery('control tunnel could not be opened')
cseq = [0]
def control_ok():
    cseq[0] += 1
    m = f'ctl{cseq[0]:06d}'.encode()
    try:
        control.sendall(m)
        return recv_exact(control, len(m), 3.0) == m
    except OSError:
        return False

# ---- in parallel with everything below: a QUIC upstream that is away for 34 s while requests keep arriving. The
#      connector's connection attempt backs off exponentially; service must still resume promptly once the upstream
#      is back (own proxy, own upstream: nothing here touches the schedules below)
long_result = {}
OUTAGE_S = 110 if tier() == 'thorough' else 34
def long_quic_outage():
    try:
        qh = QuicHop()
        e2 = Origin('echo')
        lhp, lap = free_port(), free_port()
        lpx = Proxy({'listeners': [{'name': 'http', 'bind': f'127.0.0.1:{lhp}'}],
                     'connectors': [{'name': 'q', 'type': 'quic', 'server': 'localhost', 'port': qh.port, 'bind': '127.0.0.1:0', 'tls': {'ca': f'{CERTS}/ca.crt'}}],
                     'rules': [{'target': 'q'}], 'metrics': {'bind': f'127.0.0.1:{lap}', 'ui': None}}, 'c19l')
        lpx.api_port = lap
        if not lpx.start([lhp, lap]):
            long_result['machinery'] = 'proxy did not start'
            return
        def lprobe(deadline=DEADLINE):
            try:
                s, code, head, rest = http_connect(lhp, f'127.0.0.1:{e2.port}', timeout=deadline)
            except OSError:
                return False
            try:
                if code != 200:
                    return False
                s.sendall(b'probe!')
                return recv_exact(s, 6, deadline) == b'probe!'
            except OSError:
                return False
            finally:
                s.close()
        if not lprobe():
            long_result['machinery'] = 'quic path does not work before the outage'
            return
        qh.stop()
        t0 = time.time()
        down_ok = 0
        # requests do not arrive one by one: every 12 s six of them are written at the same moment on connections
        # opened beforehand (they queue behind the one connection attempt the connector makes at a time)
        def burst():
            conns = []
            for _ in range(6):
                try:
                    conns.append(socket.create_connection(('127.0.0.1', lhp), timeout=3))
                except OSError:
                    pass
            req = f'CONNECT 127.0.0.1:{e2.port} HTTP/1.1\r\nHost: x\r\n\r\n'.encode()
            for c_ in conns:
                try:
                    c_.sendall(req)
                except OSError:
                    pass
            time.sleep(0.1)
            return conns
        pending, next_burst, bursts = [], 1.0, 0
        while time.time() - t0 < OUTAGE_S:
            if time.time() - t0 >= next_burst and not os.environ.get("NOBURST"):
                pending += burst(); bursts += 1
                next_burst += 12.0
            if lprobe(2.0):
                down_ok += 1
            time.sleep(1.0)
        for c_ in pending:
            try: c_.close()
            except OSError: pass
        long_result['bursts_during_outage'] = bursts
        qh.start()
        t1 = time.time()
        rec = None
        for attempt in range(1, K + 1):
            if lprobe():
                rec = (attempt, time.time() - t1)
                break
            time.sleep(0.5)
        long_result.update({'recovered': rec, 'served_while_down': down_ok, 'alive': lpx.alive(), 'gave_up_after_s': round(time.time() - t1, 1)})
        lpx.stop(); qh.stop(); e2.stop()
    except Exception as e:
        long_result['machinery'] = repr(e)
# ---- also in parallel: an origin reached by NAME through the direct connector goes away and comes back on another
#      address (its name server is updated, TTL 1 s): new requests for the name are served again within K attempts.
#      Own proxy, own name server (`dns.servers`), origin on 127.0.0.1 first, on 127.0.0.2 afterwards
moved_result = {}
class NameServer(threading.Thread):
    def __init__(self, name, ip):
        super().__init__(daemon=True)
        self.sock = socket.socket(socket.AF_INET, socket.SOCK_DGRAM); self.sock.bind(('127.0.0.1', 0))
        self.port = self.sock.getsockname()[1]
        self.name, self.ip, self.queries = name, ip, 0
    def run(self):
        while True:
            try:
                qd, peer = self.sock.recvfrom(4096)
            except OSError:
                return
            if len(qd) < 12:
                continue
            i, labels = 12, []
            while i < len(qd) and qd[i] != 0:
                n = qd[i]; labels.append(qd[i + 1:i + 1 + n].decode('ascii', 'replace')); i += 1 + n
            qend = i + 5
            if qend > len(qd):
                continue
            qtype, _ = struct.unpack('!HH', qd[i + 1:qend])
            ans = b''
            if '.'.join(labels).lower() == self.name and qtype == 1:
                self.queries += 1
                ans = b'\xc0\x0c' + struct.pack('!HHIH', 1, 1, 1, 4) + socket.inet_aton(self.ip)
            try:
                self.sock.sendto(qd[:2] + struct.pack('!HHHHH', 0x8580, 1, 1 if ans else 0, 0, 0) + qd[12:qend] + ans, peer)
            except OSError:
                pass
def moved_origin():
    try:
        ns = NameServer('origin.test', '127.0.0.1'); ns.start()
        oport = free_port()
        def serve(ip):
            l = socket.socket(); l.setsockopt(socket.SOL_SOCKET, socket.SO_REUSEADDR, 1); l.bind((ip, oport)); l.listen(16)
            conns = []
            def loop():
                while True:
                    try:
                        c, _ = l.accept()
                    except OSError:
                        return
                    conns.append(c)
                    threading.Thread(target=_echo, args=(c,), daemon=True).start()
            def _echo(c):
                try:
                    while True:
                        d = c.recv(4096)
                        if not d:
                            break
                        c.sendall(d)
                except OSError:
                    pass
            threading.Thread(target=loop, daemon=True).start()
            return l, conns
        mhp, map_ = free_port(), free_port()
        mpx = Proxy({'listeners': [{'name': 'http', 'bind': f'127.0.0.1:{mhp}'}], 'connectors': [{'name': 'direct', 'dns': {'servers': f'127.0.0.1:{ns.port}', 'family': 'V4Only'}}],
                     'rules': [{'target': 'direct'}], 'metrics': {'bind': f'127.0.0.1:{map_}', 'ui': None}}, 'c19m')
        mpx.api_port = map_
        if not mpx.start([mhp, map_]):
            moved_result['machinery'] = 'proxy did not start: ' + mpx.log()[-200:]
            return
        def mprobe():
            try:
                s_, code, head, rest = http_connect(mhp, f'origin.test:{oport}', timeout=DEADLINE)
            except OSError:
                return False
            try:
                if code != 200:
                    return False
                s_.sendall(b'probe!')
                return recv_exact(s_, 6, DEADLINE) == b'probe!'
            except OSError:
                return False
            finally:
                s_.close()
        l1, c1 = serve('127.0.0.1')
        if not any(mprobe() for _ in range(3)):
            moved_result['machinery'] = 'the name is not served before the move: ' + mpx.log()[-200:]
            return
        for _ in range(2):
            mprobe()
        try: l1.shutdown(socket.SHUT_RDWR)      # (wakes the thread blocked in accept(): otherwise the port stays open)
        except OSError: pass
        l1.close()
        for c in c1:
            try: c.close()
            except OSError: pass
        down = mprobe()
        l2, c2 = serve('127.0.0.2')
        ns.ip = '127.0.0.2'
        q0 = ns.queries
        time.sleep(1.5)          # past the record's TTL
        rec = None
        for attempt in range(1, K + 1):
            if mprobe():
                rec = attempt
                break
            time.sleep(1.0)
        moved_result.update({'served_while_down': down, 'recovered_at_attempt': rec, 'name_server_asked_again': ns.queries - q0, 'alive': mpx.alive()})
        mpx.stop(); l2.close(); ns.sock.close()
    except Exception as e:
        moved_result['machinery'] = repr(e)
moved_thread = threading.Thread(target=moved_origin, daemon=True)
moved_thread.start()

def blackhole(port):
    """a listener whose accept queue is full: further SYNs are dropped"""
    l = socket.socket()
    l.setsockopt(socket.SOL_SOCKET, socket.SO_REUSEADDR, 1)
    for _ in range(100):
        try:
            l.bind(('127.0.0.1', port))
            break
        except OSError:
            time.sleep(0.05)
    l.listen(0)
    fillers = []
    for _ in range(8):
        f = socket.socket()
        f.settimeout(0.3)
        try:
            f.connect(('127.0.0.1', port))
            fillers.append(f)
        except OSError:
            f.close()
            return l, fillers, True
    return l, fillers, False


# ---- also in parallel: behind a healthy upstream proxy ONE origin goes silent (connection attempts dropped). The
#      requests for it stay unanswered until the connector gives up; tunnels that run through the same upstream (for
#      QUIC: over the same shared connection) to other origins must not notice, and new ones are still served
silent_result = {}
class Hop:
    """second redproxy hop with an http or socks listener and a direct connector"""
    def __init__(self, kind):
        self.kind, self.port, self.api = kind, free_port(), free_port()
        self.px = Proxy({'listeners': [{'name': kind, 'type': kind, 'bind': f'127.0.0.1:{self.port}'}], 'connectors': [{'name': 'direct'}],
                         'rules': [{'target': 'direct'}], 'metrics': {'bind': f'127.0.0.1:{self.api}', 'ui': None}}, 'c19hop')
        self.px.api_port = self.api
        if not self.px.start([self.port, self.api], timeout=6):
            raise RuntimeError('hop does not start')
    def stop(self):
        self.px.stop()

def silent_origin(kind):
    res = {}
    hop = QuicHop() if kind == 'quic' else Hop(kind)
    e3 = Origin('echo')
    fhp, fap = free_port(), free_port()
    conn = {'quic': {'name': 'k', 'type': 'quic', 'server': 'localhost', 'port': hop.port, 'bind': '127.0.0.1:0', 'tls': {'ca': f'{CERTS}/ca.crt'}},
            'http': {'name': 'k', 'type': 'http', 'server': '127.0.0.1', 'port': hop.port},
            'socks': {'name': 'k', 'type': 'socks', 'server': '127.0.0.1', 'port': hop.port}}[kind]
    fpx = Proxy({'listeners': [{'name': 'http', 'bind': f'127.0.0.1:{fhp}'}], 'connectors': [conn], 'rules': [{'target': 'k'}],
                 'metrics': {'bind': f'127.0.0.1:{fap}', 'ui': None}}, 'c19s')
    fpx.api_port = fap
    try:
        if not fpx.start([fhp, fap]):
            return {'machinery': 'front proxy did not start'}
        def tunnel():
            s, code, head, rest = http_connect(fhp, f'127.0.0.1:{e3.port}', timeout=DEADLINE)
            if code != 200:
                s.close()
                return None
            return s
        def echo_ok(s, tag):
            try:
                s.sendall(tag)
                return recv_exact(s, len(tag), 3.0) == tag
            except OSError:
                return False
        tunnels = [tunnel() for _ in range(3)]
        if any(t is None for t in tunnels) or not all(echo_ok(t, b'first') for t in tunnels):
            return {'machinery': 'tunnels through the hop do not work before the scenario'}
        hole_port = free_port()
        hole, fillers, dropping = blackhole(hole_port)
        if not dropping:
            return {'skipped': 'could not make the kernel drop connection attempts'}
        answers = []
        def unanswered(i):
            t = time.time()
            try:
                s, code, head, rest = http_connect(fhp, f'127.0.0.1:{hole_port}', timeout=30)
                answers.append((code, round(time.time() - t, 1)))
                s.close()
            except OSError as e:
                answers.append((type(e).__name__, round(time.time() - t, 1)))
        ths = [threading.Thread(target=unanswered, args=(i,), daemon=True) for i in range(3)]
        [t.start() for t in ths]
        t0 = time.time()
        broken = new_failed = None
        n = 0
        while time.time() - t0 < 15.0 and broken is None:
            n += 1
            for i, t in enumerate(tunnels):
                if not echo_ok(t, f'r{n:04d}'.encode()):
                    broken = (i, round(time.time() - t0, 1))
                    break
            if new_failed is None:
                s = None
                try:
                    s = tunnel()
                    if s is None or not echo_ok(s, b'fresh'):
                        new_failed = round(time.time() - t0, 1)
                except OSError:
                    new_failed = round(time.time() - t0, 1)
                if s:
                    s.close()
            time.sleep(0.5)
        for f in fillers:
            f.close()
        hole.close()
        res.update({'broken': broken, 'new_failed': new_failed, 'rounds': n, 'answers_for_the_silent_origin': sorted(answers, key=str), 'alive': fpx.alive() and hop.px.alive()})
        for t in tunnels:
            t.close()
        return res
    finally:
        fpx.stop(); hop.stop(); e3.stop()

# ---- also in parallel: a UDP origin behind the reverse listener goes away while a client is using it (the proxy's
#      upstream socket gets 'port unreachable', the session ends with an error) and comes back on the same port: the SAME
#      client socket (the source address the listener has seen before) and a fresh one are served again
udp_result = {}
def udp_origin_outage():
    try:
        def origin(port=None):
            o = socket.socket(socket.AF_INET, socket.SOCK_DGRAM)
            o.setsockopt(socket.SOL_SOCKET, socket.SO_REUSEADDR, 1)
            o.bind(('127.0.0.1', port or 0))
            def loop():
                while True:
                    try:
                        d, a = o.recvfrom(70000)
                        o.sendto(b'R' + d, a)
                    except OSError:
                        return
            threading.Thread(target=loop, daemon=True).start()
            return o
        o = origin()
        oport = o.getsockname()[1]
        up_, uap = free_port(), free_port()
        upx = Proxy({'listeners': [{'name': 'rudp', 'type': 'reverse', 'protocol': 'udp', 'bind': f'127.0.0.1:{up_}', 'target': f'127.0.0.1:{oport}'}],
                     'connectors': [{'name': 'direct'}], 'rules': [{'target': 'direct'}], 'metrics': {'bind': f'127.0.0.1:{uap}', 'ui': None}}, 'c19u')
        upx.api_port = uap
        if not upx.start([uap]):
            udp_result['machinery'] = 'proxy did not start'
            return
        def ask(c, payload, t=1.0):
            c.sendto(payload, ('127.0.0.1', up_))
            c.settimeout(t)
            end = time.time() + t
            while time.time() < end:
                try:
                    d, _ = c.recvfrom(70000)
                except OSError:
                    return False
                if d == b'R' + payload:
                    return True
            return False
        a = socket.socket(socket.AF_INET, socket.SOCK_DGRAM); a.bind(('127.0.0.1', 0))
        b = socket.socket(socket.AF_INET, socket.SOCK_DGRAM); b.bind(('127.0.0.1', 0))
        if not (ask(a, b'a-before') and ask(b, b'b-before')):
            udp_result['machinery'] = 'reverse udp path does not work before the outage'
            return
        o.close()
        time.sleep(0.2)
        served_down = sum(1 for i in range(3) if ask(a, b'a-down%d' % i, 0.4))
        o = origin(oport)
        rec = {}
        for name, c in (('same-client-socket', a), ('other-known-client-socket', b)):
            rec[name] = None
            for attempt in range(1, K + 1):
                if ask(c, f'{name}-{attempt}'.encode(), 1.0):
                    rec[name] = attempt
                    break
        n = socket.socket(socket.AF_INET, socket.SOCK_DGRAM); n.bind(('127.0.0.1', 0))
        rec['fresh-client'] = next((i for i in range(1, K + 1) if ask(n, b'fresh%d' % i, 1.0)), None)
        udp_result.update({'recovered_at_attempt': rec, 'answered_while_down': served_down, 'alive': upx.alive()})
        upx.stop(); o.close()
    except Exception as e:
        udp_result['machinery'] = repr(e)
udp_thread = threading.Thread(target=udp_origin_outage, daemon=True)
udp_thread.start()
long_thread = threading.Thread(target=long_quic_outage, daemon=True)
long_thread.start()
def _guard(k):
    try:
        silent_result[k] = silent_origin(k)
    except Exception as e:
        silent_result[k] = {'machinery': repr(e)}
silent_threads = [threading.Thread(target=_guard, args=(k,), daemon=True) for k in ('quic', 'http', 'socks')]
[t.start() for t in silent_threads]

KINDS = ['direct', 'http', 'socks5', 'quic', 'lb']
PHASES = ['idle', 'mid-transfer', 'during-handshake']
FAULTS = ['stopped', 'killed-rst', 'restarted']
schedules = [(k, ph, f) for k in KINDS for ph in PHASES for f in FAULTS]
if tier() != 'thorough':
    quick = {('idle', 'stopped'), ('mid-transfer', 'killed-rst'), ('during-handshake', 'restarted'), ('idle', 'restarted')}
    schedules = [s for s in schedules if (s[1], s[2]) in quick]
evals = 0
distinct = set()
samples = []

def run_schedule(kind, phase, fault, second=None):
    """returns list of (site, class, detail) violations"""
    v = []
    # make sure the connector works before the outage
    if not any(probe(kind) for _ in range(3)):
        return [('recovery.precondition', f'connector-not-working-before-outage:{kind}', f'{kind} does not work before any fault')]
    held = None
    stalled = None
    if phase == 'mid-transfer':
        held = open_tunnel(kind)
        if held is None:
            return [('recovery.precondition', f'cannot-open-tunnel:{kind}', '')]
    if phase == 'during-handshake' and kind in ('http', 'socks5', 'lb'):
        # a request whose upstream handshake is pending while the upstream dies
        stalled = socket.create_connection(('127.0.0.1', hp), timeout=DEADLINE)
        host = 'slow.test'
        port = {'http': 1001, 'socks5': 1002, 'lb': 1001}[kind]
        stalled.sendall(f'CONNECT {host}:{port} HTTP/1.1\r\n\r\n'.encode())
        time.sleep(0.2)
    # ---- the outage
    for u in upstream_of(kind):
        u.stop(rst=(fault == 'killed-rst'))
    time.sleep(0.3)
    down_probe = probe(kind, 2.0) if kind != 'lb' else None
    if not control_ok():
        v.append(('recovery.isolation', f'healthy-tunnel-disturbed:{kind}/{fault}', f'the control tunnel stopped echoing during the {kind} outage'))
    # tunnels open across the outage must end
    if held is not None:
        try:
            held.sendall(b'x' * 10)
        except OSError:
            pass
        data, how = recv_until_eof(held, 5.0)
        if how == 'timeout':
            v.append(('recovery.open-tunnels', f'tunnel-across-outage-not-closed:{kind}/{fault}', f'{kind}: the tunnel that was open when the upstream went away ({fault}) is still open 5 s later'))
        held.close()
    if stalled is not None:
        data, how = recv_until_eof(stalled, 6.0)
        if how == 'timeout':
            v.append(('recovery.open-tunnels', f'request-in-handshake-not-failed:{kind}/{fault}', f'{kind}: a request whose upstream handshake was pending when the upstream went away got no answer within 6 s'))
        stalled.close()
    # ---- the upstream comes back
    for u in upstream_of(kind):
        u.start()
    time.sleep(0.3)
    ok_at = None
    t0 = time.time()
    for attempt in range(1, K + 1):
        if probe(kind):
            ok_at = attempt
            break
    if ok_at is None:
        v.append(('recovery.resume', f'no-service-after-upstream-returned:{kind}/{fault}/{phase}', f'{kind}: upstream back after "{fault}" ({phase}) but {K} probes with {DEADLINE} s deadline each all failed ({time.time()-t0:.1f} s)'))
    if not control_ok():
        v.append(('recovery.isolation', f'healthy-tunnel-disturbed:{kind}/{fault}', f'the control tunnel stopped echoing after the {kind} outage'))
    distinct.add((kind, phase, fault, ok_at, down_probe))
    return v

for (kind, phase, fault) in schedules:
    if phase == 'during-handshake' and kind in ('direct', 'quic'):
        continue
    evals += 1
    vs = run_schedule(kind, phase, fault)
    for site, cls, detail in vs:
        chk.violation(site, cls, detail, {'connector': kind, 'phase': phase, 'fault': fault})
    if len(samples) < 4:
        samples.append({'connector': kind, 'phase': phase, 'fault': fault, 'violations': [c for _, c, _ in vs]})
    if not px.alive():
        chk.violation('process', 'proxy-died', f'proxy exited with {px.returncode()} during {kind}/{phase}/{fault}: {px.log()[-300:]}', {})
        break

# ---- the upstream silently drops connection attempts (no refusal, no reset) while many requests are routed to it:
#      tunnels and new requests on other upstreams must not notice, and the connector recovers afterwards
for kind in ('http', 'socks5'):
    if not px.alive():
        break
    evals += 1
    up = upstream_of(kind)[0]
    if not probe(kind):
        machinery(f'{kind} connector does not work before the black-hole scenario')
    st_r, rules_before = px.api('GET', '/rules')
    if st_r != 200:
        machinery(f'GET /api/rules -> {st_r}')
    up.stop()
    hole, fillers, dropping = blackhole(up.port)
    if not dropping:
        for f in fillers:
            f.close()
        hole.close()
        up.start()
        samples.append({'blackhole': kind, 'skipped': 'could not make the kernel drop connection attempts'})
        continue
    pend = []
    def pending_request(i):
        try:
            s, code, head, rest = http_connect(hp, target_for(kind), timeout=15)
            s.close()
        except OSError:
            pass
    ths = [threading.Thread(target=pending_request, args=(i,), daemon=True) for i in range(48)]
    [t.start() for t in ths]
    t0 = time.time()
    worst_ctl = worst_new = 0.0
    bad = []
    posted = None
    while time.time() - t0 < 4.0:
        if posted is None and time.time() - t0 > 1.0:
            # the operator's move during an outage: the rule list is posted (here: unchanged) while requests hang on
            # the silent upstream - answered promptly, and everything below goes on being served afterwards
            a = time.time()
            st, body = px.api('POST', '/rules', rules_before, timeout=4)
            posted = (st, round(time.time() - a, 2))
            if st != 200:
                bad.append(f'POST /api/rules with requests pending on the silent upstream: status {st} after {posted[1]} s')
                break
        a = time.time()
        okc = control_ok()
        worst_ctl = max(worst_ctl, time.time() - a)
        a = time.time()
        okn = probe('direct', deadline=2.5)
        worst_new = max(worst_new, time.time() - a)
        if not okc:
            bad.append('control tunnel on a healthy upstream stalled')
            break
        if not okn:
            bad.append('new request through the direct connector not served within 2.5 s')
            break
        time.sleep(0.2)
    for f in fillers:
        f.close()
    hole.close()
    up.start()
    distinct.add((kind, 'blackhole', bool(bad)))
    for b in bad:
        chk.violation('recovery.isolation', f'healthy-traffic-disturbed-while-upstream-drops-connection-attempts:{kind}', f'{kind} upstream silently dropping SYNs with 48 requests pending: {b} (worst control round trip {worst_ctl:.2f}s, worst new request {worst_new:.2f}s)', {'connector': kind, 'pending': 48})
    rec = None
    for attempt in range(1, K + 1):
        if probe(kind):
            rec = attempt
            break
        time.sleep(0.5)
    if rec is None:
        chk.violation('recovery.resume', f'no-service-after-upstream-returned:{kind}/syn-blackhole', f'{kind}: {K} attempts after the upstream accepts again, still no tunnel', {'connector': kind})
    samples.append({'blackhole': kind, 'rules_posted_during_outage': posted, 'worst_control_s': round(worst_ctl, 3), 'worst_new_request_s': round(worst_new, 3), 'recovered_at_attempt': rec})
    for t in ths:
        t.join(0.1)
    if not control_ok():
        # the control tunnel itself died: re-open for what follows
        control = control_open()

# ---- an origin that carries a few hundred tunnels is reset: every one of them fails cleanly - client disconnected,
#      error (or end) recorded in the history AND in the access log (they all end within one pass of the collector)
if px.alive():
    evals += 1
    NT = 300
    up = ups['direct']
    def opener(i):
        try:
            s, code, head, rest = http_connect(hp, target_for('direct'), timeout=6)
            if code != 200:
                s.close()
                return None
            s.sendall(b'hi'); 
            if recv_exact(s, 2, 4) != b'hi':
                s.close()
                return None
            return s
        except OSError:
            return None
    tunnels = [t for t in run_parallel(list(range(NT)), opener, workers=16) if isinstance(t, socket.socket)]
    ports = {t.getsockname()[1] for t in tunnels}
    if len(tunnels) < NT * 0.9:
        machinery(f'mass outage: only {len(tunnels)} of {NT} tunnels could be opened')
    # (the origin's handler threads sit in recv(): a close() from here does not take effect before they return - wake them)
    with up.o.lock:
        for r_ in up.o.conns:
            try:
                r_['sock'].setsockopt(socket.SOL_SOCKET, socket.SO_LINGER, struct.pack('ii', 1, 0))
                r_['sock'].shutdown(socket.SHUT_RD)
            except OSError:
                pass
    up.stop(rst=True)
    t0 = time.time()
    still = list(tunnels)
    while still and time.time() - t0 < 6:
        nxt = []
        for t in still:
            t.settimeout(0.01)
            try:
                if t.recv(100) != b'':
                    nxt.append(t)
            except socket.timeout:
                nxt.append(t)
            except OSError:
                pass
        still = nxt
        if still:
            time.sleep(0.1)
    for t in tunnels:
        try: t.close()
        except OSError: pass
    up.start()
    time.sleep(2.5)
    px.api('POST', '/logrotate', '')
    time.sleep(0.5)
    logged = set()
    import glob as _glob
    for f in _glob.glob(os.path.join(px.dir, 'access.log*')):
        for line in open(f, errors='replace'):
            try:
                rec = json.loads(line)
                sp = int(str(rec.get('source', '')).rsplit(':', 1)[1])
            except Exception:
                continue
            if sp in ports and str(rec.get('target', '')).endswith(f':{up.port}'):
                logged.add(sp)
    st, body = px.api('GET', '/history')
    hist = set()
    if st == 200:
        for rec in json.loads(body):
            try:
                sp = int(str(rec.get('source', '')).rsplit(':', 1)[1])
            except Exception:
                continue
            if sp in ports and str(rec.get('target', '')).endswith(f':{up.port}'):
                hist.add(sp)
    distinct.add(('mass-outage', len(still) == 0, len(logged) == len(ports), len(hist) == len(ports)))
    if still:
        chk.violation('recovery.open-tunnels', 'tunnel-across-outage-not-closed:direct/mass-reset', f'{len(still)} of {len(tunnels)} tunnels to an origin that was reset were still open 6 s later', {'open': len(still)})
    if len(hist) != len(ports):
        chk.violation('recovery.open-tunnels', 'tunnel-across-outage-not-recorded:history', f'{len(ports) - len(hist)} of {len(ports)} tunnels broken by the reset of their origin have no record in the history', {})
    if len(logged) != len(ports):
        chk.violation('recovery.open-tunnels', 'tunnel-across-outage-not-recorded:access-log', f'{len(ports) - len(logged)} of {len(ports)} tunnels broken by the reset of their origin have no record in the access log (after a rotation)', {'logged': len(logged), 'tunnels': len(ports)})
    if not probe('direct'):
        chk.violation('recovery.resume', 'no-service-after-upstream-returned:direct/mass-reset', 'no tunnel after the origin was back', {})
    samples.append({'mass_outage': {'tunnels': len(tunnels), 'logged': len(logged), 'in_history': len(hist), 'left_open': len(still)}})
    if not control_ok():
        control = control_open()

# ---- many requests fail while the upstream is away, over repeated outages: whatever a connector keeps per failed
#      request (slots, counters, descriptors) must not add up to a refusal once the upstream is back
for kind in ('direct', 'http', 'socks5', 'lb'):
    if not px.alive():
        break
    evals += 1
    failed_total = 0
    lost = None
    for outage in range(1, 4):
        for u in upstream_of(kind):
            u.stop()
        time.sleep(0.1)
        def failing(i):
            try:
                s, code, head, rest = http_connect(hp, target_for(kind), timeout=6)
                s.close()
                return code
            except OSError:
                return None
        codes = run_parallel(list(range(70)), failing, workers=10)
        failed_total += sum(1 for c in codes if c != 200)
        for u in upstream_of(kind):
            u.start()
        rec = None
        for attempt in range(1, K + 1):
            if probe(kind):
                rec = attempt
                break
            time.sleep(0.3)
        distinct.add((kind, 'many-failures', outage, rec is not None))
        if rec is None:
            lost = outage
            break
    if lost is not None:
        chk.violation('recovery.resume', f'no-service-after-upstream-returned:{kind}/after-many-failed-requests', f'{kind}: outage {lost} of 3 with 70 requests failing during each ({failed_total} failures so far): {K} attempts after the upstream was back, still no tunnel', {'connector': kind, 'outage': lost, 'failed_requests': failed_total})
    samples.append({'many_failed_requests': kind, 'failed': failed_total, 'outages_survived': 3 if lost is None else lost - 1})
    if not control_ok():
        control = control_open()

if tier() == 'thorough' and px.alive():
    # pairs of outages on the same connector
    for kind in KINDS:
        for f1, f2 in itertools.product(FAULTS, repeat=2):
            evals += 1
            vs = run_schedule(kind, 'idle', f1) + run_schedule(kind, 'mid-transfer', f2)
            for site, cls, detail in vs:
                chk.violation(site, cls + ':second-outage', detail, {'connector': kind, 'faults': [f1, f2]})

for t in silent_threads:
    t.join(120)
for kind in ('quic', 'http', 'socks'):
    r = silent_result.get(kind)
    evals += 1
    if r is None or 'machinery' in r:
        machinery(f'silent-origin scenario {kind}: {r}')
    if 'skipped' in r:
        samples.append({'silent_origin': kind, 'skipped': r['skipped']})
        continue
    distinct.add(('silent-origin', kind, r['broken'] is None, r['new_failed'] is None))
    if r['broken'] is not None:
        chk.violation('recovery.isolation', f'tunnel-to-another-origin-broken-by-unanswered-request:{kind}', f'{kind} upstream healthy, one origin behind it silent: tunnel {r["broken"][0]} to another origin through the same upstream stopped echoing {r["broken"][1]} s after the unanswered requests were sent (their answers: {r["answers_for_the_silent_origin"]})', {'connector': kind, 'result': r})
    if r['new_failed'] is not None:
        chk.violation('recovery.isolation', f'new-request-to-another-origin-fails-while-one-origin-is-silent:{kind}', f'{kind}: a new tunnel to a healthy origin failed {r["new_failed"]} s into the scenario', {'connector': kind, 'result': r})
    if not r['alive']:
        chk.violation('recovery.isolation', f'process-died:{kind}', f'{kind}: a proxy process ended during the silent-origin scenario', {'connector': kind})
    samples.append({'silent_origin': kind, 'result': r})
udp_thread.join(60)
evals += 1
if udp_thread.is_alive() or 'machinery' in udp_result:
    machinery(f'UDP origin outage scenario: {udp_result.get("machinery", "did not finish")}')
for who, att in udp_result['recovered_at_attempt'].items():
    distinct.add(('udp-origin-outage', who, att is not None))
    if att is None:
        chk.violation('recovery.resume', f'no-service-after-upstream-returned:reverse-udp/{who}', f'reverse udp listener -> direct: the origin went away while in use and came back on its port; {who}: {K} datagrams one second apart, no answer', {'listener': 'reverse-udp', 'who': who, 'result': udp_result})
if udp_result.get('answered_while_down'):
    chk.violation('recovery.resume', 'datagram-answered-while-origin-was-away:reverse-udp', f'{udp_result["answered_while_down"]} answers while the origin socket was closed', {})
if not udp_result.get('alive'):
    chk.violation('recovery.isolation', 'process-died:reverse-udp-outage', 'the proxy ended during the UDP origin outage', {})
samples.append({'udp_origin_outage': udp_result})
long_thread.join(240)
evals += 1
moved_thread.join(90)
evals += 1
if moved_thread.is_alive() or 'machinery' in moved_result:
    machinery(f'moved origin scenario: {moved_result.get("machinery", "did not finish")}')
distinct.add(('moved-origin', moved_result.get('recovered_at_attempt') is not None))
if moved_result.get('recovered_at_attempt') is None:
    chk.violation('recovery.resume', 'no-service-after-origin-returned-on-another-address:direct', f'direct connector, origin named origin.test: it went away and came back on another address (name server updated, TTL 1 s): {K} attempts, still no tunnel (the name server was asked {moved_result.get("name_server_asked_again")} times after the change)', {'observed': {k: str(v) for k, v in moved_result.items()}})
samples.append({'moved_origin': moved_result})
if long_thread.is_alive() or 'machinery' in long_result:
    machinery(f'long QUIC outage scenario: {long_result.get("machinery", "did not finish")}')
distinct.add(('long-quic-outage', long_result.get('recovered') is not None))
if long_result.get('recovered') is None:
    chk.violation('recovery.resume', f'no-service-after-upstream-returned:quic/away-{OUTAGE_S}s-with-requests-arriving', f'quic upstream away for {OUTAGE_S} s while one request per second (and six at once every 12 s) kept arriving: {K} attempts ({long_result.get("gave_up_after_s")} s) after it was back, still no tunnel', {'connector': 'quic', 'outage_s': OUTAGE_S})
if long_result.get('alive') is False:
    chk.violation('process', 'proxy-died:quic/away-with-request-bursts', f'quic upstream away for {OUTAGE_S} s with a burst of six simultaneous requests every 12 s: the proxy process ended', {'observed': {k: str(v) for k, v in long_result.items()}})
if long_result.get('served_while_down'):
    chk.violation('recovery.resume', 'tunnel-established-while-upstream-was-away:quic', f'{long_result["served_while_down"]} probes succeeded while the QUIC upstream process was not running', {})
samples.append({'long_quic_outage': long_result})

alive = px.alive()
px.stop()
for u in ups.values():
    u.stop()
for o in (echo, qecho, cecho):
    o.stop()
if evals < 12 or len(distinct) < 5:
    machinery(f'vacuous: evals={evals} distinct={len(distinct)}')
cov = {'evaluations': evals, 'distinct_nontrivial': len(distinct), 'transitions': evals, 'traces_validated_against_impl': evals,
       'rule': f'real binary: [wave 10: an origin reached by name through the direct connector that comes back on another address (own name server, TTL 1 s) is served again within K attempts] connector kind {KINDS} x outage phase {PHASES} x fault {FAULTS} (quick: handshake phase only with restart; during the SYN black-hole with 48 requests pending the rule list is posted back through the API: answered within 4 s; thorough adds all pairs of outages); recovery = a probe succeeds within K={K} attempts of {DEADLINE} s after the upstream is reachable again; control tunnel checked during and after every outage; a QUIC upstream away for 34 s (thorough 110 s) with one request per second arriving meanwhile (the connection attempt backs off exponentially); plus, for http and socks5 upstreams, a listener that silently drops connection attempts with 48 requests pending while the control tunnel and new direct requests are timed; plus, for quic / http / socks hops (real second redproxy), one origin behind the healthy hop silently dropping connection attempts for 15 s with 3 requests pending, while 3 established tunnels through the same hop echo every 0.5 s and new ones are opened; plus three outages per connector (direct, http, socks5, lb) with 70 requests failing during each and a recovery probe after each; plus a UDP origin behind the reverse listener that goes away while in use and returns on its port: the same client socket, another known one and a fresh one are served again within K attempts',
       'schedules': evals, 'K': K, 'deadline_s': DEADLINE, 'schedule_control': 'kernel', 'samples': samples}
sys.exit(chk.finish('fault_enumeration', cov, ['silent packet loss on the QUIC path with later recovery is out of reach (needs the 3600 s idle timeout)', 'upstreams are Python servers / a second redproxy process killed with SIGKILL'], merge=False))
