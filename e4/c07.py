#!/usr/bin/env python3
"""C07 (real sockets): (1) SOCKS negotiation: every method-offer list of length 0-3 over {0,1,2,0x80,0xff} x
credentials x listener auth configuration, SOCKS4 ids; a peer is routed iff the reference accepts its credentials.
(2) TLS listener grid: listener kind {http, socks, quic} x client-certificate policy {absent, optional, required} x
presented certificate {none, valid, foreign CA}. (3) TLS connector grid: connector kind {http, socks, quic} x insecure
x upstream certificate {valid, foreign CA, wrong name}."""
import sys, json, itertools, ssl
sys.path.insert(0, '/verif/e4')
from lib import *

chk = Check('C07')
ensure_certs()
echo = Origin('echo')
evals = 0
distinct = set()
samples = []

# =============================================================== (1) SOCKS negotiation
scratch = tempfile.mkdtemp(prefix='c07-', dir=RUNDIR)
script = os.path.join(scratch, 'auth.sh')
open(script, 'w').write('#!/bin/sh\n[ "$1" = cu ] && [ "$2" = cp ]\n')
os.chmod(script, 0o755)
CMD = ['/bin/sh', script, '#USER#', '#PASS#']
USERS = [{'username': 'u', 'password': 'p'}, {'username': 's4', 'password': ''}]
LIST = {
    'users': {'required': True, 'users': USERS},
    'cmd': {'required': True, 'cmd': CMD, 'cache': {'timeout': 2}},
    'both': {'required': True, 'users': USERS, 'cmd': CMD, 'cache': {'timeout': 2}},
    'open': {'required': False, 'users': USERS},
    # credentials are required and nobody has any (an operator who emptied the user list to close a listener): nobody gets in
    'locked': {'required': True},
    'locked-empty': {'required': True, 'users': [], 'cmd': []},
}
ports = {k: free_port() for k in LIST}
apiport = free_port()
cfg = {'listeners': [{'name': f's-{k}', 'type': 'socks', 'bind': f'127.0.0.1:{ports[k]}', 'auth': v} for k, v in LIST.items()],
       'connectors': [{'name': 'direct'}], 'rules': [{'target': 'direct'}], 'metrics': {'bind': f'127.0.0.1:{apiport}', 'ui': None}}
px = Proxy(cfg, 'c07s')
px.api_port = apiport
if not px.start(list(ports.values()) + [apiport]):
    machinery('socks proxy did not start: ' + px.log()[-400:])

def accepts(listener, cred):
    """reference: are these credentials acceptable for this listener? cred = (user bytes, pass bytes) or None"""
    if listener == 'open':
        return True
    if cred is None:
        return False
    u, p = cred
    ok_users = (u, p) in ((b'u', b'p'), (b's4', b''))
    ok_cmd = (u, p) == (b'cu', b'cp')
    return {'users': ok_users, 'cmd': ok_cmd, 'both': ok_users or ok_cmd, 'locked': False, 'locked-empty': False}[listener]

CREDS = [(b'u', b'p'), (b'cu', b'cp'), (b'u', b'x'), (b'cu', b'p'), (b'nobody', b'p'), (b'', b''), (b'u' * 255, b'p'), (b'\xff\xfeu', b'p'), (b'u', b'')]
METHODS = [0, 1, 2, 0x80, 0xff]
offers = [()] + [o for n in (1, 2, 3) for o in itertools.product(METHODS, repeat=n)]
if tier() != 'thorough':
    offers = [o for o in offers if len(o) < 3 or len(set(o)) == 3]

_ue = socket.socket(socket.AF_INET, socket.SOCK_DGRAM)
_ue.bind(('127.0.0.1', 0))
uecho_port = _ue.getsockname()[1]
def _ue_loop():
    while True:
        try:
            d, a = _ue.recvfrom(4000)
            _ue.sendto(d, a)
        except OSError:
            return
threading.Thread(target=_ue_loop, daemon=True).start()

def socks5_session(port, offer, cred, cmd=1):
    """returns dict(selected=method|None, routed=bool)"""
    s = socket.create_connection(('127.0.0.1', port), timeout=4)
    try:
        s.sendall(bytes([5, len(offer)]) + bytes(offer))
        r = recv_exact(s, 2, 3)
        if len(r) < 2:
            return {'selected': None, 'routed': False}
        sel = r[1]
        if sel == 0xff:
            return {'selected': 0xff, 'routed': False}
        if sel == 2:
            u, p = cred
            s.sendall(b'\x01' + bytes([len(u)]) + u + bytes([len(p)]) + p)
            a = recv_exact(s, 2, 3)
            if len(a) < 2:
                return {'selected': 2, 'routed': False}
        elif sel != 0:
            return {'selected': sel, 'routed': False, 'weird': True}
        if cmd == 3:
            # UDP ASSOCIATE: routed = the listener grants a relay (and it relays)
            s.sendall(bytes([5, 3, 0]) + socks5_addr('0.0.0.0', 0))
            rep = recv_exact(s, 10, 3)
            if len(rep) >= 10 and rep[1] == 0:
                u = socket.socket(socket.AF_INET, socket.SOCK_DGRAM)
                u.settimeout(1.0)
                try:
                    u.sendto(b'\0\0\0' + socks5_addr('127.0.0.1', uecho_port) + b'uping', ('127.0.0.1', struct.unpack('>H', rep[8:10])[0]))
                    d, _ = u.recvfrom(2000)
                    relayed = d.endswith(b'uping')
                except OSError:
                    relayed = False
                u.close()
                return {'selected': sel, 'routed': True, 'relayed': relayed}
            return {'selected': sel, 'routed': False}
        s.sendall(bytes([5, 1, 0]) + socks5_addr('127.0.0.1', echo.port))
        rep = recv_exact(s, 10, 3)
        if len(rep) >= 2 and rep[1] == 0:
            s.sendall(b'ping')
            return {'selected': sel, 'routed': recv_exact(s, 4, 3) == b'ping'}
        return {'selected': sel, 'routed': False}
    except OSError:
        return {'selected': None, 'routed': False}
    finally:
        s.close()

# every command is behind the same credential check: CONNECT for the whole grid, UDP ASSOCIATE for the offers
# that can lead to a sub-negotiation or to no authentication at all
cases = [(l, o, c, 1) for l in LIST for o in offers for c in CREDS] + [(l, o, c, 3) for l in LIST for o in offers if len(o) <= 2 and (2 in o or 0 in o) for c in CREDS]
def run_case(case):
    l, o, c, cmd = case
    return socks5_session(ports[l], o, c, cmd)
results = run_parallel(cases, run_case, workers=16)
for (l, o, c, cmd), r in zip(cases, results):
    evals += 1
    if isinstance(r, tuple):
        machinery(f'{l} {o} {c}: {r}')
    required = l != 'open'
    # which method must the listener pick?
    if required:
        want_sel = 2 if 2 in o else 0xff
    else:
        want_sel = 0 if 0 in o else (2 if 2 in o else 0xff)
    routed_ok = (want_sel == 2 and accepts(l, c)) or (want_sel == 0)
    distinct.add((l, cmd, r['selected'], r['routed']))
    replay = {'listener_auth': l, 'command': {1: 'CONNECT', 3: 'UDP ASSOCIATE'}[cmd], 'offer': list(o), 'credentials': [c[0][:12].hex(), c[1][:12].hex()], 'observed': r}
    if cmd == 3:
        l = l + '/udp-associate'
    if required and r['selected'] == 0 and cmd == 1:
        chk.violation('socks.negotiation', f'no-auth-method-selected-although-required:{l}', f'listener {l}: offer {list(o)}: method 0 selected', replay)
    if r['routed'] and not routed_ok:
        why = 'unauthenticated-peer-routed' if required else 'routed-unexpectedly'
        chk.violation('socks.auth', f'{why}:{l}', f'listener {l}: offer {list(o)} credentials {c[0][:16]!r}/{c[1][:16]!r}: the request was routed', replay)
    if routed_ok and not r['routed'] and len(c[0]) < 255 and not c[0].startswith(b'\xff'):
        chk.violation('socks.auth', f'valid-peer-refused:{l}', f'listener {l}: offer {list(o)} credentials {c[0]!r}/{c[1]!r}: refused (selected {r["selected"]})', replay)
samples.append({'listener_auth': 'users', 'offer': [0, 2], 'credentials': 'u/x', 'expect': 'method 2 selected, request refused'})
# SOCKS4 ids
for l in LIST:
    for uid in (b'u', b's4', b'other', b''):
        evals += 1
        try:
            s, r = socks4_connect(ports[l], '127.0.0.1', echo.port, userid=uid, timeout=4)
            routed = len(r) >= 2 and r[1] == 90
            if routed:
                s.sendall(b'ping'); routed = recv_exact(s, 4, 3) == b'ping'
            s.close()
        except OSError:
            routed = False
        want = accepts(l, (uid, b''))
        distinct.add((l, 'socks4', routed))
        if routed and not want:
            chk.violation('socks.auth', f'unauthenticated-peer-routed:{l}/socks4', f'listener {l}: SOCKS4 id {uid!r} routed', {'listener_auth': l, 'userid': uid.hex()})
        if want and not routed:
            chk.violation('socks.auth', f'valid-peer-refused:{l}/socks4', f'listener {l}: SOCKS4 id {uid!r} refused', {'listener_auth': l, 'userid': uid.hex()})
# ---- the UDP relay of an authenticated association belongs to the host that authenticated: a datagram from another
#      host that reaches the relay port first (the port number is all it needs) is not forwarded, and does not take
#      the association away from its owner
def udp_relay_takeover(listener):
    uo = UdpOrigin()
    try:
        ctrl, r = socks5_connect(ports[listener], '0.0.0.0', 0, methods=(2,), userpass=(b'u', b'p'), cmd=3, timeout=5)
        if r.get('rep') != 0 or len(r['reply']) < 10:
            return {'error': f'association refused: {r}'}
        relay_port = struct.unpack('>H', r['reply'][8:10])[0]
        hdr = b'\0\0\0' + socks5_addr('127.0.0.1', uo.port)
        stranger = socket.socket(socket.AF_INET, socket.SOCK_DGRAM); stranger.bind(('127.0.0.2', 0)); stranger.settimeout(1.0)
        stranger.sendto(hdr + b'from-a-stranger', ('127.0.0.1', relay_port))
        try:
            stranger_reply = stranger.recvfrom(2000)[0]
        except OSError:
            stranger_reply = None
        owner = socket.socket(socket.AF_INET, socket.SOCK_DGRAM); owner.bind(('127.0.0.1', 0)); owner.settimeout(1.5)
        owner_ok = False
        for _ in range(3):
            owner.sendto(hdr + b'from-the-owner', ('127.0.0.1', relay_port))
            try:
                d, _ = owner.recvfrom(2000)
                if d.endswith(b'Rfrom-the-owner'):
                    owner_ok = True
                    break
            except OSError:
                pass
        time.sleep(0.2)
        forwarded = uo.count(b'from-a-stranger')
        ctrl.close(); stranger.close(); owner.close()
        return {'stranger_datagram_forwarded': forwarded, 'stranger_got_a_reply': stranger_reply is not None, 'owner_served': owner_ok}
    finally:
        uo.stop()
for l in ('users', 'both'):
    evals += 1
    r = udp_relay_takeover(l)
    if 'error' in r:
        machinery(f'udp relay takeover {l}: {r}')
    distinct.add(('udp-takeover', l, r['stranger_datagram_forwarded'] > 0, r['owner_served']))
    if r['stranger_datagram_forwarded'] or r['stranger_got_a_reply']:
        chk.violation('socks.auth', f'unauthenticated-peer-routed:udp-relay-of-another-clients-association:{l}', f'listener {l} (credentials required): u/p authenticated and opened a UDP association; a datagram from 127.0.0.2, which never authenticated, sent to the relay port first was forwarded ({r})', {'listener': l, 'observed': r})
    if not r['owner_served']:
        chk.violation('socks.auth', f'association-taken-from-its-owner:{l}', f'listener {l}: after a stranger sent a datagram to the relay port the authenticated owner of the association was not served ({r})', {'listener': l, 'observed': r})
    samples.append({'udp_relay_takeover': {'listener': l, **r}})

if not px.alive():
    chk.violation('process', 'proxy-died', f'exit {px.returncode()}: {px.log()[-300:]}', {})
px.stop()
shutil.rmtree(scratch, ignore_errors=True)

# =============================================================== (2) TLS listeners x client certificate policy
POL = {'absent': None, 'optional': {'ca': f'{CERTS}/ca.crt', 'required': False}, 'required': {'ca': f'{CERTS}/ca.crt', 'required': True}}
def tls_cfg(policy):
    t = {'cert': f'{CERTS}/server.crt', 'key': f'{CERTS}/server.key'}
    if POL[policy]:
        t['client'] = POL[policy]
    return t
lp = {(k, p): free_port() for k in ('http', 'socks', 'quic') for p in POL}
api2 = free_port()
cfgL = {'listeners': [{'name': f'{k}-{p}', 'type': k, 'bind': f'127.0.0.1:{lp[(k, p)]}', 'tls': tls_cfg(p)} for (k, p) in lp],
        'connectors': [{'name': 'direct'}], 'rules': [{'target': 'direct'}], 'metrics': {'bind': f'127.0.0.1:{api2}', 'ui': None}}
pL = Proxy(cfgL, 'c07l')
pL.api_port = api2
if not pL.start([api2] + [lp[(k, p)] for (k, p) in lp if k != 'quic']):
    machinery('tls listener proxy did not start: ' + pL.log()[-600:])
# front hop for the quic listeners: http listener -> quic connector presenting {none, valid, foreign}
CLI = {'none': None, 'valid': ('client.crt', 'client.key'), 'foreign': ('foreignclient.crt', 'foreignclient.key')}
fports = {(p, c): free_port() for p in POL for c in CLI}
api3 = free_port()
fconn, frules = [], []
fh = free_port()
for (p, c), port in fports.items():
    t = {'ca': f'{CERTS}/ca.crt'}
    if CLI[c]:
        t['auth'] = {'cert': f'{CERTS}/{CLI[c][0]}', 'key': f'{CERTS}/{CLI[c][1]}'}
    fconn.append({'name': f'q-{p}-{c}', 'type': 'quic', 'server': 'localhost', 'port': lp[('quic', p)], 'bind': '127.0.0.1:0', 'tls': t})
    frules.append({'filter': f'request.target.port == {port}', 'target': f'q-{p}-{c}'})
# the front hop routes by a fake target port; the back hop connects to that port: give every cell its own echo origin
fecho = {}
for key in list(fports):
    o = Origin('echo')
    fecho[key] = o
    for r in frules:
        if r['target'] == f'q-{key[0]}-{key[1]}':
            r['filter'] = f'request.target.port == {o.port}'
cfgF = {'listeners': [{'name': 'http', 'bind': f'127.0.0.1:{fh}'}], 'connectors': fconn, 'rules': frules, 'metrics': {'bind': f'127.0.0.1:{api3}', 'ui': None}}
pF = Proxy(cfgF, 'c07f')
pF.api_port = api3
if not pF.start([fh, api3]):
    machinery('front hop did not start: ' + pF.log()[-600:])

def tls_client(port, cert):
    ctx = ssl.create_default_context(cafile=f'{CERTS}/ca.crt')
    if CLI[cert]:
        ctx.load_cert_chain(f'{CERTS}/{CLI[cert][0]}', f'{CERTS}/{CLI[cert][1]}')
    raw = socket.create_connection(('127.0.0.1', port), timeout=4)
    return ctx.wrap_socket(raw, server_hostname='localhost')

def routed_through(kind, policy, cert):
    """True iff a request through this listener with this client certificate reaches the origin"""
    if kind == 'quic':
        o = fecho[(policy, cert)]
        try:
            s, code, head, rest = http_connect(fh, f'127.0.0.1:{o.port}', timeout=6)
            if code != 200:
                s.close(); return False
            s.sendall(b'ping'); ok = recv_exact(s, 4, 3) == b'ping'
            s.close()
            return ok
        except OSError:
            return False
    try:
        s = tls_client(lp[(kind, policy)], cert)
    except (ssl.SSLError, OSError):
        return False
    try:
        if kind == 'http':
            s2, code, head, rest = http_connect(None, f'127.0.0.1:{echo.port}', sock=s, timeout=4)
            if code != 200:
                return False
        else:
            s2, r = socks5_connect(None, '127.0.0.1', echo.port, sock=s, timeout=4)
            if r['rep'] != 0:
                return False
        s.sendall(b'ping')
        return recv_exact(s, 4, 3) == b'ping'
    except (ssl.SSLError, OSError):
        return False
    finally:
        try:
            s.close()
        except OSError:
            pass

tls_cases = [(k, p, c) for k in ('http', 'socks', 'quic') for p in POL for c in CLI]
tls_res = run_parallel(tls_cases, lambda x: routed_through(*x), workers=6)
for (k, p, c), routed in zip(tls_cases, tls_res):
    evals += 1
    if isinstance(routed, tuple):
        machinery(f'tls {k} {p} {c}: {routed}')
    distinct.add(('tls-listener', k, p, c, routed))
    replay = {'listener': k, 'client_cert_policy': p, 'presented': c, 'routed': routed}
    if p == 'required' and c != 'valid' and routed:
        chk.violation('tls.listener', f'peer-without-valid-certificate-routed:{k}', f'{k} listener with client certificate required: a peer presenting {c} was routed', replay)
    if routed is False and (c == 'valid' or (c == 'none' and p != 'required')):
        chk.violation('tls.listener', f'legitimate-peer-refused:{k}/{p}/{c}', f'{k} listener, policy {p}, certificate {c}: refused', replay)
samples.append({'listener': 'quic', 'client_cert_policy': 'required', 'presented': 'none', 'expect': 'not routed'})
for p_ in (pL, pF):
    if not p_.alive():
        chk.violation('process', 'proxy-died', f'exit {p_.returncode()}: {p_.log()[-300:]}', {})
    p_.stop()
for o in fecho.values():
    o.stop()

# =============================================================== (3) TLS connectors x upstream certificate
class TlsOrigin(Origin):
    def __init__(self, mode, cert):
        self.ctx = ssl.SSLContext(ssl.PROTOCOL_TLS_SERVER)
        self.ctx.load_cert_chain(f'{CERTS}/{cert}.crt', f'{CERTS}/{cert}.key')
        self.handshakes = 0
        super().__init__(mode)
    def _serve(self, c, a, rec):
        try:
            t = self.ctx.wrap_socket(c, server_side=True)
        except (ssl.SSLError, OSError):
            rec['tls'] = 'failed'
            try:
                c.close()
            except OSError:
                pass
            return
        rec['tls'] = 'ok'
        self.handshakes += 1
        super()._serve(t, a, rec)

UPCERT = {'valid': 'server', 'foreign': 'foreign', 'wrongname': 'wrongname'}
tls_up = {(k, cert): TlsOrigin(fake_http_proxy if k == 'http' else fake_socks_proxy, UPCERT[cert]) for k in ('http', 'socks') for cert in UPCERT}
# quic upstreams: back hops with the three certificates
qback = {}
for cert in UPCERT:
    qp, qa = free_port(), free_port()
    c_ = {'listeners': [{'name': 'q', 'type': 'quic', 'bind': f'127.0.0.1:{qp}', 'tls': {'cert': f'{CERTS}/{UPCERT[cert]}.crt', 'key': f'{CERTS}/{UPCERT[cert]}.key'}}],
          'connectors': [{'name': 'direct'}], 'rules': [{'target': 'direct'}], 'metrics': {'bind': f'127.0.0.1:{qa}', 'ui': None}}
    b = Proxy(c_, 'c07q')
    b.api_port = qa
    if not b.start([qa]):
        machinery('quic back hop did not start: ' + b.log()[-400:])
    qback[cert] = (b, qp)
conns, rules, cells = [], [], []
cecho = {}
for k in ('http', 'socks', 'quic'):
  for server in ('localhost', '127.0.0.1'):
    # the upstream is named by host name, or by address literal (then there is no name to match: verification can
    # only refuse)
    for insecure in (False, True):
        for cert in UPCERT:
            name = f'{k}-{"insecure" if insecure else "verify"}-{cert}-{"byname" if server == "localhost" else "byaddr"}'
            t = {'ca': f'{CERTS}/ca.crt', 'insecure': insecure}
            if k == 'quic':
                conns.append({'name': name, 'type': 'quic', 'server': server, 'port': qback[cert][1], 'bind': '127.0.0.1:0', 'tls': t})
            else:
                conns.append({'name': name, 'type': k, 'server': server, 'port': tls_up[(k, cert)].port, 'tls': t})
            o = Origin('echo')
            cecho[name] = o
            rules.append({'filter': f'request.target.port == {o.port}', 'target': name})
            cells.append((k, insecure, cert, name))
ch, ca_ = free_port(), free_port()
cfgC = {'listeners': [{'name': 'http', 'bind': f'127.0.0.1:{ch}'}], 'connectors': conns, 'rules': rules, 'metrics': {'bind': f'127.0.0.1:{ca_}', 'ui': None}}
pC = Proxy(cfgC, 'c07c')
pC.api_port = ca_
if not pC.start([ch, ca_]):
    machinery('tls connector proxy did not start: ' + pC.log()[-600:])
def through(cell):
    k, insecure, cert, name = cell
    try:
        s, code, head, rest = http_connect(ch, f'127.0.0.1:{cecho[name].port}', timeout=6)
        if code != 200:
            s.close(); return False
        s.sendall(b'ping'); ok = recv_exact(s, 4, 3) == b'ping'
        s.close()
        return ok
    except OSError:
        return False
def judge(cell, ok, history):
    global evals
    k, insecure, cert, name = cell
    evals += 1
    if isinstance(ok, tuple):
        machinery(f'{cell}: {ok}')
    distinct.add(('tls-connector', k, insecure, cert, ok, history))
    replay = {'connector': k, 'insecure': insecure, 'upstream_certificate': cert, 'tunnel_established': ok, 'history': history}
    byaddr = name.endswith('byaddr')
    replay['upstream_named_by'] = 'address literal' if byaddr else 'host name'
    if not insecure and cert != 'valid' and ok:
        chk.violation('tls.connector', f'tunnel-through-unverified-upstream:{k}/{cert}' + ('/by-address' if byaddr else ''), f'{k} connector without insecure ({replay["upstream_named_by"]}; {history}): a tunnel was established through an upstream presenting a {cert} certificate', replay)
    if not ok and (insecure or (cert == 'valid' and not byaddr)):
        chk.violation('tls.connector', f'legitimate-upstream-refused:{k}/{"insecure" if insecure else "verify"}/{cert}', f'{k} connector insecure={insecure}, upstream certificate {cert} ({history}): no tunnel', replay)
for cell, ok in zip(cells, run_parallel(cells, through, workers=6)):
    judge(cell, ok, 'first use, all connectors at once')
# histories: what one connector has negotiated with an upstream (a TLS session that can be resumed, for one) must not
# count for another connector with a stricter policy towards the same server name. Every lenient connector is used
# again, then every verifying one, one after the other, twice; then the verifying ones after a lenient connector of the
# same kind was used immediately before each of them
lenient = [c for c in cells if c[1]]
strict = [c for c in cells if not c[1]]
for rnd in (2, 3):
    for cell in lenient + strict:
        judge(cell, through(cell), f'round {rnd}: after every connector was used, lenient ones before verifying ones')
for cell in strict:
    k, insecure, cert, name = cell
    mate = [c for c in lenient if c[0] == k and c[2] == cert and c[3].endswith(name[-6:])][0]
    ok1 = through(mate)
    judge(mate, ok1, 'immediately before its verifying twin')
    judge(cell, through(cell), 'immediately after the lenient connector to the same upstream')
samples.append({'connector': 'socks', 'insecure': False, 'upstream_certificate': 'wrongname', 'expect': 'no tunnel'})
if not pC.alive():
    chk.violation('process', 'proxy-died', f'exit {pC.returncode()}: {pC.log()[-300:]}', {})
pC.stop()
for b, _ in qback.values():
    b.stop()
for o in list(tls_up.values()) + list(cecho.values()) + [echo]:
    o.stop()

if evals < 500 or len(distinct) < 20:
    machinery(f'vacuous: evals={evals} distinct={len(distinct)}')
cov = {'evaluations': evals, 'distinct_nontrivial': len(distinct), 'transitions': evals, 'traces_validated_against_impl': evals,
       'rule': 'real binary: (1) 6 listener auth configurations (users, command, both, open, required with nobody listed) x all method-offer lists of length 0-3 over {0,1,2,0x80,0xff} (quick: length-3 lists with distinct methods) x 9 credential pairs x command {CONNECT, UDP ASSOCIATE for offers of length <= 2} + SOCKS4 ids; (2) listener {http,socks,quic} x client certificate policy {absent,optional,required} x presented {none,valid,foreign}; (3) connector {http,socks,quic} x upstream named by host name / address literal x insecure x upstream certificate {valid,foreign,wrongname}, each connector used first with all others at once, then in two sequential rounds (lenient before verifying) and once right after its lenient twin (session resumption across connectors); routed = success reply and echo round trip',
       'socks_sessions': len(cases), 'tls_listener_cells': len(tls_cases), 'tls_connector_cells': len(cells), 'schedule_control': 'kernel', 'samples': samples}
sys.exit(chk.finish('model_checking', cov, ['E4 part: certificates minted by bin/mkcerts with openssl; the QUIC listener is reached through a front redproxy hop acting as QUIC client']))
