#!/usr/bin/env python3
"""C04 (real sockets): half-close / close / abort sequences through the real binary in both I/O modes.
All operation sequences up to length L over {client writes, origin writes, client half-closes, origin half-closes}
followed by one optional terminal op {client RST, origin RST, client close, origin close}, executed lock-step on real
loopback sockets with useSplice true and false. Oracle: a reference of TCP half-close semantics, and identical
observation sequences and final records in both modes."""
import sys, json, itertools
sys.path.insert(0, '/verif/e4')
from lib import *

chk = Check('C04')
L = 4 if tier() == 'thorough' else 3

class ManualOrigin:
    def __init__(self):
        self.sock = socket.socket()
        self.sock.setsockopt(socket.SOL_SOCKET, socket.SO_REUSEADDR, 1)
        self.sock.bind(('127.0.0.1', 0))
        self.sock.listen(256)
        self.port = self.sock.getsockname()[1]
    def accept(self, timeout=5):
        self.sock.settimeout(timeout)
        c, a = self.sock.accept()
        return c

def sequences():
    base = ['cw', 'ow', 'csh', 'osh']
    out = []
    for n in range(0, L + 1):
        for seq in itertools.product(base, repeat=n):
            c_open, o_open, ok = True, True, True
            for op in seq:
                if op == 'cw' and not c_open: ok = False
                if op == 'ow' and not o_open: ok = False
                if op == 'csh':
                    if not c_open: ok = False
                    c_open = False
                if op == 'osh':
                    if not o_open: ok = False
                    o_open = False
            if not ok:
                continue
            for term in [None, 'crst', 'orst', 'cc', 'oc']:
                if term is None and (c_open or o_open):
                    # without a terminal op the script ends by closing both ends anyway (clean-up), record as 'both-close'
                    pass
                out.append(list(seq) + ([term] if term else []))
    return out

def rst_close(s):
    s.setsockopt(socket.SOL_SOCKET, socket.SO_LINGER, struct.pack('ii', 1, 0))
    s.close()

def expect_bytes(s, data, timeout=4.0):
    got = recv_exact(s, len(data), timeout)
    return got == data, got

def expect_end(s, timeout=4.0, allow_reset=False):
    """returns 'eof' | 'reset' | 'timeout' | 'data:<hex>'"""
    s.settimeout(timeout)
    try:
        d = s.recv(65536)
    except socket.timeout:
        return 'timeout'
    except (ConnectionResetError, BrokenPipeError, OSError):
        return 'reset'
    if d == b'':
        return 'eof'
    return 'data:' + d[:16].hex()

def run_script(px_port, origin, seq, idx, client='http'):
    """returns (observations, source_port)"""
    obs = []
    c = socket.create_connection(('127.0.0.1', px_port), timeout=5)
    sport = c.getsockname()[1]
    if client == 'http':
        c.sendall(f'CONNECT 127.0.0.1:{origin.port} HTTP/1.1\r\n\r\n'.encode())
        o = origin.accept()
        head, rest = recv_head(c, 5)
        if not head.startswith(b'HTTP/1.1 200'):
            return ['no-tunnel:' + head[:30].decode('latin1')], sport
    elif client == 'socks5':
        c.sendall(b'\x05\x01\x00' + b'\x05\x01\x00\x01\x7f\x00\x00\x01' + struct.pack('>H', origin.port))
        o = origin.accept()
        r = recv_exact(c, 12, 5)
        if len(r) != 12 or r[3] != 0:
            return ['no-tunnel:' + r.hex()], sport
    else:
        c.sendall(b'\x04\x01' + struct.pack('>H', origin.port) + b'\x7f\x00\x00\x01id\x00')
        o = origin.accept()
        r = recv_exact(c, 8, 5)
        if len(r) != 8 or r[1] != 90:
            return ['no-tunnel:' + r.hex()], sport
    n = 0
    c_alive, o_alive = True, True
    for op in seq:
        n += 1
        if op == 'cw':
            data = pattern(37 + n, idx & 0xff)
            c.sendall(data)
            ok, got = expect_bytes(o, data)
            obs.append('cw:ok' if ok else f'cw:origin-got-{len(got)}-of-{len(data)}')
        elif op == 'ow':
            data = pattern(53 + n, (idx + 7) & 0xff)
            o.sendall(data)
            ok, got = expect_bytes(c, data)
            obs.append('ow:ok' if ok else f'ow:client-got-{len(got)}-of-{len(data)}')
        elif op == 'cbulk':
            # data still in flight when the sender ends: everything must arrive before the end-of-stream
            data = pattern(300000 + n, idx & 0xff)
            c.sendall(data)
            c.shutdown(socket.SHUT_WR)
            got, how = recv_until_eof(o, 8)
            obs.append('cbulk:ok' if (got == data and how == 'eof') else f'cbulk:origin-got-{len(got)}-of-{len(data)}-then-{how}')
        elif op == 'obulk':
            data = pattern(300000 + n, (idx + 3) & 0xff)
            o.sendall(data)
            o.shutdown(socket.SHUT_WR)
            got, how = recv_until_eof(c, 8)
            obs.append('obulk:ok' if (got == data and how == 'eof') else f'obulk:client-got-{len(got)}-of-{len(data)}-then-{how}')
        elif op == 'csh':
            c.shutdown(socket.SHUT_WR)
            obs.append('csh:origin-sees-' + expect_end(o))
        elif op == 'osh':
            o.shutdown(socket.SHUT_WR)
            obs.append('osh:client-sees-' + expect_end(c))
        elif op == 'crst':
            rst_close(c); c_alive = False
            r = expect_end(o)
            obs.append('crst:origin-sees-' + ('closed' if r in ('eof', 'reset') else r))
        elif op == 'orst':
            rst_close(o); o_alive = False
            r = expect_end(c)
            obs.append('orst:client-sees-' + ('closed' if r in ('eof', 'reset') else r))
        elif op == 'cc':
            c.close(); c_alive = False
            obs.append('cc:origin-sees-' + expect_end(o))
        elif op == 'oc':
            o.close(); o_alive = False
            obs.append('oc:client-sees-' + expect_end(c))
    # clean-up: close what is still open (the proxy must then finish the connection)
    for s, alive in ((c, c_alive), (o, o_alive)):
        if alive:
            try:
                s.close()
            except OSError:
                pass
    return obs, sport

def reference(seq):
    """expected observation list"""
    exp = []
    c_sh = o_sh = False
    for op in seq:
        if op in ('cw', 'ow', 'cbulk', 'obulk'):
            exp.append(op + ':ok')
        elif op == 'csh':
            c_sh = True
            exp.append('csh:origin-sees-eof')
        elif op == 'osh':
            o_sh = True
            exp.append('osh:client-sees-eof')
        elif op == 'crst':
            # the origin had possibly already seen EOF (after csh): then it has nothing more to observe... it still must be closed
            exp.append('crst:origin-sees-closed')
        elif op == 'orst':
            exp.append('orst:client-sees-closed')
        elif op == 'cc':
            exp.append('cc:origin-sees-eof')
        elif op == 'oc':
            exp.append('oc:client-sees-eof')
    return exp

seqs = sequences()
results = {}
records = {}
for mode in (True, False):
    origin = ManualOrigin()
    hp, ap = free_port(), free_port()
    cfg = {'listeners': [{'name': 'http', 'bind': f'127.0.0.1:{hp}'}], 'connectors': [{'name': 'direct'}], 'rules': [{'target': 'direct'}],
           'metrics': {'bind': f'127.0.0.1:{ap}', 'ui': None, 'historySize': 100000}, 'ioParams': {'bufferSize': 4096, 'useSplice': mode}, 'timeouts': {'idle': 600}}
    px = Proxy(cfg, 'c04')
    px.api_port = ap
    if not px.start([hp, ap]):
        machinery('proxy did not start: ' + px.log()[-400:])
    lock = threading.Lock()
    def job(i):
        # accept() must pair with this script's connection: serialise connection set-up, run the body in parallel
        with lock:
            pass
        return run_script(hp, origin_for[i], seqs[i], i)
    # one listening origin per worker keeps accept() pairing trivial
    workers = 8
    origins = [ManualOrigin() for _ in range(workers)]
    origin_for = {i: origins[i % workers] for i in range(len(seqs))}
    out = [None] * len(seqs)
    nbad = [0]
    def worker(w):
        for i in range(w, len(seqs), workers):
            if nbad[0] >= 24:
                out[i] = (None, None)   # enough failing scripts to report; the rest would only wait for time-outs
                continue
            try:
                out[i] = run_script(hp, origins[w], seqs[i], i)
            except Exception as e:
                out[i] = (['exception:' + repr(e)], None)
            if out[i][0] != reference(seqs[i]):
                nbad[0] += 1
    ts = [threading.Thread(target=worker, args=(w,), daemon=True) for w in range(workers)]
    [t.start() for t in ts]
    [t.join() for t in ts]
    results[mode] = out
    time.sleep(2.3)  # GC
    st, body = px.api('GET', '/history')
    live_st, live_body = px.api('GET', '/live')
    recs = {}
    if st == 200:
        for r in json.loads(body):
            try:
                recs[int(r['source'].rsplit(':', 1)[1])] = r
            except Exception:
                pass
    records[mode] = (recs, json.loads(live_body) if live_st == 200 else None)
    if not px.alive():
        chk.violation('process', 'proxy-died', f'useSplice={mode}: exit {px.returncode()}: {px.log()[-300:]}', {})
    px.stop()

# ---- pairing matrix: the same scripts through two real hops, client protocol x what carries the middle hop
#      (plain, TLS, SOCKS, QUIC), both I/O modes; plus scripts with data in flight when the sender ends
ensure_certs()
TLSS = {'cert': f'{CERTS}/server.crt', 'key': f'{CERTS}/server.key'}
TLSC = {'ca': f'{CERTS}/ca.crt'}
MCONN = ['direct', 'http', 'http+tls', 'socks5', 'socks5+tls', 'socks4', 'quic']
MCLIENT = ['http', 'socks5', 'socks4']
def matrix_seqs():
    base = [s for s in seqs if len([o for o in s if o in ('cw', 'ow', 'csh', 'osh')]) <= (3 if L >= 4 else 2)]
    extra = [['cbulk'], ['cbulk', 'ow', 'osh'], ['obulk'], ['obulk', 'cw', 'csh'], ['cw', 'cbulk'], ['csh', 'obulk'], ['osh', 'cbulk'], ['cbulk', 'obulk'], ['obulk', 'cbulk']]
    if L < 4:
        # quick: all scripts of <= 1 op with every terminal, the half-close pairs, the in-flight scripts
        base = [s for s in base if len(s) <= 2 or s[:2] in (['csh', 'osh'], ['osh', 'csh'], ['csh', 'ow'], ['osh', 'cw'])]
    return base + extra
mseqs = matrix_seqs()
mresults = {}
def connector_cfg(cname, pb):
    return {
        'direct': [{'name': 'c', 'type': 'direct'}],
        'http': [{'name': 'c', 'type': 'http', 'server': '127.0.0.1', 'port': pb['http']}],
        'http+tls': [{'name': 'c', 'type': 'http', 'server': 'localhost', 'port': pb['https'], 'tls': TLSC}],
        'socks5': [{'name': 'c', 'type': 'socks', 'server': '127.0.0.1', 'port': pb['socks'], 'version': 5}],
        'socks5+tls': [{'name': 'c', 'type': 'socks', 'server': 'localhost', 'port': pb['sockss'], 'tls': TLSC}],
        'socks4': [{'name': 'c', 'type': 'socks', 'server': '127.0.0.1', 'port': pb['socks'], 'version': 4}],
        'quic': [{'name': 'c', 'type': 'quic', 'server': 'localhost', 'port': pb['quic'], 'bind': '127.0.0.1:0', 'tls': TLSC}],
    }[cname]
for mode in (True, False):
    pb = {k: free_port() for k in ('http', 'https', 'socks', 'sockss', 'quic')}
    hopB = Proxy({'listeners': [
        {'name': 'http', 'bind': f"127.0.0.1:{pb['http']}"}, {'name': 'https', 'type': 'http', 'bind': f"127.0.0.1:{pb['https']}", 'tls': TLSS},
        {'name': 'socks', 'bind': f"127.0.0.1:{pb['socks']}"}, {'name': 'sockss', 'type': 'socks', 'bind': f"127.0.0.1:{pb['sockss']}", 'tls': TLSS},
        {'name': 'quic', 'type': 'quic', 'bind': f"127.0.0.1:{pb['quic']}", 'tls': TLSS}],
        'connectors': [{'name': 'direct'}], 'rules': [{'target': 'direct'}], 'ioParams': {'bufferSize': 4096, 'useSplice': mode}, 'timeouts': {'idle': 600}}, 'c04b')
    if not hopB.start([pb['http'], pb['https'], pb['socks'], pb['sockss']]):
        machinery('hop B did not start: ' + hopB.log()[-400:])
    hops = {}
    for cname in MCONN:
        pa = {k: free_port() for k in ('http', 'socks', 'api')}
        pxa = Proxy({'listeners': [{'name': 'http', 'bind': f"127.0.0.1:{pa['http']}"}, {'name': 'socks', 'bind': f"127.0.0.1:{pa['socks']}"}],
                     'connectors': connector_cfg(cname, pb), 'rules': [{'target': 'c'}],
                     'metrics': {'bind': f"127.0.0.1:{pa['api']}", 'ui': None, 'historySize': 100000},
                     'ioParams': {'bufferSize': 4096, 'useSplice': mode}, 'timeouts': {'idle': 600}}, 'c04a')
        pxa.api_port = pa['api']
        if not pxa.start([pa['http'], pa['socks'], pa['api']]):
            machinery(f'hop A ({cname}) did not start: ' + pxa.log()[-400:])
        hops[cname] = (pxa, pa)
    cells = [(cl, cn) for cl in MCLIENT for cn in MCONN]
    def run_cellm(cell):
        cl, cn = cell
        pxa, pa = hops[cn]
        org = ManualOrigin()
        out = []
        bad = 0
        for i, sq in enumerate(mseqs):
            if bad >= 3:
                # this pairing is broken: three failing scripts are reported, the rest would only wait for time-outs
                out.append((None, None))
                continue
            try:
                out.append(run_script(pa['http'] if cl == 'http' else pa['socks'], org, sq, i, client=cl))
            except Exception as e:
                out.append((['exception:' + repr(e)[:80]], None))
            if out[-1][0] != reference(sq):
                bad += 1
        org.sock.close()
        return out
    res = run_parallel(cells, run_cellm, workers=16)
    time.sleep(2.3)
    for cell, r in zip(cells, res):
        if isinstance(r, tuple):
            machinery(f'matrix {cell}: {r}')
        pxa, pa = hops[cell[1]]
        st, body = pxa.api('GET', '/history')
        recs = {}
        if st == 200:
            for h in json.loads(body):
                try:
                    recs[(h['listener'], int(h['source'].rsplit(':', 1)[1]))] = h
                except Exception:
                    pass
        mresults[(mode, cell)] = (r, recs)
    for cname, (pxa, pa) in hops.items():
        if not pxa.alive():
            chk.violation('process', 'proxy-died', f'hop A {cname} useSplice={mode}: exit {pxa.returncode()}: {pxa.log()[-300:]}', {})
        pxa.stop()
    if not hopB.alive():
        chk.violation('process', 'proxy-died', f'hop B useSplice={mode}: exit {hopB.returncode()}: {hopB.log()[-300:]}', {})
    hopB.stop()

evals = 0
distinct = set()
samples = []
def names(r):
    return [s['state'] for s in r.get('state', [])]
for i, seq in enumerate(seqs):
    exp = reference(seq)
    per_mode = {}
    for mode in (True, False):
        evals += 1
        obs, sport = results[mode][i]
        if obs is None:
            per_mode[mode] = None
            continue
        mname = 'splice' if mode else 'buffered'
        per_mode[mode] = obs
        distinct.add((tuple(obs),))
        replay = {'ops': seq, 'useSplice': mode, 'observed': obs, 'expected': exp}
        if obs != exp:
            # class: first differing step
            k = next((j for j in range(min(len(obs), len(exp))) if obs[j] != exp[j]), min(len(obs), len(exp)))
            step = obs[k] if k < len(obs) else 'missing'
            kind = step.split(':')[0]
            what = {'csh': 'client-halfclose-not-relayed', 'osh': 'origin-halfclose-not-relayed', 'cw': 'data-lost-client-to-origin', 'ow': 'data-lost-origin-to-client',
                    'crst': 'client-abort-not-relayed', 'orst': 'origin-abort-not-relayed', 'cc': 'client-close-not-relayed', 'oc': 'origin-close-not-relayed'}.get(kind, kind)
            chk.violation(f'close.{mname}', what, f'{mname}: ops {seq}: observed {obs}, expected {exp}', replay)
        # final record
        recs, live = records[mode]
        rec = recs.get(sport)
        if rec is None:
            still_live = live is not None and any(str(l.get('source', '')).endswith(f':{sport}') for l in live)
            chk.violation(f'close.{mname}', 'connection-not-recorded-as-finished' + ('-still-live' if still_live else ''), f'{mname}: ops {seq}: no history record 2.3 s after both test sockets were closed', replay)
        else:
            st = names(rec)
            per_mode[(mode, 'rec')] = st[-1] if st else None
            if not st or st[-1] not in ('Terminated', 'ErrorOccured'):
                chk.violation(f'close.{mname}', 'no-terminal-state', f'{mname}: ops {seq}: states {st}', replay)
    if per_mode.get(True) is not None and per_mode.get(False) is not None and (per_mode[True] != per_mode[False] or per_mode.get((True, 'rec')) != per_mode.get((False, 'rec'))):
        chk.violation('close.differential', 'modes-observe-differently', f'ops {seq}: splice {per_mode[True]} buffered {per_mode[False]}', {'ops': seq})
    if len(samples) < 3 and len(seq) == L:
        samples.append({'ops': seq, 'observed_splice': per_mode[True], 'observed_buffered': per_mode[False]})

WHAT = {'csh': 'client-halfclose-not-relayed', 'osh': 'origin-halfclose-not-relayed', 'cw': 'data-lost-client-to-origin', 'ow': 'data-lost-origin-to-client',
        'crst': 'client-abort-not-relayed', 'orst': 'origin-abort-not-relayed', 'cc': 'client-close-not-relayed', 'oc': 'origin-close-not-relayed',
        'cbulk': 'bytes-in-flight-lost-at-client-end-of-stream', 'obulk': 'bytes-in-flight-lost-at-origin-end-of-stream'}
mcount = 0
for (mode, cell), (r, recs) in mresults.items():
    cl, cn = cell
    mname = 'splice' if mode else 'buffered'
    for i, sq in enumerate(mseqs):
        evals += 1
        mcount += 1
        obs, sport = r[i]
        if obs is None:
            continue
        exp = reference(sq)
        distinct.add((cl, cn, tuple(obs) == tuple(exp)))
        replay = {'client': cl, 'middle_hop': cn, 'ops': sq, 'useSplice': mode, 'observed': obs, 'expected': exp}
        if obs != exp:
            k = next((j for j in range(min(len(obs), len(exp))) if obs[j] != exp[j]), min(len(obs), len(exp)))
            step = obs[k] if k < len(obs) else 'missing'
            what = WHAT.get(step.split(':')[0], step.split(':')[0])
            chk.violation(f'close.matrix.{cl}->{cn}', f'{what}|{mname}', f'{cl} -> {cn} ({mname}): ops {sq}: observed {obs}, expected {exp}', replay)
        elif sport is not None:
            rec = recs.get(('http' if cl == 'http' else 'socks', sport))
            if rec is None:
                chk.violation(f'close.matrix.{cl}->{cn}', f'connection-not-recorded-as-finished|{mname}', f'{cl} -> {cn} ({mname}): ops {sq}: no history record 2.3 s after both test sockets were closed', replay)
            elif not names(rec) or names(rec)[-1] not in ('Terminated', 'ErrorOccured'):
                chk.violation(f'close.matrix.{cl}->{cn}', f'no-terminal-state|{mname}', f'{cl} -> {cn} ({mname}): ops {sq}: states {names(rec)}', replay)

# ---- an endpoint that aborts AFTER it has ended its own direction, while the opposite direction is silent: the abort
#      must still end the connection promptly (observed in /api/live: the peer cannot tell a half-closed proxy socket
#      from a closed one without writing, and writing would end the connection anyway)
def abort_after_half_close(case):
    mode, who = case
    o = Origin('silent') if False else None
    ls = socket.socket(); ls.setsockopt(socket.SOL_SOCKET, socket.SO_REUSEADDR, 1); ls.bind(('127.0.0.1', 0)); ls.listen(4)
    hp_, ap_ = free_port(), free_port()
    pxa = Proxy({'listeners': [{'name': 'http', 'bind': f'127.0.0.1:{hp_}'}], 'connectors': [{'name': 'direct'}], 'rules': [{'target': 'direct'}],
                 'metrics': {'bind': f'127.0.0.1:{ap_}', 'ui': None}, 'ioParams': {'bufferSize': 65536, 'useSplice': mode}}, 'c04a')
    pxa.api_port = ap_
    if not pxa.start([hp_, ap_]):
        return {'error': pxa.log()[-300:]}
    try:
        c = socket.create_connection(('127.0.0.1', hp_), timeout=5)
        c.sendall(f'CONNECT 127.0.0.1:{ls.getsockname()[1]} HTTP/1.1\r\n\r\n'.encode())
        ls.settimeout(5)
        srv, _ = ls.accept()
        head, rest = recv_head(c, 5)
        if not head.startswith(b'HTTP/1.1 200'):
            return {'error': f'no tunnel: {head[:40]!r}'}
        x, y = (c, srv) if who == 'client' else (srv, c)
        x.sendall(b'request')
        if recv_exact(y, 7, 3) != b'request':
            return {'error': 'payload not relayed'}
        x.shutdown(socket.SHUT_WR)
        if expect_end(y) != 'eof':
            return {'error': 'end-of-stream not relayed'}
        time.sleep(0.2)
        rst_close(x)                       # ... and now the endpoint that had finished sending is gone for good
        t0 = time.time()
        gone = None
        while time.time() - t0 < 3.0:
            st, body = pxa.api('GET', '/live')
            if st == 200 and not any(r.get('listener') == 'http' for r in json.loads(body)):
                gone = time.time() - t0
                break
            time.sleep(0.1)
        y.close()
        return {'finished_after_s': gone}
    finally:
        pxa.stop(); ls.close()

ACASES = [(m, w) for m in (True, False) for w in ('client', 'origin')]
for case, r in zip(ACASES, run_parallel(ACASES, abort_after_half_close, workers=4)):
    mode, who = case
    evals += 1
    mname = 'splice' if mode else 'buffered'
    if isinstance(r, tuple) or 'error' in r:
        machinery(f'abort after half-close {case}: {r}')
    distinct.add(('abort-after-half-close', mname, who, r['finished_after_s'] is not None))
    if r['finished_after_s'] is None:
        chk.violation('close.abort-after-half-close', f'connection-lingers:{who}|{mname}', f'{who} sent its bytes, ended its direction, then reset the connection while the other side stayed silent ({mname}): 3 s later the proxy still lists the connection as live', {'useSplice': mode, 'who': who})

# ---- an abort with data lost must not reach a TLS peer as a clean end-of-stream: X sends 2 MiB at a Y that is not
#      reading yet and resets its connection; Y then reads. TLS gives Y an authenticated end-of-stream (close_notify):
#      it may observe that only after every byte X sent - after an abort that cost bytes it has to see a truncation
import ssl as _ssl
def abort_through_tls(case):
    mode, where = case
    N = 2 << 20
    hp_, ap_ = free_port(), free_port()
    res = {}
    stop = threading.Event()
    def slow_end(sock, key):
        """read to the end, starting late: how many bytes, and how the stream ended"""
        time.sleep(1.0)
        n = 0
        how = 'timeout'
        sock.settimeout(6)
        try:
            while True:
                d = sock.recv(65536)
                if not d:
                    how = 'clean end-of-stream'
                    break
                n += len(d)
        except _ssl.SSLEOFError:
            how = 'truncated (no close_notify)'
        except _ssl.SSLError as e:
            how = f'tls error {e.reason}'
        except socket.timeout:
            how = 'timeout'
        except OSError:
            how = 'reset'
        res[key] = (n, how)
    if where == 'tls-client':
        ls = socket.socket(); ls.setsockopt(socket.SOL_SOCKET, socket.SO_REUSEADDR, 1); ls.bind(('127.0.0.1', 0)); ls.listen(4)
        cfg = {'listeners': [{'name': 'https', 'type': 'http', 'bind': f'127.0.0.1:{hp_}', 'tls': TLSS}], 'connectors': [{'name': 'direct'}], 'rules': [{'target': 'direct'}]}
    else:
        tctx = _ssl.SSLContext(_ssl.PROTOCOL_TLS_SERVER); tctx.load_cert_chain(f'{CERTS}/server.crt', f'{CERTS}/server.key')
        ls = socket.socket(); ls.setsockopt(socket.SOL_SOCKET, socket.SO_REUSEADDR, 1); ls.bind(('127.0.0.1', 0)); ls.listen(4)
        cfg = {'listeners': [{'name': 'http', 'bind': f'127.0.0.1:{hp_}'}], 'connectors': [{'name': 'c', 'type': 'http', 'server': 'localhost', 'port': ls.getsockname()[1], 'tls': TLSC}], 'rules': [{'target': 'c'}]}
    cfg.update({'metrics': {'bind': f'127.0.0.1:{ap_}', 'ui': None}, 'ioParams': {'bufferSize': 65536, 'useSplice': mode}})
    pxa = Proxy(cfg, 'c04t')
    pxa.api_port = ap_
    if not pxa.start([ap_], timeout=10):
        return {'error': pxa.log()[-300:]}
    try:
        if where == 'tls-client':
            raw = socket.socket(); raw.setsockopt(socket.SOL_SOCKET, socket.SO_RCVBUF, 16384); raw.settimeout(5); raw.connect(('127.0.0.1', hp_))
            c = _ssl.create_default_context(cafile=f'{CERTS}/ca.crt').wrap_socket(raw, server_hostname='localhost', suppress_ragged_eofs=False)
            c.sendall(f'CONNECT 127.0.0.1:{ls.getsockname()[1]} HTTP/1.1\r\n\r\n'.encode())
            ls.settimeout(5)
            srv, _ = ls.accept()
            head, rest = recv_head(c, 5)
            if not head.startswith(b'HTTP/1.1 200'):
                return {'error': f'no tunnel: {head[:40]!r}'}
            th = threading.Thread(target=slow_end, args=(c, 'y'), daemon=True); th.start()
            x = srv
            extra = len(rest)
        else:
            c = socket.create_connection(('127.0.0.1', hp_), timeout=5)
            c.sendall(b'CONNECT 127.0.0.1:9 HTTP/1.1\r\n\r\n')
            ls.settimeout(5)
            rawu, _ = ls.accept()
            rawu.setsockopt(socket.SOL_SOCKET, socket.SO_RCVBUF, 16384)
            u = tctx.wrap_socket(rawu, server_side=True, suppress_ragged_eofs=False)
            uh, urest = recv_head(u, 5)
            u.sendall(b'HTTP/1.1 200 OK\r\n\r\n')
            head, rest = recv_head(c, 5)
            if not head.startswith(b'HTTP/1.1 200'):
                return {'error': f'no tunnel: {head[:40]!r}'}
            th = threading.Thread(target=slow_end, args=(u, 'y'), daemon=True); th.start()
            x = c
            extra = len(urest)
        x.settimeout(0.5)
        sent = 0
        blob = pattern(65536, 3)
        try:
            while sent < N:
                sent += x.send(blob[:min(65536, N - sent)])
        except (socket.timeout, OSError):
            pass
        rst_close(x)
        th.join(10)
        n, how = res.get('y', (0, 'no verdict'))
        return {'sent_before_the_abort': sent, 'received': n + extra, 'stream_ended_with': how}
    finally:
        pxa.stop(); ls.close()

TCASES = [(m, w) for m in (True, False) for w in ('tls-client', 'tls-upstream')]
for case, r in zip(TCASES, run_parallel(TCASES, abort_through_tls, workers=4)):
    mode, where = case
    evals += 1
    if isinstance(r, tuple) or 'error' in r:
        machinery(f'abort through tls {case}: {r}')
    lost = r['sent_before_the_abort'] - r['received']
    distinct.add(('abort-through-tls', mode, where, lost > 0, r['stream_ended_with']))
    if r['stream_ended_with'] in ('no verdict',):
        machinery(f'abort through tls {case}: {r}')
    if lost > 0 and r['stream_ended_with'] == 'clean end-of-stream':
        chk.violation('close.abort-through-tls', f'clean-end-of-stream-after-an-abort-that-lost-bytes:{where}|{"splice" if mode else "buffered"}', f'{where}, useSplice={mode}: the plain endpoint sent {r["sent_before_the_abort"]} bytes and reset its connection; the TLS endpoint received {r["received"]} of them and then an authenticated end-of-stream (close_notify) - it cannot tell the stream was cut', {'useSplice': mode, 'where': where, 'observed': r})
    if r['stream_ended_with'] == 'timeout':
        chk.violation('close.abort-through-tls', f'abort-not-relayed:{where}|{"splice" if mode else "buffered"}', f'{where}, useSplice={mode}: 6 s after the plain endpoint reset its connection the TLS endpoint still has an open stream ({r})', {'useSplice': mode, 'where': where, 'observed': r})
    samples.append({'abort_through_tls': {'useSplice': mode, 'where': where, **r}})

# ---- after a tunnel was torn down with data backed up inside the relay (its origin never read, then reset), ordinary
#      exchanges - request, half-close, response, close - are byte-exact with their ends of stream: nothing the relay
#      holds for a direction outlives that direction (both I/O modes)
def after_aborted_backlog(mode):
    hp_, ap_ = free_port(), free_port()
    ls = socket.socket(); ls.setsockopt(socket.SOL_SOCKET, socket.SO_REUSEADDR, 1); ls.bind(('127.0.0.1', 0)); ls.listen(16)
    pxa = Proxy({'listeners': [{'name': 'rev', 'type': 'reverse', 'bind': f'127.0.0.1:{hp_}', 'target': f'127.0.0.1:{ls.getsockname()[1]}'}], 'connectors': [{'name': 'direct'}], 'rules': [{'target': 'direct'}],
                 'metrics': {'bind': f'127.0.0.1:{ap_}', 'ui': None}, 'ioParams': {'bufferSize': 65536, 'useSplice': mode}}, 'c04p')
    pxa.api_port = ap_
    if not pxa.start([hp_, ap_]):
        return {'error': pxa.log()[-300:]}
    out = []
    try:
        # (the start-up probe of the listener reached the origin too: take those connections out of the queue first)
        ls.settimeout(0.5)
        try:
            while True:
                x_, _ = ls.accept(); x_.close()
        except OSError:
            pass
        ls.settimeout(5)
        # tunnel A: 8 MB pushed at an origin that never reads, which then closes with the data unread (a reset)
        a = socket.create_connection(('127.0.0.1', hp_), timeout=5)
        sa, _ = ls.accept()
        a.settimeout(0.5)
        pushed = 0
        blob = b'\xa5' * 65536
        try:
            while pushed < (8 << 20):
                pushed += a.send(blob)
        except (socket.timeout, OSError):
            pass
        time.sleep(0.3)
        sa.close()
        time.sleep(0.3)
        try: a.close()
        except OSError: pass
        time.sleep(0.3)
        for i in range(6):
            c = socket.create_connection(('127.0.0.1', hp_), timeout=5)
            so, _ = ls.accept()
            req = pattern(295 + i, 11 + i)
            c.sendall(req); c.shutdown(socket.SHUT_WR)
            got_req, how_req = recv_until_eof(so, 4)
            resp = pattern(486 + i, 23 + i)
            so.sendall(resp); so.close()
            got_resp, how_resp = recv_until_eof(c, 4)
            c.close()
            ok = got_req == req and how_req == 'eof' and got_resp == resp and how_resp == 'eof'
            out.append('ok' if ok else f'request {len(got_req)}/{len(req)} then {how_req} ({sum(1 for b in got_req if b == 0xa5)} bytes of the torn-down tunnel); response {len(got_resp)}/{len(resp)} then {how_resp} ({sum(1 for b in got_resp if b == 0xa5)} bytes of the torn-down tunnel)')
        return {'pushed_into_the_torn_down_tunnel': pushed, 'exchanges': out}
    finally:
        pxa.stop(); ls.close()

for mode, r in zip((True, False), run_parallel([True, False], after_aborted_backlog, workers=2)):
    evals += 1
    if isinstance(r, tuple) or 'error' in r:
        machinery(f'after aborted backlog useSplice={mode}: {r}')
    if r['pushed_into_the_torn_down_tunnel'] < (1 << 20):
        machinery(f'after aborted backlog useSplice={mode}: only {r["pushed_into_the_torn_down_tunnel"]} bytes could be pushed')
    bad = [x for x in r['exchanges'] if x != 'ok']
    distinct.add(('after-aborted-backlog', mode, bool(bad)))
    if bad:
        chk.violation('close.after-torn-down-tunnel', f'later-exchange-not-exact|{"splice" if mode else "buffered"}', f'useSplice={mode}: after a tunnel with {r["pushed_into_the_torn_down_tunnel"]} bytes backed up was reset by its origin, {len(bad)} of 6 ordinary request / half-close / response / close exchanges were not exact: {bad[0]}', {'useSplice': mode, 'observed': r})
    samples.append({'after_aborted_backlog': {'useSplice': mode, **r}})

# ---- a half-closed tunnel outlives the idle period as long as its open direction keeps flowing: with timeouts.idle = 2
#      one endpoint sends a request and ends its direction, the other streams 12 pieces over 6 s
def half_closed_streaming(case):
    mode, who = case
    ls = socket.socket(); ls.setsockopt(socket.SOL_SOCKET, socket.SO_REUSEADDR, 1); ls.bind(('127.0.0.1', 0)); ls.listen(4)
    hp_, ap_ = free_port(), free_port()
    pxs = Proxy({'listeners': [{'name': 'http', 'bind': f'127.0.0.1:{hp_}'}], 'connectors': [{'name': 'direct'}], 'rules': [{'target': 'direct'}],
                 'metrics': {'bind': f'127.0.0.1:{ap_}', 'ui': None}, 'timeouts': {'idle': 2}, 'ioParams': {'bufferSize': 65536, 'useSplice': mode}}, 'c04s')
    pxs.api_port = ap_
    if not pxs.start([hp_, ap_]):
        return {'error': pxs.log()[-300:]}
    try:
        c = socket.create_connection(('127.0.0.1', hp_), timeout=5)
        c.sendall(f'CONNECT 127.0.0.1:{ls.getsockname()[1]} HTTP/1.1\r\n\r\n'.encode())
        ls.settimeout(5)
        srv, _ = ls.accept()
        head, rest = recv_head(c, 5)
        if not head.startswith(b'HTTP/1.1 200'):
            return {'error': f'no tunnel: {head[:40]!r}'}
        closer, streamer = (c, srv) if who == 'client-ends-first' else (srv, c)
        closer.sendall(b'request')
        if recv_exact(streamer, 7, 3) != b'request':
            return {'error': 'payload not relayed'}
        closer.shutdown(socket.SHUT_WR)
        if expect_end(streamer) != 'eof':
            return {'error': 'end-of-stream not relayed'}
        sent = 0
        def stream():
            nonlocal sent
            try:
                for i in range(12):
                    streamer.sendall(pattern(1000, i))
                    sent += 1000
                    time.sleep(0.5)
                streamer.shutdown(socket.SHUT_WR)
            except OSError:
                pass
        t = threading.Thread(target=stream, daemon=True); t.start()
        got, how = recv_until_eof(closer, 10)
        t.join(8)
        closer.close(); streamer.close()
        return {'received': len(got), 'sent': sent, 'end': how}
    finally:
        pxs.stop(); ls.close()

SCASES = [(m, w) for m in (True, False) for w in ('client-ends-first', 'origin-ends-first')]
for case, r in zip(SCASES, run_parallel(SCASES, half_closed_streaming, workers=4)):
    mode, who = case
    evals += 1
    mname = 'splice' if mode else 'buffered'
    if isinstance(r, tuple) or 'error' in r:
        machinery(f'half-closed streaming {case}: {r}')
    distinct.add(('half-closed-streaming', mname, who, r['received'] == 12000))
    if r['received'] != 12000 or r['end'] != 'eof':
        chk.violation('close.half-closed-streaming', f'open-direction-cut:{who}|{mname}', f'{who} ({mname}), timeouts.idle = 2: the open direction streamed 12 x 1000 bytes over 6 s; its receiver got {r["received"]} bytes, then {r["end"]} (the sender had written {r["sent"]})', {'useSplice': mode, 'who': who, 'observed': r})

# ---- more in flight than the kernel absorbs: the sender pushes 8 MiB and ends its direction while the receiver (64 KiB
#      receive buffer) is not reading for 1.5 s, so the relay meets a full send buffer (short writes, would-block) with
#      the end-of-stream already queued behind the data. Both directions x both I/O modes x plain / TLS listener.
import hashlib
HUGE = 8 << 20
def huge_in_flight(case):
    mode, direction, tls = case
    pattern = bytes(range(256)) * 4096  # 1 MiB, position dependent
    blob = pattern * (HUGE // len(pattern))
    want = hashlib.sha256(blob).hexdigest()
    got = {}
    ls = socket.socket()
    ls.setsockopt(socket.SOL_SOCKET, socket.SO_REUSEADDR, 1)
    ls.setsockopt(socket.SOL_SOCKET, socket.SO_RCVBUF, 65536)
    ls.bind(('127.0.0.1', 0)); ls.listen(4)
    oport = ls.getsockname()[1]
    def origin():
        try:
            c, _ = ls.accept()
            c.settimeout(20)
            if direction == 'upload':
                time.sleep(1.5)
                h, n = hashlib.sha256(), 0
                while True:
                    d = c.recv(1 << 16)
                    if not d:
                        break
                    h.update(d); n += len(d)
                got['n'], got['sha'] = n, h.hexdigest()
                c.sendall(b'ACK')      # the opposite direction is still open
                c.close()
            else:
                if recv_exact(c, 2, 5) != b'go':
                    got['err'] = 'no go'
                    return
                c.sendall(blob)
                c.shutdown(socket.SHUT_WR)
                got['late'] = recv_exact(c, 4, 15)
                c.close()
        except OSError as e:
            got['err'] = repr(e)
    t = threading.Thread(target=origin, daemon=True); t.start()
    hp_, ap_ = free_port(), free_port()
    l = {'name': 'http', 'bind': f'127.0.0.1:{hp_}'}
    if tls:
        l['tls'] = {'cert': f'{CERTS}/server.crt', 'key': f'{CERTS}/server.key'}
    pxh = Proxy({'listeners': [l], 'connectors': [{'name': 'direct'}], 'rules': [{'target': 'direct'}], 'metrics': {'bind': f'127.0.0.1:{ap_}', 'ui': None},
                 'ioParams': {'bufferSize': 65536, 'useSplice': mode}}, 'c04h')
    pxh.api_port = ap_
    if not pxh.start([hp_, ap_]):
        return {'error': pxh.log()[-300:]}
    try:
        raw = socket.socket()
        raw.setsockopt(socket.SOL_SOCKET, socket.SO_RCVBUF, 65536)
        raw.settimeout(20)
        raw.connect(('127.0.0.1', hp_))
        s = raw
        if tls:
            ctx = ssl.create_default_context(cafile=f'{CERTS}/ca.crt')
            s = ctx.wrap_socket(raw, server_hostname='localhost')
        s.sendall(f'CONNECT 127.0.0.1:{oport} HTTP/1.1\r\nHost: x\r\n\r\n'.encode())
        head, rest = recv_head(s, 5)
        if not head.startswith(b'HTTP/1.1 200'):
            return {'error': f'CONNECT -> {head[:40]!r}'}
        if direction == 'upload':
            s.sendall(blob)
            if tls:
                s.unwrap() if False else None
                # a TLS client ends its direction with close_notify; the plain socket is half-closed below it
                try:
                    s.sock_shutdown = None
                except Exception:
                    pass
            (raw if not tls else s).shutdown(socket.SHUT_WR) if not tls else s.unwrap().shutdown(socket.SHUT_WR)
            ack = recv_exact(raw if tls else s, 3, 15) if not tls else None
            t.join(20)
            return {'received': got.get('n'), 'digest_ok': got.get('sha') == want, 'late_reply': (ack == b'ACK') if not tls else None, 'err': got.get('err')}
        else:
            s.sendall(b'go')
            time.sleep(1.5)
            h, n = hashlib.sha256(), len(rest)
            h.update(rest)
            while True:
                try:
                    d = s.recv(1 << 16)
                except ssl.SSLError:
                    break
                except OSError:
                    break
                if not d:
                    break
                h.update(d); n += len(d)
            try:
                s.sendall(b'late')
            except OSError:
                pass
            t.join(20)
            return {'received': n, 'digest_ok': h.hexdigest() == want, 'late_reply': got.get('late') == b'late', 'err': got.get('err')}
    except OSError as e:
        return {'error': repr(e)}
    finally:
        pxh.stop(); ls.close()

import ssl
HCASES = [(m, d, t) for m in (True, False) for d in ('upload', 'download') for t in (False, True)]
HCASES = [c for c in HCASES if not (c[2] and c[1] == 'upload')]   # (a TLS half-close from Python needs unwrap(); the download direction covers the TLS listener)
for case, r in zip(HCASES, run_parallel(HCASES, huge_in_flight, workers=6)):
    mode, direction, tls = case
    evals += 1
    mname = ('splice' if mode else 'buffered') + ('+tls' if tls else '')
    if isinstance(r, tuple) or 'error' in r:
        machinery(f'huge in flight {case}: {r}')
    distinct.add(('huge', mname, direction, r['received'] == HUGE))
    replay = {'useSplice': mode, 'tls_listener': tls, 'direction': direction, 'bytes_sent': HUGE, 'observed': r}
    if r['received'] != HUGE or not r['digest_ok']:
        chk.violation('close.huge-in-flight', f'end-of-stream-before-all-bytes:{direction}|{mname}', f'{direction} ({mname}): the sender wrote {HUGE} bytes and ended its direction while the receiver was not reading; the receiver got {r["received"]} bytes before end-of-stream (digest ok: {r["digest_ok"]})', replay)
    elif r['late_reply'] is False:
        chk.violation('close.huge-in-flight', f'opposite-direction-closed:{direction}|{mname}', f'{direction} ({mname}): all bytes arrived but the opposite direction did not carry a late reply', replay)

if evals < 100 or len(distinct) < 10:
    machinery(f'vacuous: evals={evals} distinct={len(distinct)}')
cov = {'evaluations': evals, 'distinct_nontrivial': len(distinct), 'transitions': sum(len(s) for s in seqs) * 2, 'traces_validated_against_impl': evals,
       'rule': f'real binary, both I/O modes: all valid sequences of <= {L} ops over (client write, origin write, client half-close, origin half-close) x terminal op (none, client RST, origin RST, client close, origin close); lock-step with observation of bytes / EOF / reset at the other end after every op; final /api/history record per connection; after a tunnel torn down with 8 MB backed up, six request / half-close / response / close exchanges are byte-exact (both I/O modes); abort through TLS: a plain endpoint sends 2 MiB at a TLS endpoint that reads late, then resets - the TLS endpoint (client of a TLS listener / TLS upstream of a connector, both I/O modes) must not see an authenticated end-of-stream after fewer bytes than were sent',
       'scripts': len(seqs), 'max_ops': L, 'matrix_scripts_run': mcount, 'matrix': f'client {MCLIENT} x middle hop {MCONN} x useSplice x {len(mseqs)} scripts (incl. 9 with 300 KB in flight when the sender ends), through two real hops', 'schedule_control': 'kernel', 'samples': samples}
sys.exit(chk.finish('model_checking', cov, ['E4 part: lock-step scripts on loopback with 4 s one-sided deadlines; kernel scheduling between steps is not controlled']))
