#!/usr/bin/env python3
"""C04 (real sockets): half-close / close / abort sequences through the real binary in both I/O modes.
All operation sequences up to length L over {client writes, origin writes, client half-closes, origin half-closes}
followed by one optional terminal op {client RST, origin RST, client close, origin close}, executed lock-step on real
loopback sockets with useSplice true and false. Oracle: a reference of TCP half-close semantics, and identical
observation sequences and final records in both modes."""
import sys, json, itertools
sys.path.insert(0, '/verif/e4')
from lib import *

chk = Check('C04')
L = 4 if tier() == 'thorough' else 3

class ManualOrigin:
    def __init__(self):
        self.sock = socket.socket()
        self.sock.setsockopt(socket.SOL_SOCKET, socket.SO_REUSEADDR, 1)
        self.sock.bind(('127.0.0.1', 0))
        self.sock.listen(256)
        self.port = self.sock.getsockname()[1]
    def accept(self, timeout=5):
        self.sock.settimeout(timeout)
        c, a = self.sock.accept()
        return c

def sequences():
    base = ['cw', 'ow', 'csh', 'osh']
    out = []
    for n in range(0, L + 1):
        for seq in itertools.product(base, repeat=n):
            c_open, o_open, ok = True, True, True
            for op in seq:
                if op == 'cw' and not c_open: ok = False
                if op == 'ow' and not o_open: ok = False
                if op == 'csh':
                    if not c_open: ok = False
                    c_open = False
                if op == 'osh':
                    if not o_open: ok = False
                    o_open = False
            if not ok:
                continue
            for term in [None, 'crst', 'orst', 'cc', 'oc']:
                if term is None and (c_open or o_open):
                    # without a terminal op the script ends by closing both ends anyway (clean-up), record as 'both-close'
                    pass
                out.append(list(seq) + ([term] if term else []))
    return out

def rst_close(s):
    s.setsockopt(socket.SOL_SOCKET, socket.SO_LINGER, struct.pack('ii', 1, 0))
    s.close()

def expect_bytes(s, data, timeout=4.0):
    got = recv_exact(s, len(data), timeout)
    return got == data, got

def expect_end(s, timeout=4.0, allow_reset=False):
    """returns 'eof' | 'reset' | 'timeout' | 'data:<hex>'"""
    s.settimeout(timeout)
    try:
        d = s.recv(65536)
    except socket.timeout:
        return 'timeout'
    except (ConnectionResetError, BrokenPipeError, OSError):
        return 'reset'
    if d == b'':
        return 'eof'
    return 'data:' + d[:16].hex()

def run_script(px_port, origin, seq, idx):
    """returns (observations, source_port)"""
    obs = []
    c = socket.create_connection(('127.0.0.1', px_port), timeout=5)
    sport = c.getsockname()[1]
    c.sendall(f'CONNECT 127.0.0.1:{origin.port} HTTP/1.1\r\n\r\n'.encode())
    o = origin.accept()
    head, rest = recv_head(c, 5)
    if not head.startswith(b'HTTP/1.1 200'):
        return ['no-tunnel:' + head[:30].decode('latin1')], sport
    n = 0
    c_alive, o_alive = True, True
    for op in seq:
        n += 1
        if op == 'cw':
            data = pattern(37 + n, idx & 0xff)
            c.sendall(data)
            ok, got = expect_bytes(o, data)
            obs.append('cw:ok' if ok else f'cw:origin-got-{len(got)}-of-{len(data)}')
        elif op == 'ow':
            data = pattern(53 + n, (idx + 7) & 0xff)
            o.sendall(data)
            ok, got = expect_bytes(c, data)
            obs.append('ow:ok' if ok else f'ow:client-got-{len(got)}-of-{len(data)}')
        elif op == 'csh':
            c.shutdown(socket.SHUT_WR)
            obs.append('csh:origin-sees-' + expect_end(o))
        elif op == 'osh':
            o.shutdown(socket.SHUT_WR)
            obs.append('osh:client-sees-' + expect_end(c))
        elif op == 'crst':
            rst_close(c); c_alive = False
            r = expect_end(o)
            obs.append('crst:origin-sees-' + ('closed' if r in ('eof', 'reset') else r))
        elif op == 'orst':
            rst_close(o); o_alive = False
            r = expect_end(c)
            obs.append('orst:client-sees-' + ('closed' if r in ('eof', 'reset') else r))
        elif op == 'cc':
            c.close(); c_alive = False
            obs.append('cc:origin-sees-' + expect_end(o))
        elif op == 'oc':
            o.close(); o_alive = False
            obs.append('oc:client-sees-' + expect_end(c))
    # clean-up: close what is still open (the proxy must then finish the connection)
    for s, alive in ((c, c_alive), (o, o_alive)):
        if alive:
            try:
                s.close()
            except OSError:
                pass
    return obs, sport

def reference(seq):
    """expected observation list"""
    exp = []
    c_sh = o_sh = False
    for op in seq:
        if op in ('cw', 'ow'):
            exp.append(op + ':ok')
        elif op == 'csh':
            c_sh = True
            exp.append('csh:origin-sees-eof')
        elif op == 'osh':
            o_sh = True
            exp.append('osh:client-sees-eof')
        elif op == 'crst':
            # the origin had possibly already seen EOF (after csh): then it has nothing more to observe... it still must be closed
            exp.append('crst:origin-sees-closed')
        elif op == 'orst':
            exp.append('orst:client-sees-closed')
        elif op == 'cc':
            exp.append('cc:origin-sees-eof')
        elif op == 'oc':
            exp.append('oc:client-sees-eof')
    return exp

seqs = sequences()
results = {}
records = {}
for mode in (True, False):
    origin = ManualOrigin()
    hp, ap = free_port(), free_port()
    cfg = {'listeners': [{'name': 'http', 'bind': f'127.0.0.1:{hp}'}], 'connectors': [{'name': 'direct'}], 'rules': [{'target': 'direct'}],
           'metrics': {'bind': f'127.0.0.1:{ap}', 'ui': None, 'historySize': 100000}, 'ioParams': {'bufferSize': 4096, 'useSplice': mode}, 'timeouts': {'idle': 600}}
    px = Proxy(cfg, 'c04')
    px.api_port = ap
    if not px.start([hp, ap]):
        machinery('proxy did not start: ' + px.log()[-400:])
    lock = threading.Lock()
    def job(i):
        # accept() must pair with this script's connection: serialise connection set-up, run the body in parallel
        with lock:
            pass
        return run_script(hp, origin_for[i], seqs[i], i)
    # one listening origin per worker keeps accept() pairing trivial
    workers = 8
    origins = [ManualOrigin() for _ in range(workers)]
    origin_for = {i: origins[i % workers] for i in range(len(seqs))}
    out = [None] * len(seqs)
    def worker(w):
        for i in range(w, len(seqs), workers):
            try:
                out[i] = run_script(hp, origins[w], seqs[i], i)
            except Exception as e:
                out[i] = (['exception:' + repr(e)], None)
    ts = [threading.Thread(target=worker, args=(w,), daemon=True) for w in range(workers)]
    [t.start() for t in ts]
    [t.join() for t in ts]
    results[mode] = out
    time.sleep(2.3)  # GC
    st, body = px.api('GET', '/history')
    live_st, live_body = px.api('GET', '/live')
    recs = {}
    if st == 200:
        for r in json.loads(body):
            try:
                recs[int(r['source'].rsplit(':', 1)[1])] = r
            except Exception:
                pass
    records[mode] = (recs, json.loads(live_body) if live_st == 200 else None)
    if not px.alive():
        chk.violation('process', 'proxy-died', f'useSplice={mode}: exit {px.returncode()}: {px.log()[-300:]}', {})
    px.stop()

evals = 0
distinct = set()
samples = []
def names(r):
    return [s['state'] for s in r.get('state', [])]
for i, seq in enumerate(seqs):
    exp = reference(seq)
    per_mode = {}
    for mode in (True, False):
        evals += 1
        obs, sport = results[mode][i]
        mname = 'splice' if mode else 'buffered'
        per_mode[mode] = obs
        distinct.add((tuple(obs),))
        replay = {'ops': seq, 'useSplice': mode, 'observed': obs, 'expected': exp}
        if obs != exp:
            # class: first differing step
            k = next((j for j in range(min(len(obs), len(exp))) if obs[j] != exp[j]), min(len(obs), len(exp)))
            step = obs[k] if k < len(obs) else 'missing'
            kind = step.split(':')[0]
            what = {'csh': 'client-halfclose-not-relayed', 'osh': 'origin-halfclose-not-relayed', 'cw': 'data-lost-client-to-origin', 'ow': 'data-lost-origin-to-client',
                    'crst': 'client-abort-not-relayed', 'orst': 'origin-abort-not-relayed', 'cc': 'client-close-not-relayed', 'oc': 'origin-close-not-relayed'}.get(kind, kind)
            chk.violation(f'close.{mname}', what, f'{mname}: ops {seq}: observed {obs}, expected {exp}', replay)
        # final record
        recs, live = records[mode]
        rec = recs.get(sport)
        if rec is None:
            still_live = live is not None and any(str(l.get('source', '')).endswith(f':{sport}') for l in live)
            chk.violation(f'close.{mname}', 'connection-not-recorded-as-finished' + ('-still-live' if still_live else ''), f'{mname}: ops {seq}: no history record 2.3 s after both test sockets were closed', replay)
        else:
            st = names(rec)
            per_mode[(mode, 'rec')] = st[-1] if st else None
            if not st or st[-1] not in ('Terminated', 'ErrorOccured'):
                chk.violation(f'close.{mname}', 'no-terminal-state', f'{mname}: ops {seq}: states {st}', replay)
    if per_mode[True] != per_mode[False]:
        chk.violation('close.differential', 'modes-observe-differently', f'ops {seq}: splice {per_mode[True]} buffered {per_mode[False]}', {'ops': seq})
    if len(samples) < 3 and len(seq) == L:
        samples.append({'ops': seq, 'observed_splice': per_mode[True], 'observed_buffered': per_mode[False]})

if evals < 100 or len(distinct) < 10:
    machinery(f'vacuous: evals={evals} distinct={len(distinct)}')
cov = {'evaluations': evals, 'distinct_nontrivial': len(distinct), 'transitions': sum(len(s) for s in seqs) * 2, 'traces_validated_against_impl': evals,
       'rule': f'real binary, both I/O modes: all valid sequences of <= {L} ops over (client write, origin write, client half-close, origin half-close) x terminal op (none, client RST, origin RST, client close, origin close); lock-step with observation of bytes / EOF / reset at the other end after every op; final /api/history record per connection',
       'scripts': len(seqs), 'max_ops': L, 'schedule_control': 'kernel', 'samples': samples}
sys.exit(chk.finish('model_checking', cov, ['E4 part: lock-step scripts on loopback with 4 s one-sided deadlines; kernel scheduling between steps is not controlled']))
