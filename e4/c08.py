#!/usr/bin/env python3
"""C08 (real binary part): deep expressions on the stacks of the real build. The in-process part enumerates typed
trees; whether the recursive checker and evaluator survive an expression depends on the frame sizes of the build the
user runs, so the deep family is also taken through the real binary: as rule filter in the configuration file
(`--test`, start-up, then requests of three shapes) and as posted rule list (checked on an API worker, evaluated on a
runtime worker). Every expression of the family is true for every request: if it is accepted, the request it guards
must be served by its rule (the next rule denies), and the process must stay alive."""
import sys, json
sys.path.insert(0, '/verif/e4')
from lib import *

chk = Check('C08')
origin = Origin('echo')
thorough = tier() == 'thorough'
LIMIT = 20.0

def nest(k, n):
    e = '1'
    for _ in range(k):
        e = '(' + e + ')' + '+0' * n
    return e

FAMILY = []
shapes = ((1, 60), (1, 100), (1, 120), (1, 126), (1, 128), (1, 255), (2, 50), (2, 62), (2, 64), (2, 100), (4, 31), (4, 100), (4, 250), (6, 250), (8, 250), (12, 250), (16, 250)) if thorough else ((1, 100), (1, 126), (2, 62), (4, 31), (4, 250), (8, 250))
for k, n in shapes:
    e = nest(k, n)
    FAMILY += [(f'plain chain {k}x{n}', f'{e} == 1'),
               (f'chain {k}x{n} inside an array', f'[{e}][0] == 1'),
               (f'chain {k}x{n} inside a tuple', f'({e},).0 == 1'),
               (f'chain {k}x{n} inside a let binding', f'let a = {e} in a == 1'),
               (f'chain {k}x{n} inside a template', '`${to_string(' + e + ')}` == "1"'),
               (f'chain {k}x{n} inside a call', f'to_string({e}) == "1"'),
               (f'chain {k}x{n} inside an array inside a let', f'let a = [{e}, 2] in 1 _: a')]
towers = ((2, 60), (2, 88), (2, 92), (3, 58), (3, 61), (2, 100), (2, 120), (3, 80), (4, 60), (5, 100), (8, 100), (12, 100), (16, 100), (20, 100), (28, 95), (10, 20), (20, 10)) if thorough else ((2, 60), (2, 88), (3, 58), (2, 120), (5, 100), (12, 100), (20, 100), (28, 95))
for k, n in towers:
    e = 'let x0 = 1 in '
    for i in range(1, k + 1):
        e += f'let x{i} = x{i-1}' + '+0' * n + ' in '
    FAMILY.append((f'let tower {k} bindings x {n} operators', e + f'x{k} == 1'))
    e = 'let x0 = 1 in '
    for i in range(1, k + 1):
        e += f'let x{i} = if request.target.port == 0 then x{i-1}+0 else (x{i-1}' + '+0' * n + ') in '
    FAMILY.append((f'let tower {k} x {n}, deep use behind a conditional', e + f'(if request.target.port == 0 then x{k}+0 else x{k}' + '+0' * n + ') == 1'))
    e = 'let x0 = 1 in '
    for i in range(1, k + 1):
        e += f'let x{i} = [x{i-1}' + '+0' * n + ', 0][0] in '
    FAMILY.append((f'let tower {k} x {n} through arrays', e + f'x{k} == 1'))

def base(expr):
    hp, sp, ap = free_port(), free_port(), free_port()
    return {'listeners': [{'name': 'http', 'bind': f'127.0.0.1:{hp}'}, {'name': 'socks', 'bind': f'127.0.0.1:{sp}'}],
            'connectors': [{'name': 'direct'}],
            'rules': ([{'filter': expr, 'target': 'direct'}] if expr else []) + [{'target': 'deny'}],
            'metrics': {'bind': f'127.0.0.1:{ap}', 'ui': None}}, hp, sp, ap

def requests(hp, sp):
    """three request shapes (address target, name target, SOCKS5): each must be served by the guarded rule"""
    out = []
    for t in (f'127.0.0.1:{origin.port}', f'localhost:{origin.port}'):
        try:
            s, code, head, rest = http_connect(hp, t, timeout=5)
            out.append(f'http:{code}')
            s.close()
        except OSError:
            out.append('http:error')
    try:
        s, r = socks5_connect(sp, '127.0.0.1', origin.port, timeout=5)
        out.append(f"socks:{r['rep']}")
        s.close()
    except OSError:
        out.append('socks:error')
    return out

GOOD = ['http:200', 'http:200', 'socks:0']

def file_case(c):
    name, expr = c
    cfg, hp, sp, ap = base(expr)
    px = Proxy(cfg, 'c08f')
    px.api_port = ap
    try:
        rc, out = px.test_mode(timeout=LIMIT)
        if rc == 'timeout':
            return ('no-verdict-in-time', f'`--test` gave no verdict within {LIMIT:.0f} s')
        if rc not in (0, 1):
            return ('process-dies:load', f'`--test` ended with {rc}: {out[-200:]}')
        if rc == 1:
            return 'refused' if out.strip() else ('refused-without-message', 'exit 1 and nothing said')
        if not px.start([hp, sp], timeout=8):
            return ('process-dies:load', f'`--test` says ok, start-up ends with {px.returncode()}: {px.log()[-200:]}')
        outs = requests(hp, sp)
        time.sleep(0.2)
        if not px.alive():
            return ('process-dies:eval', f'accepted, then the process ended with {px.returncode()} after {outs}: {px.log()[-250:]}')
        if outs != GOOD:
            return ('accepted-then-fails', f'accepted; the requests it guards (it is true for every request) were answered {outs}: {px.log()[-250:]}')
        return 'accepted'
    finally:
        px.stop()

def post_case(c):
    name, expr = c
    cfg, hp, sp, ap = base(None)
    px = Proxy(cfg, 'c08p')
    px.api_port = ap
    try:
        if not px.start([hp, sp, ap], timeout=8):
            return ('machinery', px.log()[-200:])
        body = json.dumps([{'filter': expr, 'target': 'direct'}, {'target': 'deny'}])
        try:
            st, data = px.api('POST', '/rules', body, timeout=LIMIT)
        except Exception as e:
            st, data = None, repr(e).encode()
        time.sleep(0.1)
        if not px.alive():
            return ('process-dies:load', f'POST /api/rules ({len(body)} bytes) ended the process with {px.returncode()}: {px.log()[-250:]}')
        if st is None:
            return ('no-verdict-in-time', f'POST /api/rules not answered within {LIMIT:.0f} s: {data[:80]}')
        if st != 200:
            return 'refused' if data.strip() else ('refused-without-message', f'status {st} with an empty body')
        outs = requests(hp, sp)
        time.sleep(0.2)
        if not px.alive():
            return ('process-dies:eval', f'POST answered 200, then the process ended with {px.returncode()} after {outs}: {px.log()[-250:]}')
        if outs != GOOD:
            return ('accepted-then-fails', f'POST answered 200; the requests the rule guards were answered {outs}: {px.log()[-250:]}')
        return 'accepted'
    finally:
        px.stop()

evals = 0
distinct = set()
table = []
counts = {'accepted': 0, 'refused': 0}
fr = run_parallel(FAMILY, file_case, workers=12)
pr = run_parallel(FAMILY, post_case, workers=12)
for path, res in (('file', fr), ('post', pr)):
    for (name, expr), r in zip(FAMILY, res):
        evals += 1
        kind = ' '.join(w for w in name.split(' ') if not w[0].isdigit())
        if isinstance(r, tuple) and r[0] == 'machinery':
            machinery(f'{path} {name}: {r}')
        if isinstance(r, tuple) and len(r) == 2 and isinstance(r[1], str) and r[0] in ('no-verdict-in-time', 'process-dies:load', 'process-dies:eval', 'accepted-then-fails', 'refused-without-message'):
            short = expr if len(expr) < 160 else f'{expr[:80]} ... {expr[-60:]} ({len(expr)} characters)'
            chk.violation('evaluator.deep.real', f'{r[0]}:{path}:{kind}', f'{name} ({path}): {r[1]} :: {short}', {'path': path, 'label': name, 'expression': expr})
            distinct.add((path, kind, r[0]))
            table.append(f'{path}: {name}: {r[0]}')
        elif isinstance(r, tuple):
            machinery(f'{path} {name}: {r}')
        else:
            counts[r] += 1
            distinct.add((path, kind, r))
            table.append(f'{path}: {name}: {r}')
origin.stop()
# the two paths must agree on what is acceptable (the same checker decides)
for (name, expr), a, b in zip(FAMILY, fr, pr):
    if isinstance(a, str) and isinstance(b, str) and a != b:
        kind = ' '.join(w for w in name.split(' ') if not w[0].isdigit())
        chk.violation('evaluator.deep.real', f'file-and-post-disagree:{kind}', f'{name}: as rule in the file {a}, as posted rule {b}', {'label': name, 'expression': expr})
if len(chk.sigs) == 0 and (counts['accepted'] < 10 or counts['refused'] < 10):
    machinery(f'vacuous: {counts}')
cov = {'evaluations': evals, 'distinct_nontrivial': len(distinct), 'transitions': evals, 'traces_validated_against_impl': evals,
       'rule': f'real binary (the repository dev profile): the deep family - operator chains {list(shapes)} (parentheses x operators) plain and inside array / tuple / let binding / template / call / array in a let, let towers {list(towers)} (bindings x operators) plain, behind conditionals and through arrays - each as rule filter in the file (`--test x`, start-up, three requests) and as posted rule list (then three requests); refused needs a message, accepted needs the guarded requests served (every expression is true) and the process alive; file and post must agree',
       'accepted': counts['accepted'], 'refused': counts['refused'], 'verdicts': table, 'schedule_control': 'kernel'}
sys.exit(chk.finish('model_checking', cov, ['E4 part: stack use is that of the dev profile build of the working tree; a release build has smaller frames']))
