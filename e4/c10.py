#!/usr/bin/env python3
"""C10 (real sockets): UDP datagram fidelity and session isolation through every UDP path.
Grid: UDP-capable listener {socks5 UDP associate, reverse(udp), http CONNECT with Proxy-Protocol: udp (inline)}
x connector {direct, socks5 (second hop), http inline (second hop), quic inline, quic datagrams (second hop)}
x destination {IPv4, IPv6, domain} x payload size x {first, later datagram of the session}; three concurrent sessions
with tagged payloads; a closed client port must not make a datagram appear at the origin. Lock-step on loopback."""
import sys, json, itertools
sys.path.insert(0, '/verif/e4')
from lib import *

chk = Check('C10')
ensure_certs()
origin = UdpOrigin()
SIZES = [0, 1, 1100, 1200, 1300, 1472, 4096, 16384, 65000] if tier() == 'thorough' else [0, 1, 1200, 4096, 65000]
DSTS = [('ipv4', '127.0.0.1'), ('ipv6', '::1'), ('domain', 'localhost')]

# ---- hop B: listeners for every second-hop connector, all routed directly
bp = {k: free_port() for k in ('socks', 'http', 'quic', 'api')}
cfgB = {
    'listeners': [
        {'name': 'socks', 'bind': f"127.0.0.1:{bp['socks']}"},
        {'name': 'http', 'bind': f"127.0.0.1:{bp['http']}"},
        {'name': 'quic', 'type': 'quic', 'bind': f"127.0.0.1:{bp['quic']}", 'tls': {'cert': f'{CERTS}/server.crt', 'key': f'{CERTS}/server.key'}},
    ],
    'connectors': [{'name': 'direct'}], 'rules': [{'target': 'direct'}],
    'metrics': {'bind': f"127.0.0.1:{bp['api']}", 'ui': None}, 'timeouts': {'idle': 600, 'udp': 600},
}
pB = Proxy(cfgB, 'c10b')
pB.api_port = bp['api']
if not pB.start([bp['socks'], bp['http'], bp['api']]):
    machinery('hop B did not start: ' + pB.log()[-500:])
# A second hop B for the inline QUIC connector. A UDP session at this hop whose client side has ended lives on until
# the idle timeout (the origin's direction never "ends") and, arriving inline over QUIC, it keeps one of the connection's
# 100 streams until then: with the long timeout the sessions of earlier parts would use the streams up before the later
# parts run. Short timeouts on both hops of this path only.
bq = {k: free_port() for k in ('quic', 'api')}
pBq = Proxy({'listeners': [{'name': 'quic', 'type': 'quic', 'bind': f"127.0.0.1:{bq['quic']}", 'tls': {'cert': f'{CERTS}/server.crt', 'key': f'{CERTS}/server.key'}}],
             'connectors': [{'name': 'direct'}], 'rules': [{'target': 'direct'}], 'metrics': {'bind': f"127.0.0.1:{bq['api']}", 'ui': None}, 'timeouts': {'idle': 600, 'udp': 5}}, 'c10bq')
pBq.api_port = bq['api']
if not pBq.start([bq['api']]):
    machinery('hop B (quic inline) did not start: ' + pBq.log()[-500:])

CONNECTORS = {
    'direct': {'name': 'c', 'type': 'direct'},
    'socks5': {'name': 'c', 'type': 'socks', 'server': '127.0.0.1', 'port': bp['socks'], 'version': 5},
    'http-inline': {'name': 'c', 'type': 'http', 'server': '127.0.0.1', 'port': bp['http']},
    'quic-inline': {'name': 'c', 'type': 'quic', 'server': 'localhost', 'port': bq['quic'], 'bind': '127.0.0.1:0', 'inlineUdp': True, 'tls': {'ca': f'{CERTS}/ca.crt'}},
    'quic-datagrams': {'name': 'c', 'type': 'quic', 'server': 'localhost', 'port': bp['quic'], 'bind': '127.0.0.1:0', 'inlineUdp': False, 'tls': {'ca': f'{CERTS}/ca.crt'}},
}
hopA = {}
for cname, c in CONNECTORS.items():
    ap = {k: free_port() for k in ('socks', 'http', 'api')}
    rud = {d: free_port() for d, _ in DSTS}
    cfgA = {
        'listeners': [{'name': 'socks', 'bind': f"127.0.0.1:{ap['socks']}"}, {'name': 'http', 'bind': f"127.0.0.1:{ap['http']}"}] +
                     [{'name': f'rudp-{d}', 'type': 'reverse', 'protocol': 'udp', 'bind': f'127.0.0.1:{rud[d]}', 'target': (f'[{h}]:{origin.port}' if ':' in h else f'{h}:{origin.port}')} for d, h in DSTS],
        'connectors': [c], 'rules': [{'target': 'c'}],
        # reverse-UDP sessions have no end but the idle timeout, and every inline session over QUIC holds one of the
        # connection's 100 streams: with a long timeout the sessions of earlier parts would use the streams up
        'metrics': {'bind': f"127.0.0.1:{ap['api']}", 'ui': None}, 'timeouts': {'idle': 600, 'udp': 5 if cname == 'quic-inline' else 600},
    }
    p = Proxy(cfgA, 'c10a-' + cname)
    p.api_port = ap['api']
    if not p.start([ap['socks'], ap['http'], ap['api']]):
        machinery(f'hop A ({cname}) did not start: ' + p.log()[-500:])
    hopA[cname] = (p, ap, rud)

class Session:
    """one UDP association through hop A; send(payload) -> reply payload (or None), with the label of the replying address"""
    def __init__(self, listener, cname, dkind, dhost):
        self.listener, self.cname, self.dkind, self.dhost = listener, cname, dkind, dhost
        p, ap, rud = hopA[cname]
        self.ctrl = None
        if listener == 'socks5':
            self.ctrl, r = socks5_connect(ap['socks'], '0.0.0.0', 0, cmd=3, timeout=5)
            if r['rep'] != 0 or len(r['reply']) < 10:
                raise RuntimeError(f'udp associate refused: {r}')
            self.relay = ('127.0.0.1', struct.unpack('>H', r['reply'][8:10])[0])
            self.u = socket.socket(socket.AF_INET, socket.SOCK_DGRAM)
            self.u.bind(('127.0.0.1', 0))
        elif listener == 'reverse':
            self.u = socket.socket(socket.AF_INET, socket.SOCK_DGRAM)
            self.u.bind(('127.0.0.1', 0))
            self.relay = ('127.0.0.1', rud[dkind])
        else:  # http inline
            t = f'[{dhost}]:{origin.port}' if ':' in dhost else f'{dhost}:{origin.port}'
            self.ctrl, code, head, rest = http_connect(ap['http'], t, extra_headers=b'Proxy-Protocol: udp\r\n', timeout=5)
            if code != 200:
                raise RuntimeError(f'http udp connect refused: {head[:80]}')
            self.u = None
    def send(self, payload, timeout=3.0):
        """returns (reply payload | None, label | None)"""
        if self.listener == 'socks5':
            self.u.sendto(b'\0\0\0' + socks5_addr(self.dhost, origin.port) + payload, self.relay)
            self.u.settimeout(timeout)
            try:
                d, a = self.u.recvfrom(70000)
            except OSError:
                return None, None
            label, body = socks_udp_decode(d)
            return body, label
        if self.listener == 'reverse':
            self.u.sendto(payload, self.relay)
            self.u.settimeout(timeout)
            try:
                d, a = self.u.recvfrom(70000)
            except OSError:
                return None, None
            return d, 'implicit'
        self.ctrl.sendall(rpfm_frame(0, self.dhost, origin.port, payload))
        r = rpfm_read(self.ctrl, timeout)
        if r is None:
            return None, None
        return r[2], r[1]
    def extra(self, timeout=0.3):
        """anything else waiting for this client?"""
        try:
            if self.u is not None:
                self.u.settimeout(timeout)
                d, a = self.u.recvfrom(70000)
                return d
            r = rpfm_read(self.ctrl, timeout)
            return None if r is None else r[2]
        except OSError:
            return None
    def close(self):
        for s in (self.u, self.ctrl):
            if s is not None:
                try:
                    s.close()
                except OSError:
                    pass

seqno = [0]
retried = [0]
slock = threading.Lock()
def tagged(size, tag):
    with slock:
        seqno[0] += 1
        n = seqno[0]
    head = f'<{tag}#{n}>'.encode()
    if size == 0:
        return b''
    if size < len(head):
        return head[:size]
    return head + pattern(size - len(head), n & 0xff)

LISTENERS = ['socks5', 'reverse', 'http-inline']
cells = [(l, c, dk, dh) for l in LISTENERS for c in CONNECTORS for dk, dh in DSTS]
if tier() != 'thorough':
    # quick: every listener x connector pair once per destination kind in rotation
    cells = [cell for i, cell in enumerate(cells) if (i // 3 + i % 3) % 3 == 0]

def run_cell(cell):
    l, c, dk, dh = cell
    out = []
    try:
        s = Session(l, c, dk, dh)
    except Exception as e:
        return [('setup', None, 'setup-failed', repr(e))]
    try:
        # the first datagram of the session: a tagged 40-byte hello (also tells us which origin-side peer this session is)
        hello = tagged(40, f'hello-{l}/{c}/{dk}')
        try:
            reply, label = s.send(hello)
        except OSError as e:
            return [('first', 40, 'association-died', repr(e))]
        time.sleep(0.02)
        n = origin.count(hello)
        if reply is None:
            out.append(('first', 40, 'datagram-lost' if n == 0 else 'no-reply', f'arrived={n}'))
            # try once more so that the rest of the cell can run
            try:
                reply, label = s.send(hello)
            except OSError as e:
                return out + [('later', 40, 'association-died', repr(e))]
            time.sleep(0.02)
            if reply is None:
                return out + [('later', 40, 'datagram-lost' if origin.count(hello) == n else 'no-reply', 'second attempt')]
        elif reply != b'R' + hello:
            out.append(('first', 40, 'payload-corrupted', repr(reply[:30])))
        elif n != 1:
            out.append(('first', 40, f'delivered-{n}-times', ''))
        else:
            out.append(('first', 40, 'ok', ''))
        peers = origin.peers_of(hello)
        for size in SIZES:
            for which in ('later',):
                p = tagged(size, f'{l}/{c}/{dk}')
                before = origin.count(p, peers)
                try:
                    reply, label = s.send(p)
                except OSError as e:
                    out.append((which, size, 'association-died', repr(e)))
                    break
                time.sleep(0.02)
                arrived = origin.count(p, peers) - before
                verdict = 'ok'
                if reply is None and size > 1472:
                    # large datagrams travel as many fragments / packets: re-run once before judging
                    p = tagged(size, f'{l}/{c}/{dk}-retry')
                    before = origin.count(p, peers)
                    try:
                        reply, label = s.send(p, 5.0)
                    except OSError:
                        reply, label = None, None
                    time.sleep(0.02)
                    arrived = origin.count(p, peers) - before
                    retried[0] += 1
                if reply is None:
                    verdict = 'datagram-lost' if arrived == 0 else 'no-reply'
                elif reply != b'R' + p:
                    verdict = 'payload-corrupted'
                elif arrived != 1:
                    verdict = f'delivered-{arrived}-times'
                elif label is None:
                    verdict = 'reply-without-label'
                elif label != 'implicit':
                    host = label.rsplit(':', 1)[0].strip('[]')
                    port = label.rsplit(':', 1)[1]
                    if port != str(origin.port) or host not in ('127.0.0.1', '::1', 'localhost', dh):
                        verdict = f'wrong-label:{label}'
                out.append((which, size, verdict, f'reply={None if reply is None else reply[:24]} label={label} arrived={arrived}'))
            else:
                continue
            break
        x = s.extra()
        if x is not None:
            out.append(('after', None, 'unsolicited-datagram', repr(x[:40])))
    finally:
        s.close()
    return out

results = run_parallel(cells, run_cell, workers=6)
evals = 0
distinct = set()
samples = []
for cell, res in zip(cells, results):
    l, c, dk, dh = cell
    if isinstance(res, tuple):
        machinery(f'{cell}: {res}')
    for which, size, verdict, detail in res:
        evals += 1
        distinct.add((l, c, verdict))
        if verdict != 'ok' and dk == 'ipv6' and verdict in ('datagram-lost', 'association-died', 'no-reply'):
            # one finding per path: an IPv6 destination through this association
            chk.violation(f'udp.{l}->{c}', 'ipv6-destination:datagram-lost', f'{l} -> {c} -> ipv6: {which} datagram of {size} bytes: {verdict} ({detail})', {'listener': l, 'connector': c, 'destination': dk, 'size': size, 'which': which})
        elif verdict != 'ok':
            sizecls = 'n/a' if size is None else ('0' if size == 0 else ('<=1200' if size <= 1200 else ('<=1472' if size <= 1472 else '>1472')))
            chk.violation(f'udp.{l}->{c}', f'{verdict}:{which}-datagram:size{sizecls}', f'{l} -> {c} -> {dk}: {which} datagram of {size} bytes: {verdict} ({detail})', {'listener': l, 'connector': c, 'destination': dk, 'size': size, 'which': which})
    if len(samples) < 3:
        samples.append({'listener': l, 'connector': c, 'destination': dk, 'datagrams': [(w, s, v) for w, s, v, _ in res][:4]})

# ---- the largest payloads: what the client can send at most, and every size below it that is near a 16-bit boundary
#      of a carrier (an inline frame is 12 bytes of header + the address attribute + the body; a SOCKS5 datagram has its
#      own header). The echo reply is one byte longer than the request, so the request stops one short of what the
#      narrowest carrier on the path takes (beyond that a datagram cannot be delivered by any implementation).
def max_payload(listener, dk, connector='direct'):
    """the largest request such that request and reply (one byte longer) fit every carrier on the path"""
    socks_hdr = {'ipv4': 10, 'ipv6': 22, 'domain': 7 + len('localhost')}[dk]
    limits = [65527 if dk == 'ipv6' else 65507]                      # last hop -> destination (localhost resolves to 127.0.0.1)
    limits.append({'reverse': 65507, 'socks5': 65507 - socks_hdr, 'http-inline': 65535}[listener])   # client <-> first hop
    if connector == 'socks5':
        limits.append(65507 - socks_hdr)                            # first hop <-> second hop as SOCKS5 UDP over IPv4
    elif connector in ('http-inline', 'quic-inline', 'quic-datagrams'):
        limits.append(65535)                                        # frame body length is 16 bits
    return min(limits) - 1
def run_max(cell):
    l, c, dk, dh = cell
    top = max_payload(l, dk, c)
    sizes = list(range(top - 60, top + 1)) if tier() == 'thorough' else sorted({top, top - 1, 65505, 65504, 65500, 65490} & set(range(0, top + 1)) | {top})
    out = []
    try:
        s = Session(l, c, dk, dh)
    except Exception as e:
        return [(None, 'setup-failed', repr(e))]
    try:
        hello = tagged(40, f'max-hello-{l}/{c}/{dk}')
        r, _ = s.send(hello)
        if r is None:
            return [(40, 'first-datagram-lost', '')]
        peers = origin.peers_of(hello)
        for size in sizes:
            p = tagged(size, f'max-{l}/{c}/{dk}')
            try:
                reply, label = s.send(p, 4.0)
            except OSError as e:
                out.append((size, 'association-died', repr(e)))
                break
            if reply is None:
                # many fragments / packets: once more before judging
                p = tagged(size, f'max-{l}/{c}/{dk}-retry')
                try:
                    reply, label = s.send(p, 5.0)
                except OSError as e:
                    out.append((size, 'association-died', repr(e)))
                    break
                retried[0] += 1
            arrived = origin.count(p, peers)
            if reply is None:
                out.append((size, 'datagram-lost' if arrived == 0 else 'no-reply', f'arrived={arrived}'))
                # is the session still usable?
                q = tagged(7, f'max-after-{l}/{c}/{dk}')
                try:
                    r2, _ = s.send(q, 3.0)
                except OSError:
                    r2 = None
                if r2 is None:
                    out.append((7, 'session-dead-after-large-datagram', f'after {size} bytes'))
                    break
            elif reply != b'R' + p:
                out.append((size, 'payload-corrupted', f'{len(reply)} bytes back'))
            elif arrived != 1:
                out.append((size, f'delivered-{arrived}-times', ''))
            else:
                out.append((size, 'ok', ''))
    finally:
        s.close()
    return out

max_cells = [(l, c, dk, dh) for l in LISTENERS for c in CONNECTORS for dk, dh in DSTS if not (dk == 'ipv6' and (l != 'reverse'))] + \
            [('http-inline', c, 'ipv6', '::1') for c in ('direct', 'http-inline', 'quic-inline')]
for cell, res in zip(max_cells, run_parallel(max_cells, run_max, workers=6)):
    l, c, dk, dh = cell
    if isinstance(res, tuple):
        machinery(f'max {cell}: {res}')
    for size, verdict, detail in res:
        evals += 1
        distinct.add(('max', l, c, verdict))
        if verdict == 'ok':
            continue
        if dk == 'ipv6' and verdict == 'first-datagram-lost':   # the path does not carry IPv6 destinations at all (known finding for some paths)
            chk.violation(f'udp.{l}->{c}', 'ipv6-destination:datagram-lost', f'{l} -> {c} -> ipv6: datagram of {size} bytes: {verdict} ({detail})', {'listener': l, 'connector': c, 'destination': dk, 'size': size})
        else:
            chk.violation(f'udp.{l}->{c}', f'{verdict}:largest-payloads', f'{l} -> {c} -> {dk}: a datagram of {size} bytes (the path carries {max_payload(l, dk, c)}): {verdict} {detail}', {'listener': l, 'connector': c, 'destination': dk, 'size': size})

# ---- several destinations inside ONE association: every datagram names its own destination (SOCKS5 UDP associate;
#      CONNECT 0.0.0.0:0 with Proxy-Protocol: udp), so nothing may be remembered from one datagram to the next:
#      all ordered triples over {localhost:O1, localhost:O2, 127.0.0.1:O1, 127.0.0.1:O2} (a de Bruijn sequence on one
#      association) and every ordered pair on a fresh association
origin2 = UdpOrigin()
MD = [('localhost', origin), ('localhost', origin2), ('127.0.0.1', origin), ('127.0.0.1', origin2)]

def de_bruijn(k, n):
    a = [0] * k * n
    seq = []
    def db(t, p):
        if t > n:
            if n % p == 0:
                seq.extend(a[1:p + 1])
        else:
            a[t] = a[t - p]
            db(t + 1, p)
            for j in range(a[t - p] + 1, k):
                a[t] = j
                db(t + 1, t)
    db(1, 1)
    return seq + seq[:n - 1]

class MultiSession:
    def __init__(self, listener, cname):
        p, ap, rud = hopA[cname]
        self.listener = listener
        self.ctrl = None
        self.u = None
        if listener == 'socks5':
            self.ctrl, r = socks5_connect(ap['socks'], '0.0.0.0', 0, cmd=3, timeout=5)
            if r['rep'] != 0 or len(r['reply']) < 10:
                raise RuntimeError(f'udp associate refused: {r}')
            self.relay = ('127.0.0.1', struct.unpack('>H', r['reply'][8:10])[0])
            self.u = socket.socket(socket.AF_INET, socket.SOCK_DGRAM)
            self.u.bind(('127.0.0.1', 0))
        else:
            self.ctrl, code, head, rest = http_connect(ap['http'], '0.0.0.0:0', extra_headers=b'Proxy-Protocol: udp\r\n', timeout=5)
            if code != 200:
                raise RuntimeError(f'http udp connect refused: {head[:80]}')
    def send(self, host, port, payload, timeout=2.0):
        if self.listener == 'socks5':
            self.u.sendto(b'\0\0\0' + socks5_addr(host, port) + payload, self.relay)
            self.u.settimeout(timeout)
            try:
                d, a = self.u.recvfrom(70000)
            except OSError:
                return None, None
            label, body = socks_udp_decode(d)
            return body, label
        self.ctrl.sendall(rpfm_frame(0, host, port, payload))
        r = rpfm_read(self.ctrl, timeout)
        return (None, None) if r is None else (r[2], r[1])
    def close(self):
        for x in (self.u, self.ctrl):
            if x is not None:
                try:
                    x.close()
                except OSError:
                    pass

def run_multi(cell):
    l, c = cell
    out = []
    seqs = [('one-association', de_bruijn(4, 3))] + [('fresh', [i, j]) for i in range(4) for j in range(4)]
    for kind, seq in seqs:
        try:
            ms = MultiSession(l, c)
        except Exception as e:
            out.append((kind, seq[:3], 0, 'setup-failed', repr(e)))
            continue
        try:
            for pos, di in enumerate(seq):
                host, o = MD[di]
                other = origin2 if o is origin else origin
                p = tagged(60, f'multi-{l}/{c}/{kind}/{pos}')
                try:
                    reply, label = ms.send(host, o.port, p)
                except OSError as e:
                    out.append((kind, seq[max(0, pos - 2):pos + 1], pos, 'association-died', repr(e)))
                    break
                time.sleep(0.01)
                here, there = o.count(p), other.count(p)
                verdict = 'ok'
                if there:
                    verdict = 'delivered-to-another-destination'
                elif here == 0:
                    verdict = 'datagram-lost'
                elif here != 1:
                    verdict = f'delivered-{here}-times'
                elif reply is None:
                    verdict = 'no-reply'
                elif reply != b'R' + p:
                    verdict = 'payload-corrupted'
                elif label is None or label.rsplit(':', 1)[1] != str(o.port):
                    verdict = 'reply-labelled-with-another-address'
                out.append((kind, [MD[x][0] + ':' + ('O1' if MD[x][1] is origin else 'O2') for x in seq[max(0, pos - 2):pos + 1]], pos, verdict, f'addressed {host}:{o.port} arrived there {here} elsewhere {there} reply={None if reply is None else reply[:20]} label={label}'))
                if verdict != 'ok':
                    break
        finally:
            ms.close()
    return out

multi_cells = [(l, c) for l in ('socks5', 'http-inline') for c in CONNECTORS]
for cell, res in zip(multi_cells, run_parallel(multi_cells, run_multi, workers=5)):
    l, c = cell
    if isinstance(res, tuple):
        machinery(f'multi {cell}: {res}')
    for kind, window, pos, verdict, detail in res:
        evals += 1
        distinct.add((l, c, 'multi', verdict))
        if verdict != 'ok':
            chk.violation(f'udp.{l}->{c}', f'multi-destination:{verdict}', f'{l} -> {c}, {kind}, datagram #{pos} after destinations {window}: {verdict} ({detail})', {'listener': l, 'connector': c, 'kind': kind, 'last_destinations': window, 'position': pos})
samples.append({'multi_destination': {'cells': len(multi_cells), 'de_bruijn_length': len(de_bruijn(4, 3)), 'fresh_pairs': 16}})

# ---- the destination goes away and comes back (a refused datagram leaves an error pending on the connector's socket;
#      the next datagram from the destination wakes the reader): the client must only ever see what the destination sent
def run_restart(listener):
    o = socket.socket(socket.AF_INET, socket.SOCK_DGRAM)
    o.bind(('127.0.0.1', 0))
    oport = o.getsockname()[1]
    pr = {k: free_port() for k in ('rudp', 'http', 'api')}
    pxr = Proxy({'listeners': [{'name': 'rudp', 'type': 'reverse', 'protocol': 'udp', 'bind': f"127.0.0.1:{pr['rudp']}", 'target': f'127.0.0.1:{oport}'},
                               {'name': 'http', 'bind': f"127.0.0.1:{pr['http']}"}],
                 'connectors': [{'name': 'direct'}], 'rules': [{'target': 'direct'}], 'metrics': {'bind': f"127.0.0.1:{pr['api']}", 'ui': None}, 'timeouts': {'udp': 30}}, 'c10r')
    if not pxr.start([pr['http'], pr['api']]):
        machinery('restart proxy did not start: ' + pxr.log()[-300:])
    got = []
    ctrl = None
    try:
        if listener == 'reverse':
            c = socket.socket(socket.AF_INET, socket.SOCK_DGRAM)
            c.bind(('127.0.0.1', 0))
            send = lambda b: c.sendto(b, ('127.0.0.1', pr['rudp']))
            def recv(t):
                c.settimeout(t)
                try:
                    return c.recvfrom(70000)[0]
                except OSError:
                    return None
        else:
            ctrl, code, head, rest = http_connect(pr['http'], f'127.0.0.1:{oport}', extra_headers=b'Proxy-Protocol: udp\r\n', timeout=5)
            if code != 200:
                machinery(f'http udp connect refused: {head[:60]}')
            send = lambda b: ctrl.sendall(rpfm_frame(0, '127.0.0.1', oport, b))
            def recv(t):
                r = rpfm_read(ctrl, t)
                return None if r is None else r[2]
        send(b'one')
        o.settimeout(3)
        d, relay = o.recvfrom(2000)
        o.sendto(b'R' + d, relay)
        sent_by_origin = [b'R' + d]
        x = recv(2)
        if x is not None:
            got.append(x)
        o.close()                      # destination goes away
        time.sleep(0.1)
        try:
            send(b'two')               # refused: an error is now pending on the connector's socket
        except OSError:
            pass
        time.sleep(0.3)
        o2 = socket.socket(socket.AF_INET, socket.SOCK_DGRAM)
        o2.setsockopt(socket.SOL_SOCKET, socket.SO_REUSEADDR, 1)
        o2.bind(('127.0.0.1', oport))  # ... and comes back on the same port
        o2.sendto(b'late-reply', relay)
        sent_by_origin.append(b'late-reply')
        for _ in range(3):
            x = recv(0.7)
            if x is None:
                break
            got.append(x)
        o2.close()
        return got, sent_by_origin
    finally:
        for x in (ctrl,):
            if x is not None:
                x.close()
        pxr.stop()

for listener in ('reverse', 'http-inline'):
    try:
        got, sent = run_restart(listener)
    except OSError as e:
        machinery(f'restart scenario {listener}: {e!r}')
    evals += 1
    distinct.add(('restart', listener, len(got)))
    bogus = [g for g in got if g not in sent]
    if bogus or len(got) != len(set(got)):
        chk.violation(f'udp.{listener}->direct', 'destination-restart:datagram-nobody-sent', f'{listener} -> direct: the destination sent {sent}, the client received {got}', {'listener': listener, 'received': [g.hex() for g in got]})
    if not got or got[0] != sent[0]:
        machinery(f'restart scenario {listener} vacuous: first echo not received ({got})')
    samples.append({'destination_restart': {'listener': listener, 'client_received': [g.decode('latin1') for g in got]}})

# ---- a storm of new sessions: many clients send their first datagram at almost the same time to the reverse UDP
#      listener (sessions are created one after the other while datagrams keep arriving). Loss is not judged here;
#      a client must never be handed the answer to another client's datagram
def run_storm(cname):
    p_, ap_, rud_ = hopA[cname]
    port = rud_['ipv4']
    T, N = 8, (150 if tier() == 'thorough' else 80)
    if cname == 'quic-inline':
        # every inline session holds one QUIC stream and a connection carries 100 of them (quinn's default): beyond that
        # new sessions wait for a stream - a capacity limit, not what this storm is about
        N = 11
    res = {'own': 0, 'foreign': [], 'none': 0}
    lock = threading.Lock()
    barrier = threading.Barrier(T)
    def wave(w):
        socks = []
        for i in range(N):
            u = socket.socket(socket.AF_INET, socket.SOCK_DGRAM)
            u.bind(('127.0.0.1', 0))
            socks.append(u)
        barrier.wait()
        for i, u in enumerate(socks):
            u.sendto(b'storm-%s-%d-%d' % (cname.encode(), w, i), ('127.0.0.1', port))
            time.sleep(0.0004)
        time.sleep(1.2)
        for i, u in enumerate(socks):
            u.setblocking(False)
            got = []
            try:
                while True:
                    d, a = u.recvfrom(4000)
                    got.append(d)
            except OSError:
                pass
            want = b'Rstorm-%s-%d-%d' % (cname.encode(), w, i)
            with lock:
                if not got:
                    res['none'] += 1
                elif all(g == want for g in got):
                    res['own'] += 1
                else:
                    res['foreign'].append((want[1:].decode(), [g[:40].decode('latin1') for g in got if g != want]))
            u.close()
    ts = [threading.Thread(target=wave, args=(w,), daemon=True) for w in range(T)]
    [t.start() for t in ts]
    [t.join() for t in ts]
    return res

for cname in (['direct', 'socks5'] if tier() != 'thorough' else list(CONNECTORS)):
    r = run_storm(cname)
    evals += 1
    distinct.add(('storm', cname, bool(r['foreign'])))
    if r['own'] < 20:
        machinery(f'storm {cname} vacuous: only {r["own"]} sessions got their own answer')
    if r['foreign']:
        chk.violation(f'udp.reverse->{cname}', 'session-creation-storm:datagram-of-another-session', f'reverse -> {cname}: {len(r["foreign"])} clients of {r["own"] + r["none"] + len(r["foreign"])} were handed answers to other clients\' datagrams, e.g. {r["foreign"][:2]}', {'connector': cname, 'clients': r['own'] + r['none'] + len(r['foreign']), 'examples': r['foreign'][:5]})
    samples.append({'session_creation_storm': {'connector': cname, 'answered': r['own'], 'unanswered': r['none'], 'misdelivered': len(r['foreign'])}})

# ---- contiguous payload-size sweep over the fragmenting path (quic datagrams): every residue of the fragment size
def run_sweep(_):
    out = []
    lo, hi = (1000, 2600) if tier() == 'thorough' else (1080, 1330)
    try:
        s = Session('socks5', 'quic-datagrams', 'ipv4', '127.0.0.1')
    except Exception as e:
        return [('setup-failed', repr(e), None)]
    try:
        hello = tagged(40, 'sweep-hello')
        s.send(hello)
        for size in range(lo, hi):
            p = tagged(size, 'sweep')
            try:
                reply, label = s.send(p, 2.0)
                if reply is None:
                    p = tagged(size, 'sweep-retry')
                    reply, label = s.send(p, 4.0)
                    retried[0] += 1
            except OSError as e:
                out.append(('association-died', repr(e), size))
                break
            out.append(('ok' if reply == b'R' + p else ('datagram-lost' if reply is None else 'payload-corrupted'), '', size))
    finally:
        s.close()
    return out
for verdict, detail, size in run_sweep(None):
    evals += 1
    if verdict != 'ok':
        chk.violation('udp.socks5->quic-datagrams', f'size-sweep:{verdict}', f'socks5 -> quic-datagrams: a datagram of {size} bytes: {verdict} {detail} (sizes on both sides of it pass)', {'size': size})

# ---- three concurrent sessions per (listener, connector): interleaved round-robin, tagged payloads, isolation
iso_cells = [(l, c) for l in LISTENERS for c in CONNECTORS]
def run_iso(cell):
    l, c = cell
    out = []
    try:
        ss = [Session(l, c, 'ipv4', '127.0.0.1') for _ in range(3)]
    except Exception as e:
        return [('setup-failed', repr(e))]
    try:
        for rnd in range(4):
            size = [40, 3000, 40, 9000][rnd]
            ps = [tagged(size, f'iso{i}-{l}/{c}') for i in range(3)]
            # send all three first, then collect: replies must come back to their owner
            for i, s in enumerate(ss):
                try:
                    if l == 'socks5':
                        s.u.sendto(b'\0\0\0' + socks5_addr('127.0.0.1', origin.port) + ps[i], s.relay)
                    elif l == 'reverse':
                        s.u.sendto(ps[i], s.relay)
                    else:
                        s.ctrl.sendall(rpfm_frame(0, '127.0.0.1', origin.port, ps[i]))
                except OSError as e:
                    out.append(('association-died', repr(e)))
            for i, s in enumerate(ss):
                got = s.extra(3.0)
                if l == 'socks5' and got is not None:
                    got = socks_udp_decode(got)[1]
                if got is None:
                    # a verdict that rests on a deadline is re-run once (the QUIC datagram channel may shed load)
                    again = tagged(size, f'iso{i}-{l}/{c}-retry')
                    try:
                        r2, _ = s.send(again, 4.0)
                    except OSError:
                        r2 = None
                    if r2 == b'R' + again:
                        out.append(('ok', 'after one retry'))
                        retried[0] += 1
                    else:
                        out.append((f'session-datagram-lost:round{rnd}' if rnd > 0 else 'session-first-datagram-lost', f'session {i} got nothing for {ps[i][:20]} (and nothing for a second datagram)'))
                elif got != b'R' + ps[i]:
                    other = any(got == b'R' + ps[j] for j in range(3) if j != i)
                    out.append(('datagram-of-another-session' if other or b'iso' in got[:12] and f'iso{i}'.encode() not in got[:12] else 'payload-corrupted', f'session {i} expected {ps[i][:20]} got {got[:30]}'))
                else:
                    out.append(('ok', ''))
    finally:
        for s in ss:
            s.close()
    return out
for cell, res in zip(iso_cells, run_parallel(iso_cells, run_iso, workers=5)):
    l, c = cell
    if isinstance(res, tuple):
        machinery(f'iso {cell}: {res}')
    for verdict, detail in res:
        evals += 1
        distinct.add((l, c, 'iso', verdict.split(':')[0]))
        if verdict != 'ok':
            chk.violation(f'udp.{l}->{c}', f'concurrent-sessions:{verdict}', f'{l} -> {c}, 3 concurrent sessions: {detail}', {'listener': l, 'connector': c})

# ---- a receive error must not materialise as a datagram (client port closed while the origin answers)
def run_err(c):
    """the client goes away, the origin answers once (ICMP error pending on the session socket), then the client comes
    back on the same port: the pending error is what the session's next receive returns - it is not a datagram"""
    p, ap, rud = hopA[c]
    u = socket.socket(socket.AF_INET, socket.SOCK_DGRAM)
    u.bind(('127.0.0.1', 0))
    cport = u.getsockname()[1]
    tag = tagged(30, 'err-' + c)
    u.sendto(tag, ('127.0.0.1', rud['ipv4'])); time.sleep(0.05)
    u.sendto(tag, ('127.0.0.1', rud['ipv4']))
    time.sleep(0.3)
    peers = [a for a in origin.peers_of(tag) if a[0].count('.') == 3]
    if not peers:
        return 'session-not-established'
    u.close()
    origin.s4.sendto(b'late-reply', peers[-1])
    time.sleep(0.4)
    with origin.lock:
        n0 = len(origin.rx)
    u = socket.socket(socket.AF_INET, socket.SOCK_DGRAM)
    u.setsockopt(socket.SOL_SOCKET, socket.SO_REUSEADDR, 1)
    try:
        u.bind(('127.0.0.1', cport))
    except OSError:
        return 'session-not-established'
    again = tagged(30, 'again-' + c)
    u.sendto(again, ('127.0.0.1', rud['ipv4']))
    time.sleep(0.8)
    u.close()
    with origin.lock:
        extra = [d for (_, d, a) in origin.rx[n0:] if a[:2] in peers and d != again and not d.startswith(b'<')]
    return extra
for c in CONNECTORS:
    evals += 1
    r = run_err(c)
    distinct.add(('err', c, str(r)[:20]))
    if r == 'session-not-established':
        continue
    if r:
        chk.violation(f'udp.reverse->{c}', 'receive-error-became-a-datagram', f'reverse -> {c}: after the client port was closed the origin received {len(r)} datagram(s) nobody sent: {[x[:16] for x in r]}', {'connector': c})

# ---- a SOCKS5 UDP datagram whose FRAG byte is not zero is a piece of a datagram, not a datagram: a relay that does not
#      reassemble must drop it (RFC 1928) - forwarded as it is, the destination would get a datagram nobody sent
def run_frag(c):
    p, ap, rud = hopA[c]
    ctrl, r = socks5_connect(ap['socks'], '0.0.0.0', 0, cmd=3, timeout=5)
    if r['rep'] != 0 or len(r['reply']) < 10:
        return 'association-refused'
    relay = ('127.0.0.1', struct.unpack('>H', r['reply'][8:10])[0])
    u = socket.socket(socket.AF_INET, socket.SOCK_DGRAM)
    u.bind(('127.0.0.1', 0))
    try:
        first = tagged(40, f'frag-first-{c}')
        u.sendto(b'\0\0\0' + socks5_addr('127.0.0.1', origin.port) + first, relay)
        time.sleep(0.2)
        pieces = []
        for frag in (1, 2, 0x81, 0xff):
            piece = tagged(40, f'frag-{frag}-{c}')
            pieces.append(piece)
            u.sendto(b'\0\0' + bytes([frag]) + socks5_addr('127.0.0.1', origin.port) + piece, relay)
        time.sleep(0.1)
        last = tagged(40, f'frag-last-{c}')
        try:
            u.sendto(b'\0\0\0' + socks5_addr('127.0.0.1', origin.port) + last, relay)
        except OSError:
            pass
        time.sleep(0.5)
        return {'pieces_delivered': [p_[:30] for p_ in pieces if origin.count(p_) > 0], 'first': origin.count(first), 'last': origin.count(last)}
    finally:
        u.close(); ctrl.close()
for c in CONNECTORS:
    evals += 1
    r = run_frag(c)
    distinct.add(('frag', c, str(r)[:40]))
    if not isinstance(r, dict) or r['first'] != 1:
        continue    # the path does not work at all for this cell: judged elsewhere
    if r['pieces_delivered']:
        chk.violation(f'udp.socks5->{c}', 'fragment-forwarded-as-datagram', f'socks5 -> {c}: datagrams with FRAG != 0 were delivered to the destination as complete datagrams: {r["pieces_delivered"]}', {'connector': c, 'result': {k: str(v) for k, v in r.items()}})
    elif r['last'] != 1:
        chk.violation(f'udp.socks5->{c}', 'datagram-lost:after-a-fragment', f'socks5 -> {c}: the whole datagram sent after the fragments was delivered {r["last"]} times', {'connector': c})

# ---- a reverse UDP listener bound to the IPv6 wildcard serves IPv4 clients too (their address then appears in its
#      IPv4-mapped form on the session's socket): first and later datagrams of IPv4 and IPv6 clients, interleaved
def run_dualstack():
    q = {k: free_port() for k in ('ru', 'api')}
    pd = Proxy({'listeners': [{'name': 'rudp', 'type': 'reverse', 'protocol': 'udp', 'bind': f"[::]:{q['ru']}", 'target': f'127.0.0.1:{origin.port}'}],
                'connectors': [{'name': 'direct'}], 'rules': [{'target': 'direct'}], 'metrics': {'bind': f"127.0.0.1:{q['api']}", 'ui': None}}, 'c10d')
    pd.api_port = q['api']
    if not pd.start([q['api']]):
        return 'no-start: ' + pd.log()[-200:]
    try:
        clients = []
        for fam, dst in ((socket.AF_INET, '127.0.0.1'), (socket.AF_INET6, '::1'), (socket.AF_INET, '127.0.0.1')):
            u = socket.socket(fam, socket.SOCK_DGRAM)
            u.bind((dst, 0))
            clients.append((u, (dst, q['ru']), 'ipv4' if fam == socket.AF_INET else 'ipv6'))
        lost = []
        for rnd in range(4):
            for i, (u, to, fam) in enumerate(clients):
                p_ = tagged(30, f'dual-{fam}-{i}-{rnd}')
                u.sendto(p_, to)
                u.settimeout(2.0)
                try:
                    d, _ = u.recvfrom(4000)
                except OSError:
                    d = None
                if d != b'R' + p_:
                    lost.append((fam, i, rnd, None if d is None else d[:20]))
        for u, _, _ in clients:
            u.close()
        return lost
    finally:
        pd.stop()
evals += 1
r = run_dualstack()
distinct.add(('dualstack', str(r)[:30]))
if isinstance(r, str):
    samples.append({'dual_stack_reverse_listener': 'skipped: ' + r})
elif r:
    fams = sorted({x[0] for x in r})
    first = all(x[2] == 0 for x in r)
    chk.violation('udp.reverse->direct', f'datagram-lost:dual-stack-listener:{"+".join(fams)}-client', f'reverse listener bound to [::]: {len(r)} of 12 datagrams were not echoed to their sender: {r[:6]}', {'lost': [list(map(str, x)) for x in r]})

# ---- a SOCKS5 upstream that holds its UDP clients to the address they announce (enforceUdpClient): what the socks
#      CONNECTOR announces in its UDP ASSOCIATE must be where it will send from (or zeros), not the session's destination
def run_enforce(first_listener):
    qb = {k: free_port() for k in ('socks', 'api')}
    pe = Proxy({'listeners': [{'name': 'socks', 'type': 'socks', 'bind': f"127.0.0.1:{qb['socks']}", 'enforceUdpClient': True}], 'connectors': [{'name': 'direct'}], 'rules': [{'target': 'direct'}],
                'metrics': {'bind': f"127.0.0.1:{qb['api']}", 'ui': None}}, 'c10e')
    pe.api_port = qb['api']
    if not pe.start([qb['socks'], qb['api']]):
        return 'no-start'
    qa = {k: free_port() for k in ('ru', 'socks', 'api')}
    pf = Proxy({'listeners': [{'name': 'rudp', 'type': 'reverse', 'protocol': 'udp', 'bind': f"127.0.0.1:{qa['ru']}", 'target': f'127.0.0.1:{origin.port}'}, {'name': 'socks', 'bind': f"127.0.0.1:{qa['socks']}"}],
                'connectors': [{'name': 'c', 'type': 'socks', 'server': '127.0.0.1', 'port': qb['socks'], 'version': 5}], 'rules': [{'target': 'c'}],
                'metrics': {'bind': f"127.0.0.1:{qa['api']}", 'ui': None}}, 'c10f')
    pf.api_port = qa['api']
    if not pf.start([qa['socks'], qa['api']]):
        pe.stop()
        return 'no-start'
    try:
        lost = 0
        u = socket.socket(socket.AF_INET, socket.SOCK_DGRAM); u.bind(('127.0.0.1', 0)); u.settimeout(2.0)
        ctrl = None
        if first_listener == 'socks5':
            ctrl, r = socks5_connect(qa['socks'], '0.0.0.0', 0, cmd=3, timeout=5)
            if r['rep'] != 0 or len(r['reply']) < 10:
                return 'association-refused'
            to = ('127.0.0.1', struct.unpack('>H', r['reply'][8:10])[0])
        else:
            to = ('127.0.0.1', qa['ru'])
        for i in range(3):
            p_ = tagged(30, f'enforce-{first_listener}-{i}')
            wire = (b'\0\0\0' + socks5_addr('127.0.0.1', origin.port) + p_) if first_listener == 'socks5' else p_
            u.sendto(wire, to)
            try:
                d, _ = u.recvfrom(4000)
            except OSError:
                d = b''
            if not d.endswith(b'R' + p_):
                lost += 1
        u.close()
        if ctrl: ctrl.close()
        return lost
    finally:
        pf.stop(); pe.stop()
for fl in ('reverse', 'socks5'):
    evals += 1
    r = run_enforce(fl)
    distinct.add(('enforce', fl, str(r)))
    if isinstance(r, int) and r > 0:
        chk.violation(f'udp.{fl}->socks5', 'datagram-lost:upstream-enforces-announced-client-address', f'{fl} -> socks connector -> a SOCKS5 listener with enforceUdpClient: {r} of 3 datagrams were not delivered', {'listener': fl, 'lost': r})

# ---- a client whose FIRST session could not be set up (the upstream proxy was down) is a client like any other once the
#      upstream is back: the same socket sends again and its datagram is delivered (first datagram of a new session).
#      Reverse UDP listener -> http / socks connector -> second hop that is started late
def run_late_upstream(ckind):
    qb = {k: free_port() for k in ('up', 'api')}
    qa = {k: free_port() for k in ('ru', 'api')}
    conn = {'http': {'name': 'c', 'type': 'http', 'server': '127.0.0.1', 'port': qb['up']}, 'socks5': {'name': 'c', 'type': 'socks', 'server': '127.0.0.1', 'port': qb['up'], 'version': 5}}[ckind]
    pf = Proxy({'listeners': [{'name': 'rudp', 'type': 'reverse', 'protocol': 'udp', 'bind': f"127.0.0.1:{qa['ru']}", 'target': f'127.0.0.1:{origin.port}'}],
                'connectors': [conn], 'rules': [{'target': 'c'}], 'timeouts': {'udp': 30}, 'metrics': {'bind': f"127.0.0.1:{qa['api']}", 'ui': None}}, 'c10l')
    pf.api_port = qa['api']
    if not pf.start([qa['api']]):
        return 'no-start'
    pb_ = None
    try:
        u = socket.socket(socket.AF_INET, socket.SOCK_DGRAM); u.bind(('127.0.0.1', 0)); u.settimeout(1.5)
        p1 = tagged(30, f'late-{ckind}-one')
        u.sendto(p1, ('127.0.0.1', qa['ru']))
        try:
            u.recvfrom(4000)
            return 'answered-with-the-upstream-down'
        except OSError:
            pass
        time.sleep(0.5)
        pb_ = Proxy({'listeners': [{'name': 'up', 'type': ('http' if ckind == 'http' else 'socks'), 'bind': f"127.0.0.1:{qb['up']}"}], 'connectors': [{'name': 'direct'}], 'rules': [{'target': 'direct'}],
                     'metrics': {'bind': f"127.0.0.1:{qb['api']}", 'ui': None}}, 'c10m')
        pb_.api_port = qb['api']
        if not pb_.start([qb['up'], qb['api']]):
            return 'no-start'
        v = socket.socket(socket.AF_INET, socket.SOCK_DGRAM); v.bind(('127.0.0.1', 0)); v.settimeout(2.0)
        fresh = False
        for i in range(4):
            pv = tagged(30, f'late-{ckind}-fresh-{i}')
            v.sendto(pv, ('127.0.0.1', qa['ru']))
            try:
                d, _ = v.recvfrom(4000)
                if d.endswith(b'R' + pv):
                    fresh = True
                    break
            except OSError:
                pass
        v.close()
        if not fresh:
            return 'fresh-client-not-served-after-the-upstream-came-up'
        served = None
        u.settimeout(1.0)
        for i in range(8):
            p2 = tagged(30, f'late-{ckind}-two-{i}')
            u.sendto(p2, ('127.0.0.1', qa['ru']))
            try:
                d, _ = u.recvfrom(4000)
                if d.endswith(b'R' + p2):
                    served = i
                    break
            except OSError:
                pass
        u.close()
        return ('served', served)
    finally:
        pf.stop()
        if pb_:
            pb_.stop()
for ckind in ('http', 'socks5'):
    evals += 1
    r = run_late_upstream(ckind)
    distinct.add(('late-upstream', ckind, str(r)))
    if r in ('no-start', 'fresh-client-not-served-after-the-upstream-came-up', 'answered-with-the-upstream-down'):
        machinery(f'late upstream {ckind}: {r}')
    if r[1] is None:
        chk.violation(f'udp.reverse->{ckind}', 'datagram-lost:client-whose-first-session-failed', f'reverse UDP -> {ckind} connector: a client sent a datagram while the upstream proxy was down (session set-up failed); with the upstream back - a fresh client is served - 8 further datagrams from the same socket were all lost', {'connector': ckind})
    samples.append({'late_upstream': ckind, 'same_socket_served_at_attempt': r[1]})

# ---- the relay port of a SOCKS5 UDP association belongs to the client that first uses it: a datagram that another
#      sender gets into the port's queue at the same moment is not part of that client's session
def run_foreign(c):
    p, ap, rud = hopA[c]
    hits = 0
    tries = 12
    for t in range(tries):
        ctrl, r = socks5_connect(ap['socks'], '0.0.0.0', 0, cmd=3, timeout=5)
        if r['rep'] != 0 or len(r['reply']) < 10:
            return 'association-refused'
        relay = ('127.0.0.1', struct.unpack('>H', r['reply'][8:10])[0])
        a = socket.socket(socket.AF_INET, socket.SOCK_DGRAM); a.bind(('127.0.0.1', 0))
        b = socket.socket(socket.AF_INET, socket.SOCK_DGRAM); b.bind(('127.0.0.1', 0))
        mine = tagged(40, f'owner-{c}-{t}')
        alien = tagged(40, f'foreign-{c}-{t}')
        hdr = b'\0\0\0' + socks5_addr('127.0.0.1', origin.port)
        a.sendto(hdr + mine, relay)
        b.sendto(hdr + alien, relay)
        time.sleep(0.25)
        if origin.count(alien) > 0:
            hits += 1
        for x in (a, b, ctrl):
            x.close()
    return hits
for c in ('direct', 'http-inline'):
    evals += 1
    r = run_foreign(c)
    distinct.add(('foreign', c, str(r)))
    if isinstance(r, int) and r > 0:
        chk.violation(f'udp.socks5->{c}', 'foreign-sender-joins-the-session', f'socks5 -> {c}: in {r} of 12 associations a datagram that ANOTHER socket sent to the relay port right behind the owner\'s first datagram was forwarded to the destination as part of the owner\'s session', {'connector': c, 'hits': r})

origin2.stop()
for p, _, _ in hopA.values():
    if not p.alive():
        chk.violation('process', 'proxy-died', f'hop A exited with {p.returncode()}: {p.log()[-300:]}', {})
    p.stop()
if not pB.alive():
    chk.violation('process', 'proxy-died', f'hop B exited with {pB.returncode()}: {pB.log()[-300:]}', {})
if not pBq.alive():
    chk.violation('process', 'proxy-died', f'hop B (quic inline) exited with {pBq.returncode()}: {pBq.log()[-300:]}', {})
pB.stop(); pBq.stop()
origin.stop()
if evals < 100 or len(distinct) < 10:
    machinery(f'vacuous: evals={evals} distinct={len(distinct)}')
cov = {'evaluations': evals, 'distinct_nontrivial': len(distinct), 'transitions': evals, 'traces_validated_against_impl': evals,
       'rule': 'real binaries (two hops): [wave 9: a reverse-UDP client whose first session failed because the upstream proxy was down is served from the same socket once the upstream is up (http, socks5 connector)] UDP listener {socks5 associate, reverse udp, http CONNECT+Proxy-Protocol: udp inline} x connector {direct, socks5, http inline, quic inline, quic datagrams} x destination {ipv4, ipv6, domain} (quick: rotation) x payload sizes x first/later datagram, lock-step with a tagging echo origin; the largest payloads the client can send per listener and destination kind and sizes around 65505 (thorough: the 60 sizes below the maximum) for every listener x connector; 3 concurrent sessions x 4 rounds per listener x connector; a destination that goes away and comes back on its port (the pending receive error must not reach the client as a datagram); a storm of new sessions on the reverse listener (8 x 80 clients sending their first datagram 0.4 ms apart; no client may get an answer meant for another client); per-datagram destinations inside one association: all ordered triples over {localhost, 127.0.0.1} x {two origins} as a de Bruijn sequence plus all ordered pairs on fresh associations, for socks5 and CONNECT 0.0.0.0:0 x every connector; closed client port per connector',
       'cells': len(cells), 'sizes': SIZES, 'deadline_verdicts_rerun': retried[0], 'schedule_control': 'kernel', 'samples': samples}
sys.exit(chk.finish('exploration', cov, ['loopback, lock-step (send one datagram, await its echo with a 3 s deadline): absent network loss holds', 'TPROXY UDP and the QUIC listener as first hop (needs a QUIC client) are not driven directly: QUIC paths are covered as second hop'], merge=False))
