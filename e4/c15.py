#!/usr/bin/env python3
"""C15 (real binary part): reload through the real HTTP API and main()'s dispatch loop.
All sequences of <= 3 (thorough 4) reload events over {ALLOW, DENY, ALLOW2, 3 kinds of broken list at each position,
GET-then-POST-back}; after every event the first, second and third new request must follow the list in force."""
import sys, json, itertools
sys.path.insert(0, '/verif/e4')
from lib import *

chk = Check('C15')
origin = Origin('echo')
hp, ap = free_port(), free_port()
cfg = {
    'listeners': [{'name': 'http', 'bind': f'127.0.0.1:{hp}'}],
    'connectors': [{'name': 'direct'}, {'name': 'd2', 'type': 'direct'}],
    'rules': [{'target': 'direct'}],
    'metrics': {'bind': f'127.0.0.1:{ap}', 'ui': None},
}
px = Proxy(cfg, 'c15')
px.api_port = ap
if not px.start([hp, ap]):
    machinery('proxy did not start: ' + px.log()[-400:])

TARGET = f'127.0.0.1:{origin.port}'
LISTS = {
    'ALLOW': [{'filter': 'request.target.port == %d' % origin.port, 'target': 'direct'}, {'target': 'deny'}],
    'DENY': [{'filter': 'request.target.port == %d' % origin.port, 'target': 'deny'}, {'target': 'direct'}],
    'ALLOW2': [{'filter': 'request.listener == "nope"', 'target': 'deny'}, {'filter': 'request.source.host == "127.0.0.1"', 'target': 'd2'}],
}
EXPECT = {'ALLOW': True, 'DENY': False, 'ALLOW2': True}

def broken(name, pos, kind):
    l = json.loads(json.dumps(LISTS[name]))
    if kind == 'syntax':
        l[pos]['filter'] = 'request.listener == '
    elif kind == 'type':
        l[pos]['filter'] = 'request.target.port + 1'
    else:
        l[pos]['target'] = 'nosuch'
    return l

def request_allowed():
    try:
        s, code, head, rest = http_connect(hp, TARGET, timeout=5)
    except OSError as e:
        return 'error:' + repr(e)
    try:
        if code == 200:
            s.sendall(b'ping')
            ok = recv_exact(s, 4, 3) == b'ping'
            return True if ok else 'established-but-no-echo'
        return False if code is not None else 'no-reply'
    finally:
        s.close()

def canon_rules():
    st, body = px.api('GET', '/rules')
    if st != 200:
        return None
    return json.dumps([{'filter': r.get('filter'), 'target': r['target']} for r in json.loads(body)])

events = [('valid', n) for n in LISTS] + [('broken', n, p, k) for n in LISTS for p in range(len(LISTS[n])) for k in ('syntax', 'type', 'unknown-target')] + [('roundtrip',)]
depth = 3 if tier() == 'thorough' else 2
# histories: all sequences of valid/roundtrip events up to `depth-1`, each followed by every event
prefix_events = [e for e in events if e[0] in ('valid', 'roundtrip')]
histories = [()]
for d in range(1, depth):
    histories += list(itertools.product(prefix_events, repeat=d))
evals = 0
distinct = set()
samples = []
in_force = None

def apply(ev):
    global in_force
    if ev[0] == 'valid':
        st, body = px.api('POST', '/rules', json.dumps(LISTS[ev[1]]))
        return st, (ev[1] if st == 200 else in_force)
    if ev[0] == 'broken':
        st, body = px.api('POST', '/rules', json.dumps(broken(ev[1], ev[2], ev[3])))
        return st, in_force
    st, body = px.api('GET', '/rules')
    if st != 200:
        return st, in_force
    st, body = px.api('POST', '/rules', body)
    return st, in_force

for h in histories:
    # reset to a known list
    st, _ = px.api('POST', '/rules', json.dumps(LISTS['ALLOW']))
    if st != 200:
        machinery('cannot reset rules: %r' % st)
    in_force = 'ALLOW'
    bad = False
    for ev in h:
        st, in_force = apply(ev)
    for ev in events:
        evals += 1
        before = canon_rules()
        name_before = in_force
        st, in_force = apply(ev)
        after = canon_rules()
        replay = {'history': [list(e) for e in h], 'event': list(ev)}
        if not px.alive():
            chk.violation('rules.reload', 'proxy-died', f'proxy exited with {px.returncode()} after {h} + {ev}: {px.log()[-300:]}', replay)
            machinery_exit = True
            break
        if ev[0] == 'valid' and st != 200:
            chk.violation('rules.reload', 'valid-list-rejected', f'POST {ev[1]} -> {st}', replay)
        if ev[0] == 'broken' and st == 200:
            chk.violation('rules.reload', f'invalid-list-accepted:{ev[3]}', f'POST {ev} -> 200', replay)
        if ev[0] == 'broken' and before != after:
            chk.violation('rules.reload', f'failed-reload-changed-list:{ev[3]}@{ev[2]}', f'{before} -> {after}', replay)
        if ev[0] == 'roundtrip' and (st != 200 or before != after):
            chk.violation('rules.reload', 'roundtrip-changed-list', f'status {st}: {before} -> {after}', replay)
        # the first, second and third request that begin after the call returned
        outcomes = [request_allowed() for _ in range(3)]
        distinct.add((ev[0], in_force, tuple(map(str, outcomes))))
        want = EXPECT[in_force]
        for i, o in enumerate(outcomes):
            if o != want:
                cls = 'request-after-reload-decided-by-old-list' if (i == 0 and o == EXPECT.get(name_before) and o in (True, False)) else 'request-not-decided-by-list-in-force'
                chk.violation('rules.reload', cls, f'after {list(h)} + {list(ev)} (list in force: {in_force}) request #{i+1} -> {o}, expected {want}', replay)
        if len(samples) < 3:
            samples.append({'history': [list(e) for e in h], 'event': list(ev), 'first_three_requests': [str(o) for o in outcomes]})
    if not px.alive():
        break

# ---- refused replacements, many of them: a list that is refused leaves the list in force exactly as it was - also the
#      640th time, also when what is in force sits close to a limit the refused one exceeds. In force: one always-true
#      filter nested close to the evaluation bound; refused: the same shape beyond it (and three other kinds of broken
#      list); afterwards every request is still allowed and reading the list and posting it back is accepted
if px.alive():
    def chain(n):
        return 'true' + ' && true' * n
    deep_ok = f'let a = {chain(90)} in a{" && true" * 90}'
    too_deep = f'let a = {chain(120)} in a{" && true" * 120}'
    st, body = px.api('POST', '/rules', json.dumps([{'filter': deep_ok, 'target': 'direct'}, {'target': 'deny'}]))
    if st != 200:
        machinery(f'the deep list was refused: {st} {body[:200]}')
    before = canon_rules()
    first = [request_allowed() for _ in range(40)]
    refused_kinds = {'too-deep': [{'filter': too_deep, 'target': 'direct'}], 'syntax': [{'filter': '1 +', 'target': 'direct'}],
                     'type': [{'filter': '1 + 1', 'target': 'direct'}], 'unknown-target': [{'target': 'nosuch'}]}
    accepted = []
    for i in range(640):
        kind = ('too-deep', 'too-deep', 'too-deep', 'syntax', 'too-deep', 'type', 'too-deep', 'unknown-target')[i % 8]
        st, body = px.api('POST', '/rules', json.dumps(refused_kinds[kind]))
        if st == 200:
            accepted.append(kind)
    evals += 640
    after = [request_allowed() for _ in range(200)]
    rules_after = canon_rules()
    back = []
    for _ in range(32):
        st_g, body_g = px.api('GET', '/rules')
        st_p, _ = px.api('POST', '/rules', body_g)
        back.append(st_p)
    distinct.add(('many-refused', all(first), all(after), rules_after == before))
    replay = {'in_force': deep_ok[:60] + '...', 'refused_posts': 640}
    if accepted:
        chk.violation('rules.reload', 'invalid-list-accepted:after-many-refusals', f'{len(accepted)} of 640 broken lists were accepted ({sorted(set(accepted))})', replay)
    if any(x is not True for x in first):
        machinery(f'the deep always-true list does not allow requests: {first[:5]}')
    if any(x is not True for x in after) or rules_after != before:
        chk.violation('rules.reload', 'refused-replacements-change-the-list-in-force', f'after 640 refused POSTs (nesting beyond the bound, syntax, type, unknown target) {sum(1 for x in after if x is not True)} of 200 requests that the list in force allows were refused; GET /rules unchanged: {rules_after == before}', replay)
    if any(x != 200 for x in back):
        chk.violation('rules.reload', 'post-back-of-the-list-in-force-refused:after-many-refusals', f'after 640 refused POSTs, reading the list in force and posting it back was answered {sorted(set(back))} in {sum(1 for x in back if x != 200)} of 32 rounds', replay)
    samples.append({'many_refused': {'requests_allowed_after': after.count(True), 'post_back': sorted(set(back))}})

px.stop()
origin.stop()
if evals < 20 or len(distinct) < 3:
    machinery(f'vacuous: evals={evals} distinct={len(distinct)}')
cov = {'evaluations': evals, 'distinct_nontrivial': len(distinct), 'transitions': evals, 'traces_validated_against_impl': evals,
       'rule': 'real binary: every reload event (3 valid lists, 18 broken lists, GET-then-POST-back) after every history of valid events up to the depth bound; three sequential CONNECT requests after each event; 640 refused replacements (nesting beyond the bound, syntax, type, unknown target) against a list nested close to the bound: 200 requests still allowed, post-back accepted',
       'histories': len(histories), 'events': len(events), 'schedule_control': 'kernel', 'samples': samples}
sys.exit(chk.finish('model_checking', cov, ['E4 part: real sockets, kernel scheduling between lock-step script steps is not controlled']))
